(* driver for m_freelist (property C39: extension-type allocation with a freelist).
   run <use_freelists> <type_specs> <memset> <cap> <nc> <no> <op> ...  -> <trace> <final freecount>
   ref <nc> <no> <op> ...                                             -> <trace>
     op:  N<slot>:<e|s|o>   new object of the exact type / same-size static subtype / other type
          C<slot>:<f>:<v>   C attribute f = v        O<slot>:<f>:<v>   object attribute f = v (0 NULL, 1 None)
          F<slot>           release                  G<slot>           observe
     trace: observations separated by ';', each '-' (empty variable) or <c words>|<object words>; '.' if none *)

let op_of (w : string) : op =
  let body = String.sub w 1 (String.length w - 1) in
  let parts = String.split_on_char ':' body in
  match w.[0], parts with
  | 'N', [s; t] -> ONew (nat_of_int (int_of_string s),
                         (match t with "e" -> TExact | "s" -> TSameSize | "o" -> TOther | _ -> failwith "tclass"))
  | 'C', [s; f; v] -> OSetC (nat_of_int (int_of_string s), nat_of_int (int_of_string f), z_of_string v)
  | 'O', [s; f; v] -> OSetO (nat_of_int (int_of_string s), nat_of_int (int_of_string f), z_of_string v)
  | 'F', [s] -> OFree (nat_of_int (int_of_string s))
  | 'G', [s] -> OGet (nat_of_int (int_of_string s))
  | _ -> failwith ("op " ^ w)

let str_obs = function
  | None -> "-"
  | Some b -> string_of_zlist b.b_c ^ "|" ^ string_of_zlist b.b_o

let str_trace tr = if tr = [] then "." else String.concat ";" (List.map str_obs tr)

let handle = function
  | "run" :: fl :: sp :: ms :: cap :: nc :: no :: ops ->
    let c = mk_cfg (bool_of_string fl) (bool_of_string sp) (bool_of_string ms)
              (nat_of_int (int_of_string cap)) (nat_of_int (int_of_string nc)) (nat_of_int (int_of_string no)) in
    let p = List.map op_of ops in
    str_trace (trace c [] [] p) ^ " " ^ string_of_int (int_of_nat (length (final_freelist c [] [] p)))
  | "ref" :: nc :: no :: ops ->
    str_trace (trace_ref (nat_of_int (int_of_string nc)) (nat_of_int (int_of_string no)) [] (List.map op_of ops))
  | _ -> "!ERR badcmd"

let () = main_loop handle
