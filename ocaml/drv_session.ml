(* driver for m_session
   pxds:    "AUU,U,-"       one word per .pxd (A = KAlways, U = KUsed; "-" = no entries), comma separated
   module:  "0:1.2;1:"      cimports "pxd:used.entries" separated by ';' ("-" = no cimports)
   batch:   modules separated by '|'
   session <reset 0|1> <pxds> <batch>  -> per module "parsed#p:i,p:i,..." joined by '|'
   isolated <pxds> <module>            -> "parsed#p:i,..."
   after <pxds> <batch prefix> <module> -> "parsed#p:i,..."   *)
let ints sep s = if s = "-" || s = "" then [] else List.map int_of_string (String.split_on_char sep s)

let pxds_of s =
  if s = "-" || s = "" then []
  else List.map (fun w -> if w = "-" then [] else
      List.map (function 'A' -> KAlways | 'U' -> KUsed | _ -> failwith "kind") (List.of_seq (String.to_seq w)))
    (String.split_on_char ',' s)

let module_of s =
  if s = "-" || s = "" then []
  else List.map (fun ci ->
      match String.index_opt ci ':' with
      | None -> failwith "cimport"
      | Some i -> (nat_of_int (int_of_string (String.sub ci 0 i)),
                   List.map nat_of_int (ints '.' (String.sub ci (i + 1) (String.length ci - i - 1)))))
    (String.split_on_char ';' s)

(* "-" alone is a batch of one module without cimports; the empty batch is written "" (never sent) *)
let batch_of s = if s = "" then [] else List.map module_of (String.split_on_char '|' s)

let out_str (parsed, out) =
  let ps = List.map (fun p -> string_of_int (int_of_nat p)) parsed in
  let os = List.map (fun (p, i) -> string_of_int (int_of_nat p) ^ ":" ^ string_of_int (int_of_nat i)) out in
  (if ps = [] then "-" else String.concat "," ps) ^ "#" ^ (if os = [] then "-" else String.concat "," os)

let handle = function
  | ["session"; reset; pxds; batch] ->
      String.concat "|" (List.map out_str (session (pxds_of pxds) (bool_of_string reset) fresh (batch_of batch)))
  | ["isolated"; pxds; m] -> out_str (isolated (pxds_of pxds) (module_of m))
  | ["after"; pxds; prefix; m] -> out_str (after (pxds_of pxds) (batch_of prefix) (module_of m))
  | _ -> "!ERR badcmd"

let () = main_loop handle
