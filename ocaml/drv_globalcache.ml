(* run <cached> <site:name,...> <op> ...   ops: SM:k:v DM:k SB:k:v DB:k L:site *)
let parse_op s = match String.split_on_char ':' s with
  | ["SM"; k; v] -> SetMod (z_of_string k, z_of_string v)
  | ["DM"; k] -> DelMod (z_of_string k)
  | ["SB"; k; v] -> SetBuiltin (z_of_string k, z_of_string v)
  | ["DB"; k] -> DelBuiltin (z_of_string k)
  | ["L"; i] -> Lookup (z_of_string i)
  | _ -> failwith "op"
let parse_nm s = List.map (fun p -> match String.split_on_char ':' p with
  | [i; k] -> (z_of_string i, z_of_string k) | _ -> failwith "nm") (split_on ',' s)
let handle = function
  | "run" :: c :: nm :: ops ->
      let rs = run (bool_of_string c) (nm_of (parse_nm nm)) w0 (List.map parse_op ops) in
      if rs = [] then "-" else
      String.concat "," (List.map (function Found v -> string_of_z v | NameError -> "N") rs)
  | _ -> "!ERR badcmd"
let () = main_loop handle
