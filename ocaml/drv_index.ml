(* driver for m_index:
     get|set <fix_dwrap> <kind> <tw> <ts> <n> <v> <wa> <bc>   -> access ; result
     del <fix_dwrap> <kind> <tw> <ts> <n> <v> <wa>            -> access ; result
     pyindex <n> <i> | cpysub <n> <i>             -> result
     slice <fixcrop> <fixclamp> <kind> <n> <bs> <be>   (bound: A | N | C<int> | P<int>)
     setslice <fixclamp> <kind> <n> <bs> <be>
     pyslice <n> <bs> <be>
     adjust <n> <start> <stop>  -> start' stop' len
     crop <fixcrop> <n> <start> <stop> -> start' stop' len *)
let kind_of_string = function
  | "list" -> KList | "tuple" -> KTuple | "str" -> KStr | "bytes" -> KBytes
  | "bytearray" -> KByteArray | "olist" -> KObjList | "otuple" -> KObjTuple
  | "omap" -> KObjMap | "oseq" -> KObjSeq | "oseqpy" -> KObjSeqPy | _ -> failwith "kind"

let string_of_access = function
  | Fast k -> "Fast " ^ string_of_z k
  | Generic i -> "Generic " ^ string_of_z i
  | SqSlot i -> "SqSlot " ^ string_of_z i
  | SqDispatch i -> "SqDispatch " ^ string_of_z i
  | Raise -> "Raise"

let string_of_iresult = function
  | Elem k -> "E " ^ string_of_z k
  | IndexError -> "IndexError"
  | OutOfBounds k -> "OOB " ^ string_of_z k

let string_of_sresult = function
  | Sel (f, c) -> "S " ^ string_of_z f ^ " " ^ string_of_z c
  | OverflowError -> "OverflowError"
  | SliceOOB (f, c) -> "OOB " ^ string_of_z f ^ " " ^ string_of_z c

let bound_of_string s =
  if s = "A" then BAbsent else if s = "N" then BNone
  else let rest = String.sub s 1 (String.length s - 1) in
    match s.[0] with
    | 'C' -> BCInt (z_of_string rest)
    | 'P' -> BPyInt (z_of_string rest)
    | _ -> failwith "bound"

let triple = function ((a, b), c) ->
  string_of_z a ^ " " ^ string_of_z b ^ " " ^ string_of_z c

let acc n a = string_of_access a ^ " ; " ^ string_of_iresult (run n a)

let handle = function
  | ["get"; fx; k; tw; ts; n; v; wa; bc] ->
      let n = z_of_string n in
      acc n (getitem_int (bool_of_string fx) (kind_of_string k) (z_of_string tw) (bool_of_string ts) n (z_of_string v)
               (bool_of_string wa) (bool_of_string bc))
  | ["set"; fx; k; tw; ts; n; v; wa; bc] ->
      let n = z_of_string n in
      acc n (setitem_int (bool_of_string fx) (kind_of_string k) (z_of_string tw) (bool_of_string ts) n (z_of_string v)
               (bool_of_string wa) (bool_of_string bc))
  | ["del"; fx; k; tw; ts; n; v; wa] ->
      let n = z_of_string n in
      acc n (delitem_int (bool_of_string fx) (kind_of_string k) (z_of_string tw) (bool_of_string ts) n (z_of_string v)
               (bool_of_string wa))
  | ["pyindex"; n; i] -> string_of_iresult (py_index (z_of_string n) (z_of_string i))
  | ["cpysub"; n; i] -> string_of_iresult (cpython_subscript (z_of_string n) (z_of_string i))
  | ["slice"; fc; fl; k; n; bs; be] ->
      string_of_sresult (slice_node (bool_of_string fc) (bool_of_string fl) (kind_of_string k)
                           (z_of_string n) (bound_of_string bs) (bound_of_string be))
  | ["setslice"; fl; k; n; bs; be] ->
      string_of_sresult (setslice_node (bool_of_string fl) (kind_of_string k)
                           (z_of_string n) (bound_of_string bs) (bound_of_string be))
  | ["pyslice"; n; bs; be] ->
      string_of_sresult (py_slice (z_of_string n) (bound_of_string bs) (bound_of_string be))
  | ["adjust"; n; a; b] -> triple (py_slice_adjust (z_of_string n) (z_of_string a) (z_of_string b))
  | ["crop"; fc; n; a; b] ->
      triple (crop_slice (bool_of_string fc) (z_of_string n) (z_of_string a) (z_of_string b))
  | ["wa_flag"; d; s; c] ->
      string_of_bool (wa_flag (bool_of_string d) (bool_of_string s) (bool_of_string c))
  | _ -> "!ERR badcmd"

let () = main_loop handle
