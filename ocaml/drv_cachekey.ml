(* driver for m_cachekey:
     hist <key component indices> <output-affecting indices> <req>;<req>;...
   where <req> = <bypass 0/1><compilation fails 0/1>:<value id of input 0>,<value id of input 1>,...
   answer: one of H (hit) M (miss) B (bypass) per request, followed by ! when the returned
   result differs from a fresh compilation of that request; comma separated *)
let parse_req s =
  match String.split_on_char ':' s with
  | [f; vals] when String.length f = 2 -> ((f.[0] = '1', f.[1] = '1'), nlist_of_string vals)
  | _ -> failwith "req"

let show (h, stale) =
  (match h with Hit -> "H" | Miss -> "M" | Bypass -> "B") ^ (if stale then "!" else "")

let handle = function
  | ["hist"; ks; aff; reqs] ->
      let h = List.map parse_req (String.split_on_char ';' reqs) in
      String.concat "," (List.map show (run_concrete (nlist_of_string ks) (nlist_of_string aff) h))
  | ["serialise"; vals] ->
      (* values separated by '/', each a comma separated list *)
      string_of_nlist (serialise (List.map nlist_of_string (String.split_on_char '/' vals)))
  | _ -> "!ERR badcmd"

let () = main_loop handle
