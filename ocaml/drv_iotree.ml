(* driver for m_iotree:  hist <all|end> <op> <op> ...
   ops: N | P<b> | W<b>:<text>:<markers> | I<b>,<t> | C<b> | R<b>
   text / markers: dot separated numbers, "-" = empty.
   output: one block per observation point, blocks joined by "|":
     <wf><wf>;<handle 0>;<handle 1>...   handle = v/m/e/k/sv/sm  (wf = history so far well-formed)
   v getvalue, m allmarkers, e empty, k copyto chunks (comma separated), sv/sm the reference;
   "!" = no result (model: unbounded recursion) *)
let nl_of s = if s = "-" || s = "" then [] else List.map n_of_string (String.split_on_char '.' s)
let s_of_nl l = if l = [] then "-" else String.concat "." (List.map string_of_n l)
let s_of_opt f = function None -> "!" | Some x -> f x
let int_of s = nat_of_int (int_of_string s)

let parse_op (w : string) : op =
  let rest = String.sub w 1 (String.length w - 1) in
  match w.[0] with
  | 'N' -> ONew
  | 'P' -> OPoint (int_of rest)
  | 'C' -> OCommit (int_of rest)
  | 'R' -> OReset (int_of rest)
  | 'I' -> (match String.split_on_char ',' rest with
            | [b; t] -> OInsert (int_of b, int_of t) | _ -> failwith "badop")
  | 'W' -> (match String.split_on_char ':' rest with
            | [b; s; m] -> OWrite (int_of b, nl_of s, nl_of m) | _ -> failwith "badop")
  | _ -> failwith "badop"

let observe (st : state option) (sp : spec) (wf : bool) (wfs : bool) : string =
  let n = int_of_nat sp.sp_n in
  let one b =
    let b = nat_of_int b in
    match st with
    | None -> "!/!/!/!/!/!"
    | Some st ->
      String.concat "/" [
        s_of_opt s_of_nl (getvalue st b);
        s_of_opt s_of_nl (allmarkers st b);
        s_of_opt string_of_bool (is_empty st b);
        s_of_opt (fun cs -> if cs = [] then "-" else String.concat "," (List.map s_of_nl cs)) (copyto st b);
        s_of_opt s_of_nl (svalue sp b);
        s_of_opt s_of_nl (smarkers sp b) ] in
  String.concat ";" ((string_of_bool wf ^ string_of_bool wfs) :: List.init n one)

let handle = function
  | "hist" :: mode :: ops ->
      let ops = List.map parse_op ops in
      let every = (mode = "all") in
      let rec go st sp wf wfs ops acc =
        match ops with
        | [] -> List.rev (if every then acc else [observe st sp wf wfs])
        | o :: r ->
            let wf' = wf && wf_op sp o in
            let wfs' = wf' in
            let st' = (match st with None -> None | Some s -> step s o) in
            let sp' = spec_step sp o in
            go st' sp' wf' wfs' r (if every then observe st' sp' wf' wfs' :: acc else acc) in
      String.concat "|" (go (Some init_state) init_spec true true ops [])
  | _ -> "!ERR badcmd"

let () = main_loop handle
