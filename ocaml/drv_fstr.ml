(* driver for m_fstr (C18, f-string part lists):
     opt|optin <kconv> <kobj> <fxk> <part>...   (optin = nested spec of a value of a 3+-part f-string) -> "<shape> <node>... | len <known> <i*f,..> | kind <lit> <i,..>"
   part:    L<cps> | P<operand>:<conv>:<spec>
   operand: v<id>.<class 0..6 = CInt CDbl CBint Str StrOpt Builtin Obj> | i<cps> | s<cps>
   conv:    n s r a d          spec: - | l<acc>.<cps> | d<id>       cps: comma separated code points, - = empty
   node:    L<cps> | N<v> | U<v> | F<operand>:<conv>:<cfmt or ~>:<spec> | C<j>     shape: E O A J *)
let sub s i = String.sub s i (String.length s - i)
let cls_of = function 0 -> KCInt | 1 -> KCDbl | 2 -> KCBint | 3 -> KStr | 4 -> KStrOpt | 5 -> KBuiltin | _ -> KObj
let int_of_cls = function KCInt -> 0 | KCDbl -> 1 | KCBint -> 2 | KStr -> 3 | KStrOpt -> 4 | KBuiltin -> 5 | KObj -> 6
let operand_of s = match s.[0] with
  | 'v' -> (match String.split_on_char '.' (sub s 1) with
            | [a; b] -> OVar (nat_of_int (int_of_string a), cls_of (int_of_string b)) | _ -> failwith "operand")
  | 'i' -> OInt (nlist_of_string (sub s 1))
  | _ -> OStr (nlist_of_string (sub s 1))
let string_of_operand = function
  | OVar (v, k) -> Printf.sprintf "v%d.%d" (int_of_nat v) (int_of_cls k)
  | OInt t -> "i" ^ string_of_nlist t | OStr t -> "s" ^ string_of_nlist t
let conv_of = function "n" -> CvNone | "s" -> CvS | "r" -> CvR | "a" -> CvA | _ -> CvD
let string_of_conv = function CvNone -> "n" | CvS -> "s" | CvR -> "r" | CvA -> "a" | CvD -> "d"
let spec_of s = match s.[0] with
  | '-' -> SNone
  | 'l' -> SLit (nlist_of_string (sub s 3), s.[1] = '1')
  | _ -> SDyn (nat_of_int (int_of_string (sub s 1)))
let string_of_spec = function
  | SNone -> "-" | SLit (t, a) -> "l" ^ (if a then "1" else "0") ^ "." ^ string_of_nlist t
  | SDyn i -> "d" ^ string_of_int (int_of_nat i)
let part_of s = match s.[0] with
  | 'L' -> PLit (nlist_of_string (sub s 1))
  | _ -> (match String.split_on_char ':' (sub s 1) with
          | [o; c; sp] -> PPh (operand_of o, conv_of c, spec_of sp) | _ -> failwith "part")
let string_of_node = function
  | NLit t -> "L" ^ string_of_nlist t
  | NName v -> "N" ^ string_of_int (int_of_nat v)
  | NUni v -> "U" ^ string_of_int (int_of_nat v)
  | NFmt (o, c, cf, s) -> "F" ^ string_of_operand o ^ ":" ^ string_of_conv c ^ ":" ^
      (match cf with None -> "~" | Some t -> string_of_nlist t) ^ ":" ^ string_of_spec s
  | NClone j -> "C" ^ string_of_int (int_of_nat j)
let handle = function
  | (("opt" | "optin") as cmd) :: kc :: ko :: fxk :: parts ->
      (try
        let fl = { kf_conv = bool_of_string kc; kf_obj = bool_of_string ko } in
        let sh = if cmd = "opt" then optimise fl (List.map part_of parts) else optimise_inner (List.map part_of parts) in
        let l = shape_nodes sh in
        let tag = match sh with ShEmpty -> "E" | ShOne _ -> "O" | ShAdd _ -> "A" | ShJoin _ -> "J" in
        let terms = String.concat "," (List.map (fun (i, f) -> Printf.sprintf "%d*%d" (int_of_nat i) (int_of_nat f)) (len_terms l)) in
        let kt = String.concat "," (List.map (fun i -> string_of_int (int_of_nat i)) (kind_terms (bool_of_string fxk) l)) in
        String.concat " " (tag :: List.map string_of_node l) ^
        Printf.sprintf " | len %d %s | kind %s %s" (int_of_nat (known_len l)) (if terms = "" then "-" else terms)
          (string_of_n (lit_kind l)) (if kt = "" then "-" else kt)
      with _ -> "!ERR parse")
  | _ -> "!ERR badcmd"

let () = main_loop handle
