(* driver for m_consts (property C09).  ASCII strings travel as hex, code point lists as
   comma separated decimals, nodes in prefix form:
     node   := L <ty> <scalar> | Q <ty> <lit 0/1> (N | node) <nargs> node* | S <ty> node node node | O
     ty     := obj int float bool str bytes tuple list slice frozenset c<id>
     scalar := none | ell | i<dec> | b0 | b1 | f<bits> | s<cps> | y<hex> *)
let ostr f = function Some v -> "V " ^ f v | None -> "E"
let hexs s = zbytes_of_hex s
let shex l = hex_of_zbytes l

let ty_of = function
  | "obj" -> TPyObject | "int" -> TPyInt | "float" -> TPyFloat | "bool" -> TPyBool
  | "str" -> TPyStr | "bytes" -> TPyBytes | "tuple" -> TPyTuple | "list" -> TPyList
  | "slice" -> TPySlice | "frozenset" -> TPyFrozenset
  | s when String.length s > 1 && s.[0] = 'c' -> TC (z_of_string (String.sub s 1 (String.length s - 1)))
  | _ -> failwith "ty"

let scalar_of s =
  let rest () = String.sub s 1 (String.length s - 1) in
  if s = "none" then SNone else if s = "ell" then SEllipsis
  else match s.[0] with
  | 'i' -> SInt (z_of_string (rest ()))
  | 'b' -> SBool (rest () = "1")
  | 'f' -> SFloat (z_of_string (rest ()))
  | 's' -> SStr (zlist_of_string (rest ()))
  | 'y' -> SBytes (zbytes_of_hex (rest ()))
  | _ -> failwith "scalar"

let rec parse_node = function
  | "L" :: ty :: sc :: r -> (NLeaf (ty_of ty, scalar_of sc), r)
  | "O" :: r -> (NOpaque, r)
  | "S" :: ty :: r ->
      let (a, r) = parse_node r in let (b, r) = parse_node r in let (c, r) = parse_node r in
      (NSlice (ty_of ty, a, b, c), r)
  | "Q" :: ty :: lit :: r ->
      let (m, r) = (match r with "N" :: r' -> (None, r') | _ -> let (m, r') = parse_node r in (Some m, r')) in
      (match r with
       | n :: r -> let (args, r) = parse_nodes (int_of_string n) r in
                   (NSeq (ty_of ty, bool_of_string lit, m, args), r)
       | [] -> failwith "node")
  | _ -> failwith "node"
and parse_nodes n r =
  if n = 0 then ([], r) else
  let (x, r) = parse_node r in let (xs, r) = parse_nodes (n - 1) r in (x :: xs, r)

let parse_top = function
  | "TS" :: r -> let (n, r) = parse_node r in (TopSeq n, r)
  | "TL" :: r -> let (n, r) = parse_node r in (TopSlice n, r)
  | "TF" :: n :: r -> let (a, r) = parse_nodes (int_of_string n) r in (TopFrozen a, r)
  | _ -> failwith "top"

let lit_of s = if s = "T" then LBool true else if s = "F" then LBool false else LInt (z_of_string s)
let string_of_lit = function LBool true -> "bool True" | LBool false -> "bool False" | LInt z -> "int " ^ string_of_z z
let binop_of = function
  | "+" -> OAdd | "-" -> OSub | "*" -> OMul | "//" -> OFloorDiv | "%" -> OMod | "**" -> OPow
  | "<<" -> OLshift | ">>" -> ORshift | "&" -> OAnd | "|" -> OOr | "^" -> OXor | _ -> failwith "binop"
let unop_of = function "+" -> UPlus | "-" -> UMinus | "~" -> UInvert | "not" -> UNot | _ -> failwith "unop"
let string_of_folded operand = function
  | None -> "N"
  | Some f ->
      let v = (match folded_value operand f with Some l -> string_of_lit l | None -> "E") in
      (match f with
       | FBool b -> "B " ^ string_of_bool b ^ " = " ^ v
       | FInt t -> "I " ^ shex t ^ " = " ^ v
       | FOperand -> "P = " ^ v)

let handle = function
  | ["s2n"; h] -> ostr string_of_z (str_to_number (hexs h))
  | ["s2n_stripped"; h] -> ostr string_of_z (str_to_number (strip_us (hexs h)))
  | ["pyint"; b; h] -> ostr string_of_z (py_int (z_of_string b) (hexs h))
  | ["lit"; h] ->
      let s = hexs h in
      (match signed_literal s with
       | Some v -> "V " ^ string_of_z v ^ " " ^ string_of_bool (signed_within_limit s)
       | None -> if legacy_octal s then "LEGACY" else "N")
  | ["pystr"; n] -> ostr shex (py_str (z_of_string n))
  | ["pyhex"; n] -> shex (py_hex (z_of_string n))
  | ["b32"; n] -> shex (to_base32 (z_of_string n))
  | ["bitlen"; n] -> string_of_z (bit_length (z_of_string n))
  | ["ictext"; a; n] -> ostr shex (int_const_text (bool_of_string a) (z_of_string n))
  | ["neglit"; r; h] -> ostr shex (negated_literal_text (bool_of_string r) (hexs h))
  | ["emit"; cur; h] ->
      (match emit_num (z_of_string cur) (hexs h) with
       | None -> "E"
       | Some e ->
           let d = ostr string_of_z (decode_emitted e) in
           (match e with
            | EmitC (b, v) -> "C " ^ string_of_z b ^ " " ^ string_of_z v ^ " -> " ^ d
            | EmitBase32 t -> "X " ^ shex t ^ " -> " ^ d))
  | ["emission"; a; cur; n] -> ostr string_of_z (int_emission (bool_of_string a) (z_of_string cur) (z_of_string n))
  | ["scalareq"; a; b] -> string_of_bool (scalar_eq (scalar_of a) (scalar_of b))
  | "keyeq" :: fx :: guard :: r ->
      (* the key function of the tree: top_key2 (float sign in the leaf key fx; frozenset = first
         item key per value, guard = multiplied tuples among frozenset items are not pooled) *)
      let (t1, r) = parse_top r in
      let (t2, r) = (match r with "|" :: r' -> parse_top r' | _ -> failwith "sep") in
      if r <> [] then failwith "trailing" else
      let fx = bool_of_string fx and guard = bool_of_string guard in
      let w = string_of_bool (wf_top2 t1 && wf_top2 t2) in
      let m = string_of_bool (top_has_mult t1 || top_has_mult t2) in
      (match top_key2 fx guard t1, top_key2 fx guard t2 with
       | Some k1, Some k2 -> "K " ^ string_of_bool (key_eq k1 k2) ^ " " ^ string_of_bool (key_eq k2 k1) ^ " mult " ^ m ^ " wf " ^ w
       | _, _ -> "NOKEY mult " ^ m ^ " wf " ^ w)
  | "keyeq_old" :: fx :: os :: r ->
      let (t1, r) = parse_top r in
      let (t2, r) = (match r with "|" :: r' -> parse_top r' | _ -> failwith "sep") in
      if r <> [] then failwith "trailing" else
      let fx = bool_of_string fx and os = bool_of_string os in
      let w = string_of_bool (wf_top t1 && wf_top t2) in
      (match top_key fx os t1, top_key fx os t2 with
       | Some k1, Some k2 -> "K " ^ string_of_bool (key_eq k1 k2) ^ " " ^ string_of_bool (key_eq k2 k1) ^ " wf " ^ w
       | _, _ -> "NOKEY wf " ^ w)
  | ["fold2"; op; a; b] -> string_of_folded (LInt Z0) (fold_binop (binop_of op) (lit_of a) (lit_of b))
  | ["fold1"; op; a] -> string_of_folded (lit_of a) (fold_unop (unop_of op) (lit_of a))
  | ["pybin"; op; a; b] -> (match py_binop (binop_of op) (lit_of a) (lit_of b) with Some l -> string_of_lit l | None -> "N")
  | ["pyun"; op; a] -> string_of_lit (py_unop (unop_of op) (lit_of a))
  | _ -> "!ERR badcmd"

let () = main_loop handle
