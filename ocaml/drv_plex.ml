(* driver for m_plex.
   regular expressions: one word, comma-separated prefix form
     r<lo>:<hi>  n  B E F  q<k>,<k children>  a<k>,<k children>  p,<child>  c0,<child> c1,<child>
   commands
     lex <re> ...           build NFA + DFA of the lexicon, keep them; "ok <nfa states> <dfa states> <nfa_ok && nfa_bounded>"
     nfa                    dump of the kept NFA
     dfa                    dump of the kept DFA
     scan <hex text> <n>    up to n read() calls on the kept DFA
     ref <hex text> <n>     the same through the derivative matcher (kept rules)
     events <hex text>      the event word of a text
     match <re> <mb> <nc> <events>   derivative matcher on one RE (events: comma separated c<code>,B,E,F)
     c2r <dedup> <hex>      Regexps.chars_to_ranges (dedup=0: as it is, 1: repaired)
     tm <op> ...            TransitionMap history; op = <c0>:<c1>:<state>  or  <c0>:<c1>:s<bits> *)

let parse_re (s : string) : re =
  let toks = ref (String.split_on_char ',' s) in
  let next () = match !toks with [] -> failwith "re: eof" | t :: r -> toks := r; t in
  let rec go () =
    let t = next () in
    let rest () = String.sub t 1 (String.length t - 1) in
    match t.[0] with
    | 'r' -> (match String.split_on_char ':' (rest ()) with
              | [a; b] -> RRange (z_of_string a, z_of_string b) | _ -> failwith "re: range")
    | 'n' -> RNewline
    | 'B' -> RSpecial SBol | 'E' -> RSpecial SEol | 'F' -> RSpecial SEof
    | 'q' -> let k = int_of_string (rest ()) in RSeq (List.init k (fun _ -> go ()))
    | 'a' -> let k = int_of_string (rest ()) in RAlt (List.init k (fun _ -> go ()))
    | 'p' -> RRep1 (go ())
    | 'c' -> let nc = rest () = "1" in let r = go () in RCase (r, nc)
    | _ -> failwith "re: bad token" in
  let r = go () in
  if !toks <> [] then failwith "re: trailing" else r

let cur_rules : re list ref = ref []
let cur_nfa : nfa ref = ref []
let cur_dfa : dfa option ref = ref None

let str_set (s : sset) = string_of_n s
let str_optn = function None -> "-" | Some j -> string_of_int (int_of_nat j)
let str_optz = function None -> "-" | Some v -> string_of_z v

let str_tm (m : tmap) =
  String.concat "," (List.map string_of_z m.tm_codes) ^ "/" ^ String.concat "," (List.map str_set m.tm_sets)

let str_nstate (st : nstate) =
  Printf.sprintf "%s|%s|%s|%s|%s|%s|%s" (str_tm st.n_tm) (str_set st.n_eps) (str_set st.n_bol)
    (str_set st.n_eol) (str_set st.n_eof) (str_optz st.n_act) (string_of_z st.n_prio)

let str_dstate (d : dstate) =
  let ch = String.concat "," (List.map (fun ((a, b), j) ->
             Printf.sprintf "%s:%s:%d" (string_of_z a) (string_of_z b) (int_of_nat j)) d.d_chars) in
  Printf.sprintf "%s|%s|%s|%s|%s" (if ch = "" then "-" else ch) (str_optn d.d_else) (str_optn d.d_bol)
    (str_optn d.d_eol) (str_optn d.d_eof)

let str_event = function
  | EvChar c -> "c" ^ string_of_z c | EvBol -> "B" | EvEol -> "E" | EvEof -> "F" | EvNone -> "N"

let str_cfg (c : config) =
  Printf.sprintf "%s/%s/%s" (str_event c.c_char) (string_of_z c.c_ist) (string_of_z c.c_pos)

let str_token = function
  | TokOk (a, b, l, c, k, cfg) ->
      Printf.sprintf "%s:%s:%s:%s:%s:%s" (string_of_z a) (string_of_z b) (string_of_z l) (string_of_z c)
        (string_of_z k) (str_cfg cfg)
  | TokEof _ -> "EOF" | TokErr _ -> "ERR" | TokBad -> "!BAD" | TokFuel -> "!FUEL"

let text_of_hex h = List.map z_of_int (ints_of_hex h)

let parse_event s =
  match s.[0] with
  | 'c' -> EvChar (z_of_string (String.sub s 1 (String.length s - 1)))
  | 'B' -> EvBol | 'E' -> EvEol | 'F' -> EvEof | _ -> EvNone

let handle = function
  | "lex" :: rules ->
      let rs = List.map parse_re rules in
      cur_rules := rs; cur_dfa := None; cur_nfa := [];
      (match lexicon_nfa rs with
       | None -> "!FUEL-nfa"
       | Some m ->
           cur_nfa := m;
           (match nfa_to_dfa (nat_of_int 5000) m with
            | None -> "!FUEL-dfa"
            | Some d -> cur_dfa := Some d;
                Printf.sprintf "ok %d %d %s" (List.length m) (List.length d.dfa_sets)
                  (string_of_bool (nfa_ok m && nfa_bounded m))))
  | ["nfa"] -> String.concat ";" (List.map str_nstate !cur_nfa)
  | ["dfa"] ->
      (match !cur_dfa with None -> "!nodfa" | Some d ->
        let rec zip3 a b c = match a, b, c with
          | x :: a', y :: b', z :: c' -> (x, y, z) :: zip3 a' b' c' | _ -> [] in
        String.concat ";" (List.map (fun (s, a, t) ->
          Printf.sprintf "%s|%s|%s" (str_set s) (str_optz a) (str_dstate t))
          (zip3 d.dfa_sets d.dfa_acts d.dfa_trans)))
  | ["scan"; h; n] ->
      (match !cur_dfa with None -> "!nodfa" | Some d ->
        String.concat " " (List.map str_token
          (scan_tokens (nat_of_int (int_of_string n)) d (text_of_hex h) config0)))
  | ["ref"; h; n] ->
      String.concat " " (List.map str_token
        (ref_tokens (nat_of_int (int_of_string n)) !cur_rules (text_of_hex h) config0))
  | ["events"; h] ->
      let t = text_of_hex h in
      String.concat "," (List.map str_event (events_from (scan_fuel t) t config0))
  | ["match"; r; mb; nc; evs] ->
      let w = List.map parse_event (split_on ',' evs) in
      string_of_bool (e_matches (ere_of (parse_re r) (bool_of_string mb) (bool_of_string nc)) w)
  | ["c2r"; dd; h] ->
      string_of_zlist (chars_to_ranges (bool_of_string dd) (text_of_hex h))
  | "tm" :: ops ->
      let step acc op =
        match acc with
        | None -> None
        | Some m ->
            (match String.split_on_char ':' op with
             | [a; b; s] ->
                 if s.[0] = 's' then
                   tm_add_set m (z_of_string a) (z_of_string b) (n_of_string (String.sub s 1 (String.length s - 1)))
                 else tm_add m (z_of_string a) (z_of_string b) (nat_of_int (int_of_string s))
             | _ -> failwith "tm: op") in
      (match List.fold_left step (Some tm_new) ops with
       | None -> "!FUEL"
       | Some m ->
           str_tm m ^ " " ^ String.concat "," (List.map (fun ((a, b), s) ->
             Printf.sprintf "%s:%s:%s" (string_of_z a) (string_of_z b) (str_set s)) (tm_items m)))
  | _ -> "!ERR badcmd"

let () = main_loop handle
