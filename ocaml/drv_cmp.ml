(* driver for m_cmp (property C19).  All structured arguments are single words.
   operand      id:log:res          res = v<val> | x<exn>
   casc  <chk> <e0> <links> <cmptab> <truthtab>      links = op,operand;...   tables see below
   cascref     <e0> <links> <cmptab> <truthtab>
   flat  <struct|run|ref> <lhs_outer> <not> <lhs> <lhs_simple> <t|l|s> <members> <same> <eq> <unhash>
   ifs   <fix> <else|-> clause <body> <cond> ...
   expr  <fix> <cond>
   runif <orig|xf> <fix> <envv> <envo> <envb> <else|-> clause <body> <cond> ...
   runexpr <orig|xf> <fix> <envv> <envo> <envb> <cond>
   cond (prefix): cmp <e|n|o> <casc> <sop> <sop> | instr <neg> <bytes> <sop> <chars> | or c c
                  | and c c | wrap c | other <id>
   sop: V<path.path>:<py>:<ty> | L<key>:<val>:<ty> | K<name>:<key>:<val>:<ty> | O<id>:<ty>
   key: i<z> | c<z> | n<z> | -        ty: i | e | c | o *)

let split c s = if s = "" || s = "-" then [] else String.split_on_char c s
let zs = z_of_string
let sz = string_of_z
let bs = bool_of_string

let parse_res s : (val0, exn) sum =
  let n = String.sub s 1 (String.length s - 1) in
  if s.[0] = 'v' then Inl (zs n) else Inr (zs n)

let parse_operand s : operand =
  match String.split_on_char ':' s with
  | [id; lg; r] -> { o_id = zs id; o_log = bs lg; o_res = parse_res r }
  | _ -> failwith ("operand " ^ s)

let parse_links s = List.map (fun l ->
    match String.split_on_char ',' l with
    | [op; e] -> (zs op, parse_operand e)
    | _ -> failwith "link") (split ';' s)

let zeq a b = (zt_of_z a) = (zt_of_z b) || ZA.equal (zt_of_z a) (zt_of_z b)

let parse_cmptab s =
  let t = List.map (fun e -> match String.split_on_char ',' e with
      | [op; a; b; r] -> ((zs op, zs a, zs b), parse_res r)
      | _ -> failwith "cmptab") (split ';' s) in
  fun op a b ->
    (try snd (List.find (fun ((o, x, y), _) -> zeq o op && zeq x a && zeq y b) t)
     with Not_found -> Inr (zs "999"))

let parse_truthtab s =
  let t = List.map (fun e -> match String.split_on_char ',' e with
      | [v; r] -> (zs v, (if r = "t" then Inl true else if r = "f" then Inl false
                          else Inr (zs (String.sub r 1 (String.length r - 1)))))
      | _ -> failwith "truthtab") (split ';' s) in
  fun v -> (try snd (List.find (fun (x, _) -> zeq x v) t) with Not_found -> Inr (zs "998"))

let str_event = function
  | EvOp i -> "o" ^ sz i
  | EvCmp (o, a, b) -> "c" ^ sz o ^ "/" ^ sz a ^ "/" ^ sz b
  | EvTruth v -> "t" ^ sz v

let str_trace tr = if tr = [] then "-" else String.concat "," (List.map str_event tr)

let str_out f = function OVal v -> f v | ORaise e -> "X" ^ sz e | OUndef -> "U"

(* ---- flatten ---- *)
let parse_members s = List.map (fun m ->
    match String.split_on_char ',' m with
    | [si; st; uh; o] -> { m_simple = bs si; m_starred = bs st; m_unhash = bs uh; m_op = parse_operand o }
    | _ -> failwith "member") (split ';' s)

let parse_pairs s =
  let t = List.map (fun e -> match String.split_on_char ',' e with
      | [a; b] -> (zs a, zs b) | _ -> failwith "pairs") (split ';' s) in
  fun a b -> List.exists (fun (x, y) -> zeq x a && zeq y b) t

let parse_set s =
  let t = List.map zs (split ';' s) in
  fun a -> List.exists (fun x -> zeq x a) t

let parse_kind = function "t" -> KTuple | "l" -> KList | "s" -> KSet | _ -> failwith "kind"

let rec str_texpr env = function
  | TBool b -> if b then "true" else "false"
  | TCmp (neg, a, b) -> (if neg then "ne(" else "eq(") ^ str_atom env a ^ "," ^ str_atom env b ^ ")"
  | TOr (a, b) -> "or(" ^ str_texpr env a ^ "," ^ str_texpr env b ^ ")"
  | TAnd (a, b) -> "and(" ^ str_texpr env a ^ "," ^ str_texpr env b ^ ")"
  | TLet (t, e, body) -> "let(" ^ sz e.o_id ^ "," ^ str_texpr ((int_of_nat t, e.o_id) :: env) body ^ ")"
  | TGeneric _ -> "generic"
and str_atom env = function
  | ARef t -> (try "ref(" ^ sz (List.assoc (int_of_nat t) env) ^ ")" with Not_found -> "ref(?)")
  | AInl o -> "inl(" ^ sz o.o_id ^ ")"

(* ---- switch ---- *)
let parse_ty = function "i" -> TyInt | "e" -> TyEnum | "c" -> TyCOther | "o" -> TyObj | _ -> failwith "ty"
let parse_key s =
  if s = "-" then KNone else
    let n = zs (String.sub s 1 (String.length s - 1)) in
    match s.[0] with 'i' -> KInt n | 'c' -> KChr n | 'n' -> KName n | _ -> failwith "key"

let parse_sop s : sop =
  let body = String.sub s 1 (String.length s - 1) in
  let f = String.split_on_char ':' body in
  match s.[0], f with
  | 'V', [p; py; t] -> SVar (List.map zs (String.split_on_char '.' p), bs py, parse_ty t)
  | 'L', [k; v; t] -> SLit { l_key = parse_key k; l_val = zs v; l_ty = parse_ty t }
  | 'K', [n; k; v; t] -> SConst (zs n, { l_key = parse_key k; l_val = zs v; l_ty = parse_ty t })
  | 'O', [i; t] -> SOther (zs i, parse_ty t)
  | _ -> failwith ("sop " ^ s)

let rec parse_cond (w : string list) : cond * string list =
  match w with
  | "cmp" :: op :: casc :: a :: b :: rest ->
    let op = (match op with "e" -> CopEq | "n" -> CopNe | _ -> CopOther) in
    (CCmpC (op, parse_sop a, parse_sop b, bs casc), rest)
  | "instr" :: neg :: isb :: a :: chars :: rest ->
    (CInStr (bs neg, parse_sop a, bs isb, List.map zs (split ',' chars)), rest)
  | "or" :: rest -> let (a, r1) = parse_cond rest in let (b, r2) = parse_cond r1 in (COr (a, b), r2)
  | "and" :: rest -> let (a, r1) = parse_cond rest in let (b, r2) = parse_cond r1 in (CAnd (a, b), r2)
  | "wrap" :: rest -> let (a, r1) = parse_cond rest in (CWrap a, r1)
  | "other" :: id :: rest -> (COther (zs id), rest)
  | _ -> failwith "cond"

let rec parse_clauses w : clause list =
  match w with
  | [] -> []
  | "clause" :: body :: rest ->
    let (c, r) = parse_cond rest in { c_cond = c; c_body = zs body } :: parse_clauses r
  | _ -> failwith "clauses"

let parse_else s = if s = "-" then None else Some (zs s)

let str_key = function KInt z -> "i" ^ sz z | KChr z -> "c" ^ sz z | KName z -> "n" ^ sz z | KNone -> "-"
let str_label l = str_key l.l_key ^ "=" ^ sz l.l_val
let str_labels ls = String.concat "," (List.map str_label ls)
let str_sop = function
  | SVar (p, _, _) -> "V" ^ String.concat "." (List.map sz p)
  | SLit l -> "L" ^ str_label l
  | SConst (n, _) -> "K" ^ sz n
  | SOther (i, _) -> "O" ^ sz i
let rec str_cond = function
  | CCmpC (op, a, b, _) ->
    (match op with CopEq -> "eq(" | CopNe -> "ne(" | CopOther -> "lt(") ^ str_sop a ^ "," ^ str_sop b ^ ")"
  | CInStr (neg, a, _, _) -> (if neg then "notinstr(" else "instr(") ^ str_sop a ^ ")"
  | COr (a, b) -> "or(" ^ str_cond a ^ "," ^ str_cond b ^ ")"
  | CAnd (a, b) -> "and(" ^ str_cond a ^ "," ^ str_cond b ^ ")"
  | CWrap c -> str_cond c
  | COther i -> "other(" ^ sz i ^ ")"
  | CSw (ni, s, ls) -> "sw(" ^ (if ni then "1" else "0") ^ ";" ^ str_sop s ^ ";" ^ str_labels ls ^ ")"
let str_opt = function None -> "-" | Some z -> sz z
let str_stmt = function
  | SIf (cls, els) ->
    "if(" ^ String.concat ";" (List.map (fun c -> str_cond c.c_cond ^ ":" ^ sz c.c_body) cls) ^ ";else:" ^ str_opt els ^ ")"
  | SSwitch (s, cases, els) ->
    "switch(" ^ str_sop s ^ ";" ^ String.concat ";" (List.map (fun (ls, b) -> str_labels ls ^ ":" ^ sz b) cases)
    ^ ";else:" ^ str_opt els ^ ")"

let parse_envv s =
  let t = List.map (fun e -> match String.split_on_char '=' e with
      | [p; v] -> (List.map zs (String.split_on_char '.' p), zs v) | _ -> failwith "envv") (split ';' s) in
  fun p -> (try snd (List.find (fun (q, _) -> List.length p = List.length q && List.for_all2 zeq p q) t)
            with Not_found -> failwith "envv: unbound")
let parse_envz s =
  let t = List.map (fun e -> match String.split_on_char '=' e with
      | [p; v] -> (zs p, zs v) | _ -> failwith "envz") (split ';' s) in
  fun i -> (try snd (List.find (fun (q, _) -> zeq i q) t) with Not_found -> failwith "envz: unbound")

let te = zs "900"

let handle = function
  | ["casc"; chk; e0; links; ct; tt] ->
    let (tr, o) = run_cascade (parse_cmptab ct) (parse_truthtab tt) (bs chk) (parse_operand e0, parse_links links) in
    str_trace tr ^ " | " ^ str_out (fun v -> "V" ^ sz v) o
  | ["cascref"; e0; links; ct; tt] ->
    let (tr, o) = ref_cascade (parse_cmptab ct) (parse_truthtab tt) (parse_operand e0, parse_links links) in
    str_trace tr ^ " | " ^ str_out (fun v -> "V" ^ sz v) o
  | ["flat"; what; lo; nt; lhs; ls; kind; ms; same; eq; uh] ->
    let e = { i_not = bs nt; i_lhs = parse_operand lhs; i_lhs_simple = bs ls; i_kind = parse_kind kind;
              i_members = parse_members ms } in
    let same = parse_pairs same and eq = parse_pairs eq and unh = parse_set uh in
    let hashable v = not (unh v) in
    let sb b = if b then "B1" else "B0" in
    (match what with
     | "struct" -> str_texpr [] (flatten (bs lo) e)
     | "run" -> let (tr, o) = run_flatten same eq hashable te (bs lo) e in str_trace tr ^ " | " ^ str_out sb o
     | "ref" -> let (tr, o) = ref_in same eq hashable te e in str_trace tr ^ " | " ^ str_out sb o
     | _ -> "!ERR what")
  | "ifs" :: fx :: els :: rest ->
    let s = visit_if (bs fx) (parse_clauses rest) (parse_else els) in
    str_stmt s ^ " | " ^ string_of_bool (stmt_valid s)
  | "expr" :: fx :: rest ->
    let (c, _) = parse_cond rest in
    let c' = xform (bs fx) c in
    str_cond c' ^ " | " ^ string_of_bool (cond_valid c')
  | "runif" :: which :: fx :: ev :: eo :: eb :: els :: rest ->
    let cls = parse_clauses rest and els = parse_else els in
    let envv = parse_envv ev and envo = parse_envz eo in
    let envb0 = parse_envz eb in
    let envb i = (zt_of_z (envb0 i)) <> ZA.zero in
    let s = if which = "orig" then SIf (cls, els) else visit_if (bs fx) cls els in
    let (tr, b) = exec_stmt envv envo envb s in
    str_trace tr ^ " | " ^ str_opt b
  | "runexpr" :: which :: fx :: ev :: eo :: eb :: rest ->
    let (c, _) = parse_cond rest in
    let envv = parse_envv ev and envo = parse_envz eo in
    let envb0 = parse_envz eb in
    let envb i = (zt_of_z (envb0 i)) <> ZA.zero in
    let c' = if which = "orig" then c else xform (bs fx) c in
    let (tr, b) = eval_cond envv envo envb c' in
    str_trace tr ^ " | " ^ string_of_bool b
  | _ -> "!ERR badcmd"

let () = main_loop handle
