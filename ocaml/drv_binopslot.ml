(* driver for m_binopslot.
   run  <world a|b> <fx> <isadd> <inplace> <15 chars: B,T,CS,PS,U x op,rop,iop in u|n|v> <upy> <L> <R>
   exc  <fx> <isadd> <inplace> <states> <upy> <L> <R>      -> finding class predicted by the model
   capi <states> <L> <R> *)
let ms = function 'u' -> Undef | 'n' -> RetNI | 'v' -> RetVal | _ -> failwith "mstate"
let cls_of = function "B" -> CB | "T" -> CT | "CS" -> CCS | "PS" -> CPS | "U" -> CU | _ -> failwith "cls"
let cls_s = function CB -> "B" | CT -> "T" | CCS -> "CS" | CPS -> "PS" | CU -> "U"
let kind_s = function KOp -> "op" | KRop -> "rop" | KIop -> "iop"
let cfgs s upy =
  let g i = ms s.[i] in
  let c i = (g (3*i), g (3*i+1)) in
  ((((((c 0, c 1), c 2), c 3), c 4), bool_of_string upy),
   ((((g 2, g 5), g 8), g 11), g 14))
let ev_s ((c, k), l) = cls_s c ^ "." ^ kind_s k ^ ":" ^ (if l then "l" else "r")
let out_s (log, r) =
  String.concat "," (List.map ev_s log) ^ "|" ^
  (match r with FTypeError -> "TypeError" | FVal (c, k) -> "V:" ^ cls_s c ^ "." ^ kind_s k
              | FNotImplementedObject -> "NotImplementedObject" | FFuel -> "!FUEL")
let handle = function
  | ["run"; w; fx; isadd; inp; s; upy; l; r] ->
      let (bc, ic) = cfgs s upy in
      out_s (run (if w = "a" then WPy else WCy) (bool_of_string fx) (bool_of_string isadd) (bool_of_string inp)
               bc ic (cls_of l) (cls_of r))
  | ["exc"; fx; isadd; inp; s; upy; l; r] ->
      let (bc, ic) = cfgs s upy in
      let l = cls_of l and r = cls_of r in
      if exc_same_type (bool_of_string fx) bc l r then "same_type_reflected"
      else if exc_multi_slot bc l r then "related_types_two_slot_functions"
      else if bool_of_string inp && sq_concat_applies WCy (bool_of_string isadd) bc ic l then "inplace_add_pysubclass_sq_inplace_concat"
      else "none"
  | ["capi"; s; l; r] ->
      let (bc, _) = cfgs s "0" in out_s (run_capi bc (cls_of l) (cls_of r))
  | ["rc"; w; tord; xkind; ts; xs; ub; l; r; op] ->
      (* rc <a|b> <total_ordering> <py|cy> <T: 6 chars lt le eq ne gt ge in u|n|t|f> <X: 6 chars> <U: 2 chars> <L> <R> <op 0..5> *)
      let cs = function 'u' -> CU0 | 'n' -> CN | 't' -> CTr | 'f' -> CFa | _ -> failwith "cstate" in
      let idx = function LT -> 0 | LE -> 1 | EQ -> 2 | NE -> 3 | GT -> 4 | GE -> 5 in
      let stf s = fun m -> cs s.[idx m] in
      let rc = function "T" -> RT | "X" -> RX | "U" -> RU | _ -> failwith "rcls" in
      let opv = match op with "0" -> LT | "1" -> LE | "2" -> EQ | "3" -> NE | "4" -> GT | _ -> GE in
      let (log, res) = rc_run (if w = "a" then WPy else WCy) (stf ts) (stf xs) (bool_of_string tord) (xkind = "py")
                         (cs ub.[0]) (cs ub.[1]) false (rc l) (rc r) opv in
      let names = [|"lt"; "le"; "eq"; "ne"; "gt"; "ge"|] in
      let rs = function RT -> "T" | RX -> "X" | RU -> "U" in
      String.concat "," (List.map (fun ((c, m), l) -> rs c ^ "." ^ names.(idx m) ^ ":" ^ (if l then "l" else "r")) log) ^ "|" ^
      (match res with RNI -> "!NI" | RB true -> "True" | RB false -> "False" | RTypeErr -> "TypeError" | RFuel -> "!FUEL")
  | _ -> "!ERR badcmd"

let () = main_loop handle
