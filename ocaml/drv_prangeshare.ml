(* driver for m_prangeshare (property C37, sharing classification of prange / parallel blocks)
   ompops                                   -> the operator string of generate_loop, e.g. +*-&^|
   classify <fx> <nvars> <region>           -> E=<error codes> C=<clause per variable> W=<definitely assigned, or X>
   run <w> <s> <e0> <idxs> <chunks> <region> -> P=<values per variable, parallel> S=<... sequential>
        e0, idxs: comma lists; chunks: comma lists joined by '|' ('-' = empty chunk); the number of
        variables is the length of e0; lastv = last idx
   fx: three characters 0/1 = proposed repairs fx_ops fx_nest fx_rhs (000 = the code as it is)
   region tokens (prefix form):  R <pre|N> <tgt> <stmt>
     stmt: K | Q s s | A x e | I x op e | F e s s | L <0|1> x e s
     expr: c <z> | v <x> | b <op> e e *)
let iop_of = function
  | "add" -> OAdd | "mul" -> OMul | "sub" -> OSub | "and" -> OAnd | "xor" -> OXor | "or" -> OOr
  | "shl" -> OShl | "shr" -> OShr | "fdiv" -> OFdiv | s -> failwith ("iop " ^ s)
let iop_chr = function
  | OAdd -> "+" | OMul -> "*" | OSub -> "-" | OAnd -> "&" | OXor -> "^" | OOr -> "|"
  | OShl -> "<<" | OShr -> ">>" | OFdiv -> "//"
let bop_of = function
  | "add" -> BAdd | "sub" -> BSub | "mul" -> BMul | "and" -> BAnd | "or" -> BOr | "xor" -> BXor
  | "lt" -> BLt | "eq" -> BEq | s -> failwith ("bop " ^ s)
let var_of s = nat_of_int (int_of_string s)

let rec p_expr = function
  | "c" :: z :: r -> (EC (z_of_string z), r)
  | "v" :: x :: r -> (EV (var_of x), r)
  | "b" :: op :: r -> let (a, r1) = p_expr r in let (b, r2) = p_expr r1 in (EB (bop_of op, a, b), r2)
  | _ -> failwith "expr"
let rec p_stmt = function
  | "K" :: r -> (SSkip, r)
  | "Q" :: r -> let (a, r1) = p_stmt r in let (b, r2) = p_stmt r1 in (SSeq (a, b), r2)
  | "A" :: x :: r -> let (e, r1) = p_expr r in (SAssign (var_of x, e), r1)
  | "I" :: x :: op :: r -> let (e, r1) = p_expr r in (SInplace (var_of x, iop_of op, e), r1)
  | "F" :: r -> let (c, r1) = p_expr r in let (t, r2) = p_stmt r1 in let (f, r3) = p_stmt r2 in (SIf (c, t, f), r3)
  | "L" :: p :: x :: r -> let (n, r1) = p_expr r in let (b, r2) = p_stmt r1 in
      (SLoop (p = "1", var_of x, n, b), r2)
  | _ -> failwith "stmt"
let p_region = function
  | "R" :: "N" :: t :: r -> let (b, r1) = p_stmt r in
      if r1 <> [] then failwith "trailing" else { r_pre = None; r_tgt = var_of t; r_body = b }
  | "R" :: r -> let (p, r1) = p_stmt r in
      (match r1 with
       | t :: r2 -> let (b, r3) = p_stmt r2 in
           if r3 <> [] then failwith "trailing" else { r_pre = Some p; r_tgt = var_of t; r_body = b }
       | [] -> failwith "region")
  | _ -> failwith "region"

let err_chr = function EInconsistent -> "I" | EReadReduction -> "R" | EOuterPrivate -> "O" | EBlockReduction -> "B" | EUnsupportedOp -> "U"
let fx_of s = { fx_ops = (s.[0] = '1'); fx_nest = (s.[1] = '1'); fx_rhs = (s.[2] = '1') }
let clause_str = function
  | CRed o -> "r" ^ iop_chr o | CFirstLast -> "fl" | CBlockPriv -> "bp" | CShared -> "sh"
let rec upto n = if n <= 0 then [] else upto (n - 1) @ [n - 1]

let env_of (l : z list) : nat -> z =
  let a = Array.of_list l in
  fun x -> let i = int_of_nat x in if i < Array.length a then a.(i) else Z0

let handle = function
  | ["ompops"] -> String.concat "" (List.map iop_chr omp_ops)
  | "classify" :: fx :: nv :: rt ->
      let r = p_region rt in
      let fx = fx_of fx in
      let n = int_of_string nv in
      let errs = List.sort_uniq compare (List.map err_chr (region_errors fx r)) in
      let cl = List.map (fun i -> clause_str (classify r (nat_of_int i))) (upto n) in
      let wf = match region_wf fx r with
        | None -> "X"
        | Some d -> let l = List.sort_uniq compare (List.map int_of_nat d) in
            if l = [] then "-" else String.concat "," (List.map string_of_int l) in
      "E=" ^ (if errs = [] then "-" else String.concat "" errs) ^ " C=" ^ String.concat "," cl ^ " W=" ^ wf
  | "run" :: w :: s :: e0 :: idxs :: chunks :: rt ->
      let r = p_region rt in
      let w = z_of_string w and s = bool_of_string s in
      let e0l = zlist_of_string e0 in
      let idx = zlist_of_string idxs in
      let ch = List.map zlist_of_string (String.split_on_char '|' chunks) in
      let lastv = (match List.rev idx with v :: _ -> v | [] -> Z0) in
      let n = List.length e0l in
      let ep = region_par w s r ch lastv (env_of e0l) in
      let es = region_seq w s r idx (env_of e0l) in
      let show e = String.concat "," (List.map (fun i -> string_of_z (e (nat_of_int i))) (upto n)) in
      "P=" ^ show ep ^ " S=" ^ show es
  | _ -> "!ERR badcmd"
let () = main_loop handle
