(* driver for m_infer.
   types: index 0..9 (obj pyint pyfloat pybool pystr pylist long int double bint), -1 = none
   expr tokens (prefix): I <z> | F | B <0|1> | S | N | V <entry> <ann|-1> <k> <a1..ak> | O <op> e e
     | U <op> e | C e e | Q e e e | L e e | K e | T <ty> e | G <entry|-1> e | D e | H e | Z e e | E
   summary := <ne> <decl>*ne <na> (<lhs> expr)*na expr(body)
   infer  <mode S|A|O> <fx 3 bits> summary            -> OK|UNSTABLE types | mo bits   or NOFIX
   stable <mode> <fx> summary <nd> <ty>*nd            -> 0|1
   span   <mode> <fx> <mo> <ty>*                      -> ty
   fspan <t1> <t2> ; span2 <t1> <t2>                 -> ty
   bad                                                 -> the table entries violating the node conditions *)
let ty_of s = ty_of_idx (nat_of_int (int_of_string s))
let sty t = string_of_int (int_of_nat (ty_idx t))
let binop_of = function
  | "0" -> Add | "1" -> Sub | "2" -> Mul | "3" -> FloorDiv | "4" -> Mod | "5" -> TrueDiv | "6" -> LShift
  | "7" -> RShift | "8" -> BAnd | "9" -> BOr | "10" -> BXor | _ -> failwith "binop"
let unop_of = function "0" -> Neg | "1" -> Inv | "2" -> Not | "3" -> Pos | _ -> failwith "unop"
let rec take n toks acc = if n = 0 then (List.rev acc, toks) else
  match toks with x :: r -> take (n - 1) r (x :: acc) | [] -> failwith "take"
let rec p_expr toks =
  match toks with
  | "I" :: z :: r -> (EInt (z_of_string z), r)
  | "F" :: r -> (EFloat, r)
  | "B" :: b :: r -> (EBool (b = "1"), r)
  | "S" :: r -> (EStr, r)
  | "N" :: r -> (ENone, r)
  | "E" :: r -> (ESkip, r)
  | "V" :: x :: ann :: k :: r ->
      let (ids, r2) = take (int_of_string k) r [] in
      (EName (nat_of_int (int_of_string x), (if ann = "-1" then None else Some (ty_of ann)),
              List.map (fun s -> nat_of_int (int_of_string s)) ids), r2)
  | "O" :: o :: r -> let (a, r1) = p_expr r in let (b, r2) = p_expr r1 in (EBin (binop_of o, a, b), r2)
  | "U" :: o :: r -> let (a, r1) = p_expr r in (EUn (unop_of o, a), r1)
  | "C" :: r -> let (a, r1) = p_expr r in let (b, r2) = p_expr r1 in (ECmp (a, b), r2)
  | "L" :: r -> let (a, r1) = p_expr r in let (b, r2) = p_expr r1 in (EBoolOp (a, b), r2)
  | "Z" :: r -> let (a, r1) = p_expr r in let (b, r2) = p_expr r1 in (ESeq (a, b), r2)
  | "Q" :: r -> let (c, r0) = p_expr r in let (a, r1) = p_expr r0 in let (b, r2) = p_expr r1 in (ECond (c, a, b), r2)
  | "K" :: r -> let (a, r1) = p_expr r in (ECall a, r1)
  | "D" :: r -> let (a, r1) = p_expr r in (EDanger a, r1)
  | "H" :: r -> let (a, r1) = p_expr r in (EInner a, r1)
  | "T" :: t :: r -> let (a, r1) = p_expr r in (EOpaque (ty_of t, a), r1)
  | "G" :: x :: r -> let (a, r1) = p_expr r in
      (EAsg ((if x = "-1" then None else Some (nat_of_int (int_of_string x))), a), r1)
  | _ -> failwith "expr"
let p_summary toks =
  match toks with
  | ne :: r ->
      let (ds, r1) = take (int_of_string ne) r [] in
      let decl = List.map (fun s -> if s = "-1" then None else Some (ty_of s)) ds in
      (match r1 with
       | na :: r2 ->
           let rec go n toks acc = if n = 0 then (List.rev acc, toks) else
             (match toks with
              | lhs :: r3 -> let (e, r4) = p_expr r3 in
                  go (n - 1) r4 ({ a_lhs = nat_of_int (int_of_string lhs); a_rhs = e } :: acc)
              | [] -> failwith "assign") in
           let (asg, r5) = go (int_of_string na) r2 [] in
           let (body, r6) = p_expr r5 in
           ({ s_decl = decl; s_assigns = asg; s_body = body }, r6)
       | [] -> failwith "summary")
  | [] -> failwith "summary"
let mode_of = function "S" -> MSafe | "A" -> MAggr | "O" -> MOff | _ -> failwith "mode"
let fx_of s = { fx_float = s.[0] = '1'; fx_bint = s.[1] = '1'; fx_closure = s.[2] = '1' }
let tys l = if l = [] then "-" else String.concat "," (List.map sty l)
let mos fx s n = String.concat "" (List.init n (fun i -> if mo_of fx s (nat_of_int i) then "1" else "0"))
let pr3 l = String.concat ";" (List.map (fun ((a, b), c) -> Printf.sprintf "%d.%d.%d" (int_of_nat a) (int_of_nat b) (int_of_nat c)) l)
let pr2 l = String.concat ";" (List.map (fun (a, b) -> Printf.sprintf "%d.%d" (int_of_nat a) (int_of_nat b)) l)
let handle = function
  | "infer" :: m :: fx :: rest ->
      let (s, _) = p_summary rest in
      let fx = fx_of fx in
      let d0 = List.map (fun d -> match d with Some t -> t | None -> TObj) s.s_decl in
      let n = List.length d0 in
      (match infer fx (mode_of m) gen_tables s d0 with
       | Inferred d -> "OK " ^ tys d ^ " | " ^ mos fx s n
       | Unstable d -> "UNSTABLE " ^ tys d ^ " | " ^ mos fx s n
       | NoFixpoint -> "NOFIX")
  | "stable" :: m :: fx :: rest ->
      let (s, r) = p_summary rest in
      (match r with
       | nd :: r2 -> let (ds, _) = take (int_of_string nd) r2 [] in
           string_of_bool (stable (fx_of fx) gen_tables s (List.map ty_of ds) (mode_of m))
       | [] -> failwith "stable")
  | "span" :: m :: fx :: mo :: ts -> sty (span_mode (fx_of fx) (mode_of m) (List.map ty_of ts) (mo = "1"))
  | ["fspan"; a; b] -> sty (find_span (ty_of a) (ty_of b))
  | ["span2"; a; b] -> sty (span2 (ty_of a) (ty_of b))
  | ["bad"] -> "bin " ^ pr3 (bad_bin gen_tables) ^ " un " ^ pr2 (bad_un gen_tables) ^ " cond " ^ pr2 (bad_cond gen_tables)
               ^ " bool " ^ pr2 (bad_bool gen_tables)
  | _ -> "!ERR badcmd"

let () = main_loop handle
