(* driver for m_codedescr (property C25, code-object descriptions / inspect.signature)
   mod <skip 0|1|2> <n> <func>*n
     skip: 0 = generator expressions only (the code as it is), 1 = every generator, 2 = nothing
     func := <kind P|G|C|A|E> <po> <pk> <star> <ko> <ss> <locals> <synth> <line>
       po, pk, ko: comma separated  name:default  (default "-" = none), "-" = empty
       star, ss:   name or "-";  locals: comma separated names or "-"
   ->  W <6 widths> | <func result> | ...
     func result := <wf 0|1> <emitted 6> <stored 6> <unpacked 6> <survives 0|1> <co_varnames>
                    <compiled sig> <source sig> <defaults> <kwdefaults name:d,..>
     sig := ERR | "-" (empty) | name:kind:default;...   kind O P V K W
   bitlen <z> -> <z> *)
let kind_of = function
  | "P" -> KPlain | "G" -> KGen | "C" -> KCoro | "A" -> KAsyncGen | "E" -> KGenExpr
  | _ -> failwith "kind"

let param_of s =
  match String.split_on_char ':' s with
  | [n; "-"] -> (n_of_string n, None)
  | [n; d] -> (n_of_string n, Some (n_of_string d))
  | _ -> failwith "param"
let params_of s = List.map param_of (split_on ',' s)
let optname s = if s = "-" then None else Some (n_of_string s)

let rec parse_funcs k ws =
  if k = 0 then ([], ws) else
  match ws with
  | kd :: po :: pk :: st :: ko :: ss :: loc :: synth :: line :: r ->
      let f = { s_kind = kind_of kd; s_po = params_of po; s_pk = params_of pk; s_star = optname st;
                s_ko = params_of ko; s_ss = optname ss; s_locals = nlist_of_string loc;
                s_synth = z_of_string synth; s_line = z_of_string line } in
      let (fs, r) = parse_funcs (k - 1) r in (f :: fs, r)
  | _ -> failwith "func"

let csv l = if l = [] then "-" else String.concat "," l
let zcsv l = csv (List.map string_of_z l)
let kch = function POnly -> "O" | PosOrKw -> "P" | VarPos -> "V" | KwOnly -> "K" | VarKw -> "W"
let dstr = function None -> "-" | Some d -> string_of_n d
let sig_str ps =
  if ps = [] then "-" else
  String.concat ";" (List.map (fun ((n, k), d) -> string_of_n n ^ ":" ^ kch k ^ ":" ^ dstr d) ps)
let sigres_str = function SigError -> "ERR" | SigOk ps -> sig_str ps

let skip_of = function
  | "0" -> skip_genexpr | "1" -> skip_generators | "2" -> skip_none | _ -> failwith "skip"

let handle = function
  | "mod" :: sk :: n :: ws ->
      let skip = skip_of sk in
      let (fs, rest) = parse_funcs (int_of_string n) ws in
      if rest <> [] then "!ERR trailing" else begin
        let w = widths skip fs in
        let one f =
          let e = emitted f in
          let st = store w e in
          let up = unpack (fields w) (pack (fields w) (fields e)) in
          let c = code_of skip fs f in
          String.concat " " [
            string_of_bool (wf_src f); zcsv (fields e); zcsv (fields st); zcsv up;
            string_of_bool (survives skip fs f);
            csv (List.map string_of_n c.co_varnames);
            sigres_str (compiled_sig skip fs f); sig_str (source_sig f);
            csv (List.map string_of_n (defaults_of f));
            csv (List.map (fun (a, b) -> string_of_n a ^ ":" ^ string_of_n b) (kwdefaults_of f)) ] in
        String.concat " | " (("W " ^ zcsv (fields w)) :: List.map one fs)
      end
  | ["bitlen"; v] -> string_of_z (bitlen (z_of_string v))
  | _ -> "!ERR badcmd"

let () = main_loop handle
