(* driver for m_strlit.  Code point / byte lists are comma separated decimals ("-" = empty);
   lists of lists are "/" separated ("_" = no item).
   dec <fx> <kind s|u|b|c> <raw 0|1> <body>   -> OK <bytes|N> <unicode|N> | ERR | INTERNAL | UNMODELLED | FUEL
   spec <kind> <raw> <body>                   -> V <value> | REJECT | NOTBODY | NAMED
   lex <text after backslash>                 -> <token> <rest>
   bigoct <body>                              -> 0|1
   u8enc <cps> -> <bytes> | NONE ;  u8dec <bytes> -> S <cps> | NONE
   uesc <cps> -> <bytes> ;  uescrt <cps> -> 1 if unicode_escape_decode (uesc_encode cps) = cps
   surr <cps> -> 0|1
   table <fxw> <texts> <bstrs> -> T <w_str|-1> <stored> <w_bytes|-1> <stored> <md5 data> <ok> | ENCERR | CERR
        (ok = 1 if unpack_table of the data gives back texts and bstrs)
   width <fxw> <idx> -> <w>
   choose <m> <py314> <algos of compressions in order, comma list>  -> <algo> | NONE
   select <sizes a:size|a:x for 1,2,3> <data> -> <algos of compressions> <their sizes> <default macro value>
        (lzss by the model compressor; zlib/bz2/zstd replaced by strings of the given sizes)
   module <fxo> <fxw> <msvc> <py314> <macro|N> <lits k:raw:body / ...> -> M <objs s:cps|b:bytes / ...> | NONE
   pyobjs <lits> -> same format from py_object (X for none)
   bigtab <fxw> <texts> <bstrs> -> B <md5 data> <len data> <md5 lzss> <len lzss> <rt> <bad> <nlit> <refs>
        the table-level theorem instance on a (large) table: data = t_data (gen_table ...), lzss = model
        compressor on it, rt = 1 if lzss_unpack gives back (texts, bstrs), bad = number of references r of
        the token stream with ref_fields (bytes r) <> (form_of r, eo r, len r), nlit = literal tokens,
        refs = n:eo:len,... (n = encoded size 2|3) of every back reference | ENCERR | CERR | IndexError
   forms <eo:len,...> -> 7|9|14|N per pair (form_of) *)
let nl = nlist_of_string
let snl = string_of_nlist
let lol s = if s = "_" then [] else List.map nl (String.split_on_char '/' s)
let kind_of = function "s" -> KStr | "u" -> KUni | "b" -> KBytes | "c" -> KChar | _ -> failwith "kind"
let sopt = function Some l -> snl l | None -> "N"
let lit_of s = match String.split_on_char ':' s with
  | [k; r; b] -> { l_kind = kind_of k; l_raw = bool_of_string r; l_body = nl b }
  | _ -> failwith "lit"
let lits_of s = if s = "_" then [] else List.map lit_of (String.split_on_char '/' s)
let sobj = function PStr l -> "s:" ^ snl l | PBytes l -> "b:" ^ snl l
let sidx = function
  | INone -> "-1 -" | IDecl (w, st) -> string_of_n w ^ " " ^ snl st | ICompileError -> "CE -"
let md5 l =
  let b = Buffer.create 1024 in
  List.iter (fun c -> Buffer.add_char b (Char.chr (int_of_n c))) l;
  Digest.to_hex (Digest.string (Buffer.contents b))

(* a codec driven by sizes only, for the selection loop: "compressed" data is a list of zeros *)
let size_codec sizes =
  { ext_compress = (fun a _ -> match List.assoc_opt (int_of_n a) sizes with
        | Some (Some k) -> Some (List.init k (fun _ -> N0)) | _ -> None);
    ext_decompress = (fun _ _ -> None) }

let handle = function
  | ["dec"; fx; k; raw; body] ->
      (match decode (bool_of_string fx) (kind_of k) (bool_of_string raw) (nl body) with
       | DOk0 (b, u) -> "OK " ^ sopt b ^ " " ^ sopt u
       | DError -> "ERR" | DInternal -> "INTERNAL" | DUnmodelled -> "UNMODELLED" | DOutOfFuel -> "FUEL")
  | ["spec"; k; raw; body] ->
      (match py_value (kind_of k) (bool_of_string raw) (nl body) with
       | PyValue v -> "V " ^ snl v | PyReject -> "REJECT" | PyNotBody -> "NOTBODY" | PyNamed -> "NAMED")
  | ["lex"; t] -> let (a, b) = lex_escape (nl t) in snl a ^ " " ^ snl b
  | ["bigoct"; b] -> string_of_bool (big_octal (nl b))
  | ["u8enc"; c] -> (match encode_utf8 (nl c) with Some b -> snl b | None -> "NONE")
  | ["u8dec"; b] -> (match decode_utf8 (nl b) with Some c -> "S " ^ snl c | None -> "NONE")
  | ["uesc"; c] -> snl (uesc_encode (nl c))
  | ["uescrt"; c] -> let cs = nl c in string_of_bool (unicode_escape_decode (uesc_encode cs) = Some cs)
  | ["surr"; c] -> string_of_bool (contains_surrogates (nl c))
  | ["width"; fx; idx] -> string_of_n (index_width (bool_of_string fx) (nl idx))
  | ["table"; fx; t; b] ->
      let texts = lol t and bstrs = lol b in
      (match gen_table (bool_of_string fx) texts bstrs with
       | GOk tb ->
           let ok = (unpack_table tb tb.t_data = Some (texts, bstrs)) in
           "T " ^ sidx tb.t_str ^ " " ^ sidx tb.t_bytes ^ " " ^ md5 tb.t_data ^ " " ^ string_of_bool ok
       | GEncodeError -> "ENCERR" | GCompileError -> "CERR")
  | ["choose"; m; p; algos] ->
      let comps = List.map (fun a -> (a, [])) (nl algos) in
      (match choose comps (z_of_string m) (bool_of_string p) with
       | Some (a, _) -> string_of_n a | None -> "NONE")
  | ["select"; sizes; data] ->
      let parse s = match String.split_on_char ':' s with
        | [a; "x"] -> (int_of_string a, None) | [a; k] -> (int_of_string a, Some (int_of_string k))
        | _ -> failwith "sizes" in
      let cd = size_codec (List.map parse (String.split_on_char ',' sizes)) in
      let comps = compressions cd (nl data) in
      snl (List.map fst comps) ^ " " ^ snl (List.map (fun (_, c) -> n_of_int (List.length c)) comps)
        ^ " " ^ string_of_z (default_compression comps)
  | ["module"; fxo; fxw; msvc; p; m; lits] ->
      let um = if m = "N" then None else Some (z_of_string m) in
      (match run_module (bool_of_string fxo) (bool_of_string fxw) id_codec (bool_of_string msvc)
               (bool_of_string p) um (lits_of lits) with
       | Some objs -> "M " ^ (if objs = [] then "_" else String.concat "/" (List.map sobj objs))
       | None -> "NONE")
  | ["pyobjs"; lits] ->
      let ls = lits_of lits in
      if ls = [] then "_" else
      String.concat "/" (List.map (fun l -> match py_object l with Some o -> sobj o | None -> "X") ls)
  | ["bigtab"; fx; t; b] ->
      let texts = lol t and bstrs = lol b in
      (match gen_table (bool_of_string fx) texts bstrs with
       | GEncodeError -> "ENCERR" | GCompileError -> "CERR"
       | GOk tb ->
           (* compress data = Some (pack toks) for non-empty data, by definition of M_LZSS.compress *)
           (match (if tb.t_data = [] then None else Some ()), tokenize (List.map (fun v -> z_of_zt (zt_of_n v)) tb.t_data) with
            | Some (), Some toks ->
                let c = List.map (fun v -> n_of_zt (zt_of_z v)) (pack toks) in
                let rt = (lzss_unpack tb c = Some (texts, bstrs)) in
                let nlit = List.length (List.filter (function TLit _ -> true | _ -> false) toks) in
                let bad = List.length (List.filter (function
                    | TLit _ -> false
                    | TRef (eo, len, bs) ->
                        (match ref_fields bs, form_of eo len with
                         | Some (((f, eo'), len'), []), Some f' -> not (f = f' && eo' = eo && len' = len)
                         | _, _ -> true)) toks) in
                let refs = List.map (fun ((n, eo), len) ->
                    string_of_z n ^ ":" ^ string_of_z eo ^ ":" ^ string_of_z len) (refs_of toks) in
                Printf.sprintf "B %s %d %s %d %s %d %d %s" (md5 tb.t_data) (List.length tb.t_data)
                  (md5 c) (List.length c) (string_of_bool rt) bad nlit
                  (if refs = [] then "-" else String.concat "," refs)
            | _, _ -> "IndexError"))
  | ["forms"; ps] ->
      String.concat "," (List.map (fun p -> match String.split_on_char ':' p with
        | [eo; len] -> (match form_of (z_of_string eo) (z_of_string len) with
            | Some F7 -> "7" | Some F9 -> "9" | Some F14 -> "14" | None -> "N")
        | _ -> failwith "forms") (split_on ',' ps))
  | _ -> "!ERR badcmd"

let () = main_loop handle
