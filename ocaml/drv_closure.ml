(* driver for m_closure:  cells <fuel> <prog>  |  scopes <delglob_fixed> <fuel> <prog>
   <prog> = <k> stmt*k expr   in prefix token notation (see props/C01.py: enc_expr / enc_stmt) *)
exception Parse of string

let toks = ref ([] : string list)
let next () = match !toks with [] -> raise (Parse "eof") | t :: r -> toks := r; t
let rec rep k f = if k <= 0 then [] else let x = f () in x :: rep (k - 1) f
let p_int () = int_of_string (next ())
let p_id () = nat_of_int (p_int ())
let p_binop () = match next () with
  | "add" -> Add | "sub" -> Sub | "mul" -> Mul | "fdiv" -> FloorDiv | "mod" -> Mod
  | t -> raise (Parse ("binop " ^ t))
let p_cmpop () = match next () with
  | "lt" -> CLt | "le" -> CLe | "eq" -> CEq | "ne" -> CNe | "gt" -> CGt | "ge" -> CGe
  | t -> raise (Parse ("cmpop " ^ t))
let rec p_expr () = match next () with
  | "i" -> EInt (z_of_string (next ()))
  | "T" -> EBool true | "F" -> EBool false | "N" -> ENone
  | "n" -> EName (p_id ())
  | "neg" -> ENeg (p_expr ()) | "not" -> ENot (p_expr ())
  | "b" -> let op = p_binop () in let a = p_expr () in let b = p_expr () in EBin (op, a, b)
  | "c" -> let op = p_cmpop () in let a = p_expr () in let b = p_expr () in ECmp (op, a, b)
  | "if" -> let c = p_expr () in let t = p_expr () in let f = p_expr () in ECond (c, t, f)
  | "log" -> ELog (p_expr ())
  | "lam" -> let k = p_int () in let ps = rep k p_id in ELambda (ps, p_expr ())
  | "call" -> let f = p_expr () in let k = p_int () in ECall (f, rep k p_expr)
  | t -> raise (Parse ("expr " ^ t))
let rec p_stmt () = match next () with
  | "ex" -> SExpr (p_expr ())
  | "as" -> let x = p_id () in SAssign (x, p_expr ())
  | "aug" -> let x = p_id () in let op = p_binop () in SAug (x, op, p_expr ())
  | "sif" -> let c = p_expr () in let k = p_int () in let t = rep k p_stmt in
             let k2 = p_int () in let f = rep k2 p_stmt in SIf (c, t, f)
  | "wh" -> let c = p_expr () in let k = p_int () in SWhile (c, rep k p_stmt)
  | "ret" -> SReturn (p_expr ())
  | "def" -> let f = p_id () in let k = p_int () in let ps = rep k p_id in
             let k2 = p_int () in SDef (f, ps, rep k2 p_stmt)
  | "glob" -> SGlobal (p_id ()) | "nonl" -> SNonlocal (p_id ())
  | "del" -> SDel (p_id ()) | "pass" -> SPass
  | t -> raise (Parse ("stmt " ^ t))
let p_prog ws =
  toks := ws;
  let k = p_int () in
  let ss = rep k p_stmt in
  let m = p_expr () in
  if !toks <> [] then raise (Parse "trailing");
  (ss, m)

let s_val = function
  | VInt z -> "i" ^ string_of_z z | VBool true -> "T" | VBool false -> "F" | VNone -> "N"
  | VFun _ -> "fn"
let s_exc = function
  | UnboundLocalError -> "UnboundLocalError" | NameError -> "NameError" | TypeError -> "TypeError"
  | ZeroDivisionError -> "ZeroDivisionError" | AttributeError -> "AttributeError"
let s_trace t = if t = [] then "-" else String.concat "," (List.map s_val t)
let s_out = function
  | Done (v, t) -> "D " ^ s_val v ^ " " ^ s_trace t
  | Failed (e, t) -> "E " ^ s_exc e ^ " " ^ s_trace t
  | NoFuel -> "FUEL"
  | IsStuck -> "STUCK"

let handle ws =
  try
    match ws with
    | "cells" :: fuel :: rest ->
        let (ss, m) = p_prog rest in s_out (run_cells (nat_of_int (int_of_string fuel)) ss m)
    | "scopes" :: fx :: fuel :: rest ->
        let (ss, m) = p_prog rest in
        s_out (run_scopes (bool_of_string fx) (nat_of_int (int_of_string fuel)) ss m)
    | _ -> "!ERR badcmd"
  with Parse m -> "!ERR parse " ^ m

let () = main_loop handle
