(* driver for m_match.  One request per line, prefix token encoding:
   value  V ::= i <z> | b <0/1> | n | s <id> | y <id> | t <k> V* | l <k> V* | q <k> V*
              | d <custom 0/1> <k> (LIT V)* | o <cls id> <k> (<attr id> V)*
   lit  LIT ::= i <z> | b <0/1> | n | s <id>
   class  C ::= I | B | S | Y | T | L | D | U <id>
   pat    P ::= L LIT | V LIT | C <x> | W | S <k> P* <star: 0 | 1 | 2 x> <k> P*
              | M <k> (<kind l|v> LIT P)* <rest: 0 | 1 x> | K C <k> P* <k> (<attr id> P)*
              | O <k> P* | A P <x>
   guard  G ::= g0 | gc <0/1> | ge <x> LIT
   ctab  CT ::= <k> (<cls id> <k> <attr id>* )*
   requests:  stmt <ref|cy> <fxas 0/1> CT V <k> (P G)*      safe CT <k> (P G)*  *)
let toks = ref []
let next () = match !toks with t :: r -> toks := r; t | [] -> failwith "eof"
let nint () = int_of_string (next ())
let nN () = n_of_string (next ())
let rec rep k f = if k <= 0 then [] else let x = f () in x :: rep (k - 1) f

let p_lit () = match next () with
  | "i" -> LInt (z_of_string (next ())) | "b" -> LBool (bool_of_string (next ()))
  | "n" -> LNone | "s" -> LStr (nN ()) | t -> failwith ("lit " ^ t)
let rec p_val () = match next () with
  | "i" -> VInt (z_of_string (next ())) | "b" -> VBool (bool_of_string (next ()))
  | "n" -> VNone | "s" -> VStr (nN ()) | "y" -> VBytes (nN ())
  | "t" -> let k = nint () in VTuple (rep k p_val)
  | "l" -> let k = nint () in VList (rep k p_val)
  | "q" -> let k = nint () in VSeq (rep k p_val)
  | "d" -> let c = bool_of_string (next ()) in let k = nint () in
           VDict (c, rep k (fun () -> let l = p_lit () in let v = p_val () in (l, v)))
  | "o" -> let c = nN () in let k = nint () in
           VInst (c, rep k (fun () -> let a = nN () in let v = p_val () in (a, v)))
  | t -> failwith ("val " ^ t)
let p_cls () = match next () with
  | "I" -> CInt | "B" -> CBool | "S" -> CStr | "Y" -> CBytes | "T" -> CTuple | "L" -> CList
  | "D" -> CDict | "U" -> CUser (nN ()) | t -> failwith ("cls " ^ t)
let rec pats_of = function [] -> PNil | p :: r -> PCons (p, pats_of r)
let rec kpats_of = function [] -> KNil | (k, p) :: r -> KCons (k, p, kpats_of r)
let rec p_pat () = match next () with
  | "L" -> PLit (p_lit ()) | "V" -> PVal (p_lit ()) | "C" -> PCap (nN ()) | "W" -> PWild
  | "S" -> let k = nint () in let pre = rep k p_pat in
           let st = (match next () with "0" -> StarNone | "1" -> StarWild | "2" -> StarCap (nN ()) | t -> failwith "star") in
           let k2 = nint () in let post = rep k2 p_pat in PSeq (pats_of pre, st, pats_of post)
  | "M" -> let k = nint () in
           let items = rep k (fun () -> let kind = next () in let l = p_lit () in let p = p_pat () in
                                        ((if kind = "v" then KVal l else KLit l), p)) in
           let rest = (match next () with "0" -> None | "1" -> Some (nN ()) | t -> failwith "rest") in
           PMap (kpats_of items, rest)
  | "K" -> let c = p_cls () in let k = nint () in let pos = rep k p_pat in
           let k2 = nint () in let kw = rep k2 (fun () -> let a = nN () in let p = p_pat () in (KAttr a, p)) in
           PClass (c, pats_of pos, kpats_of kw)
  | "O" -> let k = nint () in POr (pats_of (rep k p_pat))
  | "A" -> let p = p_pat () in let x = nN () in PAs (p, x)
  | t -> failwith ("pat " ^ t)
let p_guard () = match next () with
  | "g0" -> GNone | "gc" -> GConst (bool_of_string (next ()))
  | "ge" -> let x = nN () in let l = p_lit () in GVarEq (x, l) | t -> failwith ("guard " ^ t)
let p_ctab () = let k = nint () in
  rep k (fun () -> let c = nN () in let m = nint () in let names = rep m nN in (c, names))
let p_cases () = let k = nint () in rep k (fun () -> let p = p_pat () in let g = p_guard () in (p, g))

let s_lit = function
  | LInt z -> "i " ^ string_of_z z | LBool b -> "b " ^ string_of_bool b | LNone -> "n"
  | LStr s -> "s " ^ string_of_n s
let rec s_val = function
  | VInt z -> "i " ^ string_of_z z | VBool b -> "b " ^ string_of_bool b | VNone -> "n"
  | VStr s -> "s " ^ string_of_n s | VBytes s -> "y " ^ string_of_n s
  | VTuple l -> s_list "t" l | VList l -> s_list "l" l | VSeq l -> s_list "q" l
  | VDict (c, kvs) -> String.concat " " (["d"; string_of_bool c; string_of_int (List.length kvs)]
                        @ List.map (fun (k, v) -> s_lit k ^ " " ^ s_val v) kvs)
  | VInst (c, at) -> String.concat " " (["o"; string_of_n c; string_of_int (List.length at)]
                        @ List.map (fun (a, v) -> string_of_n a ^ " " ^ s_val v) at)
and s_list tag l = String.concat " " ([tag; string_of_int (List.length l)] @ List.map s_val l)
let s_exn = function ETypeError -> "TypeError" | EValueError -> "ValueError"
  | EUnbound -> "UnboundLocalError" | EInternal -> "INTERNAL"
let s_guards gs = "g " ^ (if gs = [] then "-" else String.concat "," (List.map (fun i -> string_of_int (int_of_nat i)) gs))
let s_sres = function
  | SRaise (e, gs) -> "err " ^ s_exn e ^ " " ^ s_guards gs
  | SDone o ->
      (match o.o_sel with Some i -> "sel " ^ string_of_int (int_of_nat i) | None -> "none")
      ^ " " ^ s_guards o.o_guards ^ " env " ^ string_of_int (List.length o.o_env)
      ^ String.concat "" (List.map (fun (x, v) -> " ; " ^ string_of_n x ^ " " ^ s_val v) o.o_env)

let handle words =
  toks := words;
  match next () with
  | "stmt" ->
      let which = next () in let fx = bool_of_string (next ()) in
      let ct = p_ctab () in let v = p_val () in let cases = p_cases () in
      if !toks <> [] then "!ERR trailing" else
      s_sres (if which = "ref" then match_ref ct cases v else match_cy fx ct cases v)
  | "safe" ->
      let ct = p_ctab () in let cases = p_cases () in
      string_of_bool (safe_cases ct cases) ^ " " ^ string_of_bool (as_ok_cases cases)
  | _ -> "!ERR badcmd"

let () = main_loop handle
