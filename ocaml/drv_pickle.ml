(* driver for m_pickle (C29).  All arguments are space-free tokens:
   flags  = 3 bits lookup,ptr,pad      env = 2 bits g_cinit,g_reduce      avail = digits of usable algos
   hier   = class/class/...   class = id;cinit;reduce;getstate;setstate;auto(n|t|f);members
   members= name:kind,...  ("-" none)   name = code points joined by '.'   kind = o | c<conv><struct><ptr>
   hash   = algo~name+name+...~value|...      (the uninterpreted hash, supplied by the caller)
   slots  = name=oN | name=oA<z> | name=c<z> , ...     dict = "!" (no dict) | "-" (empty) | k:v,...
   state  = NONE | "-" | items N | A<z> | D<k:v;k:v> joined by ','   *)
let name_of_string s = List.map n_of_string (split_on '.' s)
let string_of_name (nm : name) = if nm = [] then "_" else String.concat "." (List.map string_of_n nm)
let string_of_names l = if l = [] then "-" else String.concat "," (List.map string_of_name l)

let kind_of_string s =
  if s = "o" then KObj
  else KC (s.[1] = '1', s.[2] = '1', s.[3] = '1')

let member_of_string s =
  match String.split_on_char ':' s with
  | [nm; k] -> { m_name = name_of_string nm; m_kind = kind_of_string k }
  | _ -> failwith "member"

let cls_of_string s =
  match String.split_on_char ';' s with
  | [id; ci; re; gs; ss; au; ms] ->
      { c_id = n_of_string id; c_members = List.map member_of_string (split_on ',' ms);
        c_cinit = bool_of_string ci; c_reduce = bool_of_string re; c_getstate = bool_of_string gs;
        c_setstate = bool_of_string ss;
        c_auto = (match au with "t" -> Some true | "f" -> Some false | _ -> None) }
  | _ -> failwith "cls"

let hier_of_string s = List.map cls_of_string (split_on '/' s)
let flags_of_string s = { fx_lookup = s.[0] = '1'; fx_ptr = s.[1] = '1'; fx_pad = s.[2] = '1' }
let env_of_string s = { g_cinit = s.[0] = '1'; g_reduce = s.[1] = '1' }
let avail_of_string s = List.init (String.length s) (fun i -> nat_of_int (Char.code s.[i] - 48))

let hash_of_string s : nat -> name list -> z =
  let tbl = List.map (fun e -> match String.split_on_char '~' e with
      | [a; ns; v] -> ((int_of_string a, ns), z_of_string v)
      | _ -> failwith "hash") (split_on '|' s) in
  fun a ns ->
    let key = (int_of_nat a, String.concat "+" (List.map string_of_name ns)) in
    (try List.assoc key tbl with Not_found -> failwith ("nohash " ^ string_of_int (fst key) ^ "~" ^ snd key))

let pv_of_string s =
  if s = "N" then PNone
  else if s.[0] = 'A' then PAtom (z_of_string (String.sub s 1 (String.length s - 1)))
  else if s.[0] = 'D' then
    let body = String.sub s 2 (String.length s - 3) in
    PDict (List.map (fun kv -> match String.split_on_char ':' kv with
        | [k; v] -> (z_of_string k, z_of_string v) | _ -> failwith "dictitem") (split_on ';' body))
  else failwith "pv"

let string_of_pv = function
  | PNone -> "N"
  | PAtom a -> "A" ^ string_of_z a
  | PDict d -> "D<" ^ String.concat ";" (List.map (fun (k, v) -> string_of_z k ^ ":" ^ string_of_z v) d) ^ ">"

let slot_of_string s =
  match String.split_on_char '=' s with
  | [nm; v] ->
      (name_of_string nm,
       if v.[0] = 'o' then SObj (pv_of_string (String.sub v 1 (String.length v - 1)))
       else SC (z_of_string (String.sub v 1 (String.length v - 1))))
  | _ -> failwith "slot"

let dict_of_string s =
  if s = "!" then None
  else Some (List.map (fun kv -> match String.split_on_char ':' kv with
      | [k; v] -> (z_of_string k, z_of_string v) | _ -> failwith "dict") (split_on ',' s))

let string_of_dict = function
  | None -> "!"
  | Some [] -> "-"
  | Some d -> String.concat "," (List.map (fun (k, v) -> string_of_z k ^ ":" ^ string_of_z v) d)

let state_of_string s =
  if s = "NONE" then None else Some (List.map pv_of_string (split_on ',' s))
let string_of_state = function
  | None -> "NONE"
  | Some [] -> "-"
  | Some l -> String.concat "," (List.map string_of_pv l)

let string_of_reason = function RCinit -> "cinit" | RNonPy -> "nonpy" | RStruct -> "struct"

let string_of_err = function
  | EType (r, ns) -> "TypeError " ^ string_of_reason r ^ " " ^ string_of_names ns
  | EPickle -> "PickleError"
  | EIndex -> "IndexError"
  | EConv n -> "ConvError " ^ string_of_name n
  | ENoDict -> "NoDictError"
  | EDictUpdate -> "DictUpdateError"
  | EAttr n -> "BadObject " ^ string_of_name n
  | EUB -> "UB"
  | EOther -> "Other"

(* instantiation of the section variables: atoms and C values are integer tokens *)
let to_py _ (c : z) = c
let from_py _ (a : z) = Some a
let czero = z_of_int 0
let atom_truth (a : z) = (int_of_z a <> 0)
let atom_eqb (a : z) (b : z) = (string_of_z a = string_of_z b)

let string_of_obj (o : (z, z) obj) =
  let ms = all_members o.o_type.t_hier in
  let slots = List.map (fun m ->
      string_of_name m.m_name ^ "=" ^
      (match get o.o_slots m.m_name with
       | None -> "?"
       | Some (SObj p) -> "o" ^ string_of_pv p
       | Some (SC c) -> "c" ^ string_of_z c
       | Some SDangling -> "dangling")) ms in
  "O " ^ (if slots = [] then "-" else String.concat "," slots) ^ " " ^ string_of_dict o.o_dict

let head_id (h : hierarchy) = match h with c :: _ -> string_of_n c.c_id | [] -> "?"

let mk_obj hier pyd slots dict =
  { o_type = { t_hier = hier_of_string hier; t_pydict = bool_of_string pyd };
    o_slots = List.map slot_of_string (split_on ',' slots); o_dict = dict_of_string dict }

let string_of_rv rv =
  "V " ^ head_id rv.rv_owner ^ " " ^ string_of_z rv.rv_chk ^ " " ^
  string_of_state rv.rv_arg_state ^ " " ^ string_of_state rv.rv_state

let handle = function
  | ["members"; hier] ->
      string_of_names (all_names (hier_of_string hier))
  | ["decide"; fl; env; hier] ->
      let f = flags_of_string fl and e = env_of_string env and h = hier_of_string hier in
      (match decide f e h with
       | NoInject -> "N"
       | InjectRaise (r, ns) -> "R " ^ string_of_reason r ^ " " ^ string_of_names ns
       | InjectPickle ms -> "P " ^ string_of_names (List.map (fun m -> m.m_name) ms))
      ^ (if compile_error f e h then " CE" else "")
  | ["walk"; sel; fl; env; hier] ->
      (* the loop of _inject_pickle_methods with a scope selector: 0 = the code, 1 = __cinit__ looked
         up in node.scope only, 2 = __reduce__ looked up in node.scope only *)
      let f = flags_of_string fl and e = env_of_string env and h = hier_of_string hier in
      (match decide_walk_n (nat_of_int (int_of_string sel)) f e h with
       | NoInject -> "N"
       | InjectRaise (r, ns) -> "R " ^ string_of_reason r ^ " " ^ string_of_names ns
       | InjectPickle ms -> "P " ^ string_of_names (List.map (fun m -> m.m_name) ms))
  | ["eff"; fl; env; hier] ->
      let f = flags_of_string fl and e = env_of_string env and h = hier_of_string hier in
      (match effective_reduce f e h with
       | RDefault -> "D" | RUser -> "U"
       | RRaise (r, ns) -> "R " ^ string_of_reason r ^ " " ^ string_of_names ns
       | RPickle ow -> "P " ^ head_id ow ^ " " ^ string_of_names (all_names ow))
      ^ " / " ^
      (match effective_setstate f e h with
       | SNone -> "SN" | SUser -> "SU" | SRaise -> "SR" | SSet ow -> "SS " ^ head_id ow)
  | ["accepted"; fl; av; hs; hier] ->
      (match accepted (hash_of_string hs) (avail_of_string av) (flags_of_string fl)
               (all_names (hier_of_string hier)) with
       | None -> "COMPILE-ERROR"
       | Some l -> string_of_zlist l)
  | ["reduce"; fl; env; hs; hier; pyd; slots; dict] ->
      (match reduce to_py (hash_of_string hs) (flags_of_string fl) (env_of_string env)
               (mk_obj hier pyd slots dict) with
       | Err e -> "E " ^ string_of_err e
       | Ok rv -> string_of_rv rv)
  | ["rt"; fl; env; av; hs; hier; pyd; slots; dict] ->
      let f = flags_of_string fl and e = env_of_string env and hf = hash_of_string hs in
      (match reduce to_py hf f e (mk_obj hier pyd slots dict) with
       | Err er -> "E " ^ string_of_err er
       | Ok rv ->
           (match load from_py czero atom_truth hf atom_eqb (avail_of_string av) f e rv with
            | Err er -> "E " ^ string_of_err er
            | Ok o -> string_of_obj o))
  | ["cross"; fl; env; av; hs; hier; pyd; slots; dict; hier2; pyd2] ->
      let f = flags_of_string fl and e = env_of_string env and hf = hash_of_string hs in
      (match reduce to_py hf f e (mk_obj hier pyd slots dict) with
       | Err er -> "E1 " ^ string_of_err er
       | Ok rv ->
           let t2 = { t_hier = hier_of_string hier2; t_pydict = bool_of_string pyd2 } in
           (match effective_reduce f e t2.t_hier with
            | RPickle ow ->
                (match load_into from_py czero atom_truth hf atom_eqb (avail_of_string av) f e ow t2 rv with
                 | Err er -> "E " ^ string_of_err er
                 | Ok o -> string_of_obj o)
            | _ -> "E Other"))
  | ["unpickle"; fl; env; av; hs; hier; pyd; chk; st] ->
      let f = flags_of_string fl and hf = hash_of_string hs in
      let t = { t_hier = hier_of_string hier; t_pydict = bool_of_string pyd } in
      (match unpickle from_py czero atom_truth hf atom_eqb (avail_of_string av) f t.t_hier t
               (z_of_string chk) (state_of_string st) with
       | Err er -> "E " ^ string_of_err er
       | Ok o -> string_of_obj o)
  | _ -> "!ERR badcmd"

let () = main_loop handle
