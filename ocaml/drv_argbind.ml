(* driver for m_argbind:
   <cy|py|call> <T|D> <posonly> <poskw> <star> <kwonly> <starstar> <kwused> <npos> <kws>
   param lists: name:def,...  ("-" = empty); kws: name:kind:value,... kind in I E S N
   positional values are 100, 101, ...; result: B ps|star|kw   or   E kind *)
let params s = List.map (fun w -> match String.split_on_char ':' w with
    | [n; d] -> { p_name = nat_of_int (int_of_string n); p_def = (d = "1") }
    | _ -> failwith "param") (split_on ',' s)
let kind_of = function "I" -> KInterned | "E" -> KEqual | "S" -> KSub | "N" -> KNonStr | _ -> failwith "kind"
let str_kind = function KInterned -> "I" | KEqual -> "E" | KSub -> "S" | KNonStr -> "N"
let kws s = List.map (fun w -> match String.split_on_char ':' w with
    | [n; k; v] -> ({ k_name = nat_of_int (int_of_string n); k_kind = kind_of k }, int_of_string v)
    | _ -> failwith "kw") (split_on ',' s)
let str_ekind = function
  | EArgTuple -> "ArgTuple" | EMultiple -> "Multiple" | EUnexpected -> "Unexpected" | ENonStr -> "NonStr"
  | EKwRequired -> "KwRequired" | ENoArgs -> "NoArgs" | ETooMany -> "TooMany" | EMissingPos -> "MissingPos"
  | EMissingKw -> "MissingKw" | EImpossible -> "Impossible"
let str_arg = function Given v -> "G" ^ string_of_int v | Default -> "D" | Unbound -> "U"
let str_list f l = if l = [] then "-" else String.concat "," (List.map f l)
let str_out = function
  | Bound (ps, st, kw) ->
      "B " ^ str_list (fun (n, a) -> string_of_int (int_of_nat n) ^ "=" ^ str_arg a) ps ^ " "
      ^ (match st with None -> "none" | Some l -> "S" ^ str_list string_of_int l) ^ " "
      ^ (match kw with None -> "none"
         | Some d -> "K" ^ str_list (fun (k, v) -> string_of_int (int_of_nat k.k_name) ^ ":" ^ str_kind k.k_kind ^ "=" ^ string_of_int v) d)
  | TypeErr e -> "E " ^ str_ekind e
let str_obs = function
  | OBound (ps, st, kw) -> str_out (Bound (ps, st, kw))
  | OTypeError -> "E TypeError"
  | OBroken -> "E Broken"

let handle = function
  | [which; pth; po; pk; star; ko; ss; used; npos; kw] ->
      let s = { s_posonly = params po; s_poskw = params pk; s_star = bool_of_string star;
                s_kwonly = params ko; s_starstar = bool_of_string ss; s_kwused = bool_of_string used } in
      let c = { c_pos = List.init (int_of_string npos) (fun i -> 100 + i); c_kws = kws kw } in
      let p = (match pth with "T" -> PTuple | "D" -> PDict | "N" -> PNoArgs | "O" -> PMethO | _ -> failwith "path") in
      let wf = (if wf_sig s then "" else " !wfsig") ^ (if wf_call PDict c then "" else " !wfcall")
               ^ (if wf_path p s then "" else " !wfpath") in
      (match which with
       | "cy" -> str_out (bind_cy p s c) ^ wf
       | "call1" -> str_out (call_cy true p s c) ^ wf
       | "call0" -> str_out (call_cy false p s c) ^ wf ^ (if wf_entry false p then "" else " !wfentry")
       | "py" -> str_out (bind_py s c) ^ wf
       | "callpy" -> str_out (call_py s c) ^ wf
       | "ocy" -> str_obs (erase s (call_cy true p s c)) ^ wf
       | "opy" -> str_obs (erase s (call_py s c)) ^ wf
       | _ -> "!ERR which")
  | _ -> "!ERR badcmd"

let () = main_loop handle
