(* driver for m_fold (property C09, ConstantFolding on sequence displays).
   fold <fx> <guard> <value>* | <expr>      tokens, prefix notation
     value := i<z> | b0 | b1 | o0 | o1 | t<n> value^n | l<n> value^n        (the run-time values of V0, V1, ...)
     expr  := I<z> | B0 | B1 | O0 | O1 | V<n> | * expr | T<n> expr^n | L<n> expr^n | M expr expr
              | C expr expr | R expr expr | Q expr expr expr
   ->  <folded tree> | <CPython value or E> | <value of the folded tree or E> | <display_only>
     tree  := I<z> | B. | O. | V<n> | *tree | S<t|l>(tree,...;mult or -;constant result or -) | M(tree,tree;constant result or -)
              | C(tree,tree) | R(tree,tree) | Q(tree,tree,tree) *)
let tail s = String.sub s 1 (String.length s - 1)

let rec take_n f n toks =
  if n = 0 then ([], toks)
  else let (x, r) = f toks in let (xs, r') = take_n f (n - 1) r in (x :: xs, r')

let rec pvalue = function
  | [] -> failwith "value"
  | t :: r ->
    (match t.[0] with
     | 'i' -> (VInt (z_of_string (tail t)), r)
     | 'b' -> (VBool (t = "b1"), r)
     | 'o' -> (VOpq (t = "o1"), r)
     | 't' -> let (xs, r') = take_n pvalue (int_of_string (tail t)) r in (VSeq (KTuple, xs), r')
     | 'l' -> let (xs, r') = take_n pvalue (int_of_string (tail t)) r in (VSeq (KList, xs), r')
     | _ -> failwith "value")

let rec pvalues toks = match toks with [] -> [] | _ -> let (v, r) = pvalue toks in v :: pvalues r

let rec pexpr = function
  | [] -> failwith "expr"
  | t :: r ->
    (match t.[0] with
     | 'I' -> (EInt (z_of_string (tail t)), r)
     | 'B' -> (EBool (t = "B1"), r)
     | 'O' -> (EOpq (t = "O1"), r)
     | 'V' -> (EVar (nat_of_int (int_of_string (tail t))), r)
     | '*' -> let (x, r') = pexpr r in (EStar x, r')
     | 'T' -> let (xs, r') = take_n pexpr (int_of_string (tail t)) r in (EDisp (KTuple, xs), r')
     | 'L' -> let (xs, r') = take_n pexpr (int_of_string (tail t)) r in (EDisp (KList, xs), r')
     | 'M' -> let (a, r1) = pexpr r in let (b, r2) = pexpr r1 in (EMul (a, b), r2)
     | 'C' -> let (a, r1) = pexpr r in let (b, r2) = pexpr r1 in (ECmp (a, b), r2)
     | 'R' -> let (a, r1) = pexpr r in let (b, r2) = pexpr r1 in (EOr (a, b), r2)
     | 'Q' -> let (c, r0) = pexpr r in let (a, r1) = pexpr r0 in let (b, r2) = pexpr r1 in (ECond (c, a, b), r2)
     | _ -> failwith "expr")

let rec svalue = function
  | VInt z -> "i" ^ string_of_z z
  | VBool b -> "b" ^ string_of_bool b
  | VOpq b -> "o" ^ string_of_bool b
  | VSeq (k, l) -> (match k with KTuple -> "t[" | KList -> "l[") ^ String.concat "," (List.map svalue l) ^ "]"

let sopt = function None -> "-" | Some v -> svalue v

let rec stree = function
  | FInt z -> "I" ^ string_of_z z
  | FBool b -> "B" ^ string_of_bool b
  | FOpq b -> "O" ^ string_of_bool b
  | FVar n -> "V" ^ string_of_int (int_of_nat n)
  | FStar x -> "*" ^ stree x
  | FSeq (k, items, m, c) ->
      "S" ^ (match k with KTuple -> "t" | KList -> "l") ^ "(" ^ String.concat "," (List.map stree items) ^ ";"
      ^ (match m with None -> "-" | Some f -> stree f) ^ ";" ^ sopt c ^ ")"
  | FMul (a, b, c) -> "M(" ^ stree a ^ "," ^ stree b ^ ";" ^ sopt c ^ ")"
  | FCmp (a, b) -> "C(" ^ stree a ^ "," ^ stree b ^ ")"
  | FOr (a, b) -> "R(" ^ stree a ^ "," ^ stree b ^ ")"
  | FCond (c, a, b) -> "Q(" ^ stree c ^ "," ^ stree a ^ "," ^ stree b ^ ")"

let rec split_bar acc = function
  | [] -> (List.rev acc, [])
  | "|" :: r -> (List.rev acc, r)
  | x :: r -> split_bar (x :: acc) r

let handle = function
  | "fold" :: fx :: guard :: rest ->
      let (vt, et) = split_bar [] rest in
      let vals = Array.of_list (pvalues vt) in
      let env n = let i = int_of_nat n in if i < Array.length vals then vals.(i) else VOpq false in
      let (e, _) = pexpr et in
      let t = fold (bool_of_string fx) (bool_of_string guard) e in
      let sv = function None -> "E" | Some v -> svalue v in
      stree t ^ " | " ^ sv (eval env e) ^ " | " ^ sv (fdenote env t) ^ " | " ^ string_of_bool (display_only e)
  | _ -> "!ERR badcmd"

let () = main_loop handle
