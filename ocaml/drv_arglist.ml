(* driver for m_arglist (property C25, EmbedSignature._fmt_arglist: layout of the embedded parameter list)
   fmt <order 0=star-then-slash (code as it is) | 1=slash-then-star> <fix_hidden 0|1> <hide_self 0|1>
       <npoargs> <npargs> <nkargs> <pargs name|-> <kargs name|-> <args: csv of flag:name | ->
     -> <tokens> <read-back>
   canon <po csv|-> <pk csv|-> <va|-> <ko csv|-> <kw|->  -> <tokens> <read-back>
     tokens: csv of A:name  /  *  V:name  K:name   ("-" = empty)
     read-back (Python parameter grammar on the tokens): NONE | <po> <pk> <va> <ko> <kw>
   the formatted argument text is abstract in the model (type A): OCaml strings here *)
let opt s = if s = "-" then None else Some s
let csv l = if l = [] then "-" else String.concat "," l
let tok_str = function
  | TArg a -> "A:" ^ a | TSlash -> "/" | TStar -> "*" | TVarArgs a -> "V:" ^ a | TKwArgs a -> "K:" ^ a
let ostr = function None -> "-" | Some s -> s
let read_str = function
  | None -> "NONE"
  | Some s -> String.concat " " [csv s.s_po; csv s.s_pk; ostr s.s_va; csv s.s_ko; ostr s.s_kw]
let out toks = csv (List.map tok_str toks) ^ " " ^ read_str (read_sig toks)
let arg_of s = match String.split_on_char ':' s with
  | [f; n] -> (f = "1", n) | _ -> failwith "arg"

let handle = function
  | ["fmt"; o; fx; hs; npo; np; nk; pa; ka; args] ->
      let ord = if o = "0" then StarThenSlash else SlashThenStar in
      out (fmt_arglist ord (fx = "1") (List.map arg_of (split_on ',' args))
             (nat_of_int (int_of_string npo)) (nat_of_int (int_of_string np)) (opt pa)
             (nat_of_int (int_of_string nk)) (opt ka) (hs = "1"))
  | ["canon"; po; pk; va; ko; kw] ->
      out (canon { s_po = split_on ',' po; s_pk = split_on ',' pk; s_va = opt va; s_ko = split_on ',' ko; s_kw = opt kw })
  | _ -> "!ERR badcmd"

let () = main_loop handle
