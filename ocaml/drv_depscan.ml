(* driver for m_depscan (C46: dependency scan / name resolution)
   strings are the real text; character '.' <-> 0, any other character <-> its code.
   lists: comma separated, "-" = empty list; "@" = the empty string
   scan <ends|onedot> <stmt;stmt;...|->     stmt = F:<from>:<names> | C:<mods> | E:<file> | I:<file>
                                            -> <cimports> | <includes> | <externs>
   cands <0|1 dots_only_fixed> <module> <pkg>   -> NONE | <q1,q2>   (names given to find_pxd_file, in order)
   rule <level> <path> <pkg>                    -> NONE | <qualified name>
   package <name:1,name:0,...>                  -> <components>   (innermost directory first) *)
let str_of (s : string) : nat list =
  if s = "@" then [] else
  List.init (String.length s) (fun i -> if s.[i] = '.' then O else nat_of_int (Char.code s.[i]))
let to_str (l : nat list) : string =
  if l = [] then "@" else
  String.concat "" (List.map (fun c -> let i = int_of_nat c in if i = 0 then "." else String.make 1 (Char.chr i)) l)
let strs_of s = List.map str_of (split_on ',' s)
let of_strs l = if l = [] then "-" else String.concat "," (List.map to_str l)

let stmt_of (s : string) =
  match String.split_on_char ':' s with
  | ["F"; from; names] -> SFrom (str_of from, strs_of names)
  | ["C"; mods] -> SCimport (strs_of mods)
  | ["E"; f] -> SExtern (str_of f)
  | ["I"; f] -> SInclude (str_of f)
  | _ -> failwith "stmt"

let handle = function
  | ["scan"; rule; stmts] ->
      let r = (match rule with "ends" -> SepEndsWithDot | "onedot" -> SepOnlyOneDot | _ -> failwith "rule") in
      let l = if stmts = "-" then [] else List.map stmt_of (String.split_on_char ';' stmts) in
      let sc = scan r l in
      of_strs sc.sc_cimports ^ " | " ^ of_strs sc.sc_includes ^ " | " ^ of_strs sc.sc_externs
  | ["cands"; fixed; m; pkg] ->
      (match find_pxd_cands (bool_of_string fixed) (str_of m) (strs_of pkg) with
       | None -> "NONE"
       | Some c -> of_strs c)
  | ["rule"; level; path; pkg] ->
      (match import_rule (nat_of_int (int_of_string level)) (strs_of path) (strs_of pkg) with
       | None -> "NONE"
       | Some q -> to_str (join_dots q))
  | ["package"; dirs] ->
      let ds = List.map (fun e -> match String.split_on_char ':' e with
                          | [n; b] -> (str_of n, b = "1") | _ -> failwith "dir") (split_on ',' dirs) in
      of_strs (package_of ds)
  | _ -> "!ERR badcmd"

let () = main_loop handle
