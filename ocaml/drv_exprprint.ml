(* driver for m_exprprint
   print <fixed> <expr words>   -> <text cps> <OK|DIFF|ERR|TRAIL|OOF> <wf 0|1> <ntokens>
   repr s|b <cps>               -> <text cps>
   qual <fixed> <scope words>   -> <cy qualnames ;-separated> <rule qualnames ;-separated>
   text = comma separated code points, "-" = empty *)
let text_of_word w = nlist_of_string w
let word_of_text t = string_of_nlist t
let str_of_text t = String.concat "" (List.map (fun c -> let i = int_of_n c in
  if i < 128 then String.make 1 (Char.chr i) else Printf.sprintf "\\u{%x}" i) t)

let unop_of = function "neg" -> UNeg | "pos" -> UPos | "inv" -> UInv | _ -> failwith "unop"
let binop_of = function
  | "add" -> BAdd | "sub" -> BSub | "mul" -> BMul | "matmul" -> BMatMul | "div" -> BDiv
  | "floordiv" -> BFloorDiv | "mod" -> BMod | "lshift" -> BLShift | "rshift" -> BRShift
  | "and" -> BAnd | "or" -> BOr | "xor" -> BXor | "pow" -> BPow | _ -> failwith "binop"
let cmpop_of_s = function
  | "lt" -> CLt | "le" -> CLe | "gt" -> CGt | "ge" -> CGe | "eq" -> CEq | "ne" -> CNe
  | "in" -> CIn | "notin" -> CNotIn | "is" -> CIs | "isnot" -> CIsNot | _ -> failwith "cmpop"

let rec p_expr (ws : string list) : expr * string list =
  match ws with
  | "n" :: s :: r -> (EName (text_of_word s), r)
  | "i" :: g :: s :: r -> (ENum (KInt, bool_of_string g, text_of_word s), r)
  | "f" :: g :: s :: r -> (ENum (KFloat, bool_of_string g, text_of_word s), r)
  | "j" :: g :: s :: r -> (ENum (KImag, bool_of_string g, text_of_word s), r)
  | "s" :: s :: r -> (EStr (text_of_word s), r)
  | "b" :: s :: r -> (EBytes (text_of_word s), r)
  | "T" :: r -> (ETrue, r) | "F" :: r -> (EFalse, r) | "N" :: r -> (ENone, r) | "E" :: r -> (EEllipsis, r)
  | "u" :: o :: r -> let (a, r) = p_expr r in (EUn (unop_of o, a), r)
  | "not" :: r -> let (a, r) = p_expr r in (ENot a, r)
  | "bin" :: o :: r -> let (a, r) = p_expr r in let (b, r) = p_expr r in (EBin (binop_of o, a, b), r)
  | "bool" :: o :: r -> let (a, r) = p_expr r in let (b, r) = p_expr r in
      (EBool ((if o = "and" then LAnd else LOr), a, b), r)
  | "cmp" :: r ->
      let (a, r) = p_expr r in
      (match r with
       | o :: r -> let (b, r) = p_expr r in
           (match r with
            | k :: r -> let (cs, r) = p_cmps (int_of_string k) r in (ECmp (a, cmpop_of_s o, b, cs), r)
            | _ -> failwith "cmp")
       | _ -> failwith "cmp")
  | "cond" :: r -> let (a, r) = p_expr r in let (b, r) = p_expr r in let (c, r) = p_expr r in (ECond (a, b, c), r)
  | "tuple" :: k :: r -> let (l, r) = p_seq (int_of_string k) r in (ETuple l, r)
  | "list" :: k :: r -> let (l, r) = p_seq (int_of_string k) r in (EList l, r)
  | "set" :: k :: r -> let (l, r) = p_seq (int_of_string k) r in (ESet l, r)
  | "dict" :: k :: r -> let (l, r) = p_items (int_of_string k) r in (EDict l, r)
  | "attr" :: r -> let (a, r) = p_expr r in (match r with s :: r -> (EAttr (a, text_of_word s), r) | _ -> failwith "attr")
  | "sub" :: r -> let (a, r) = p_expr r in let (i, r) = p_expr r in (ESub (a, i), r)
  | "call" :: r -> let (a, r) = p_expr r in
      (match r with k :: r -> let (l, r) = p_seq (int_of_string k) r in (ECall (a, l), r) | _ -> failwith "call")
  | "lam" :: k :: r ->
      let rec names n r = if n = 0 then ([], r) else
        (match r with s :: r -> let (l, r) = names (n - 1) r in (text_of_word s :: l, r) | _ -> failwith "lam") in
      let (ps, r) = names (int_of_string k) r in
      let (b, r) = p_expr r in (ELambda (ps, b), r)
  | _ -> failwith "expr"
and p_seq n r = if n = 0 then (ENil, r) else
  let (e, r) = p_expr r in let (l, r) = p_seq (n - 1) r in (ECons (e, l), r)
and p_items n r = if n = 0 then (INil, r) else
  let (k, r) = p_expr r in let (v, r) = p_expr r in let (l, r) = p_items (n - 1) r in (ICons (k, v, l), r)
and p_cmps n r = if n = 0 then (CNil, r) else
  (match r with
   | o :: r -> let (e, r) = p_expr r in let (l, r) = p_cmps (n - 1) r in (CCons (cmpop_of_s o, e, l), r)
   | _ -> failwith "cmps")

let rec p_scope ws =
  match ws with
  | k :: name :: g :: n :: r ->
      let kind = (match k with "F" -> KFunc | "L" -> KLam | "C" -> KClass | _ -> failwith "skind") in
      let (ch, r) = p_scopes (int_of_string n) r in
      (Scope (kind, text_of_word name, bool_of_string g, ch), r)
  | _ -> failwith "scope"
and p_scopes n r = if n = 0 then (SNil, r) else
  let (s, r) = p_scope r in let (l, r) = p_scopes (n - 1) r in (SCons (s, l), r)

let show_q (q : n list list) = String.concat "." (List.map str_of_text q)
let show_qs l = if l = [] then "-" else String.concat ";" (List.map show_q l)

let handle = function
  | "print" :: fx :: ws ->
      let (e, r) = p_expr ws in
      if r <> [] then "!ERR trailing words" else begin
        let ts = print (bool_of_string fx) e in
        let n = List.length ts in
        let st = (match reparse (nat_of_int (40 * n + 40)) ts with
          | RExpr e' -> if expr_eqb e e' then "OK" else "DIFF"
          | RError -> "ERR" | RTrailing -> "TRAIL" | ROutOfFuel -> "OOF") in
        Printf.sprintf "%s %s %s %d" (word_of_text (render ts)) st (string_of_bool (wf e)) n
      end
  | ["repr"; "s"; w] -> word_of_text (repr_str (text_of_word w))
  | ["repr"; "b"; w] -> word_of_text (repr_bytes (text_of_word w))
  | "qual" :: fx :: n :: ws ->
      let (l, r) = p_scopes (int_of_string n) ws in
      if r <> [] then "!ERR trailing words" else
        Printf.sprintf "%s %s" (show_qs (cy_module (bool_of_string fx) l)) (show_qs (rule_module l))
  | _ -> "!ERR badcmd"

let () = main_loop handle
