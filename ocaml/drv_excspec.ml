(* driver for m_excspec.  Tokens (no blanks inside a token):
   kind    I:<w>:<0|1> | E | F | P | V | S | O
   cval    i:<z> | d:nan | d:-0 | d:<q> | p:<z> | u | s:<a>:<b> | o:<z> | null | undef
   sent    <cval> | <cval>~ (opaque constant) ; "-" = none
   chk     n | y | +d | +s | +p<t>
   spec    <sent>/<chk>
   clause  none | noexcept | ex=<sent> | exq=<sent> | star | plus:d | plus:s | plus:p<t>
   flags   4 characters 0/1: legacy extern in_pxd cclass_or_ptr
   flavour plain | nogil | withgil
   body    ret=<cval> | raise=<e> | throw=<cppname> | setret=<e>,<cval>
   pending - | <e>
   commands:
     norm <flags> <kind> <clause>                       -> spec | ERR
     obs <pspec> <fspec> <kind> <flavour> <caller_nogil> <body> <pending>
     doc <fspec> <kind> <body> <pending> <caller_nogil>
     compat <self spec> <other spec>
     wf <spec> <kind>
   value level (M_ExcTest):
   ity     <w>:<0|1>            ; "-" = no cast
   expr    prefix tokens joined by ',':  dec:<n>:<suf> | hex:<n>:<suf> | int:<v> | neg E | add E E | sub E E |
           mul E E | cast:<w>:<sg> E      (suf: n l u ul)
     ceval <expr>                                 -> <w>:<sg>:<v> | UNDEF
     emit <ity|-> <expr>                          -> expr tokens of (emitted tc e)
     vtest <rt> <ity|-> <expr> <r,r,...>          -> one of 0/1/? per r   (eq_test rt r (emitted tc e))
     vstored <rt> <expr>                          -> v | UNDEF
     vspec <ity|-> <rt> <expr> <chk>              -> site spec | UNDEF
     vobs <ity|-> <rt> <expr> <chk> <flavour> <caller_nogil> <body> <pending>
     ftest <macro 0|1> <32|64|-> <c> <r,r,...>    (C99 hex floats / nan / inf)
     fstored <32|64> <c> *)
let sp c s = String.split_on_char c s

let kind_of s = match sp ':' s with
  | ["I"; w; sg] -> KInt (z_of_string w, bool_of_string sg)
  | ["E"] -> KEnum | ["F"] -> KFloat | ["P"] -> KPtr | ["V"] -> KVoid | ["S"] -> KStruct | ["O"] -> KObject
  | _ -> failwith ("kind " ^ s)

let cval_of s = match sp ':' s with
  | ["i"; z] -> VInt (z_of_string z)
  | ["d"; "nan"] -> VDbl DNaN
  | ["d"; "-0"] -> VDbl DNegZero
  | ["d"; q] -> VDbl (DNum (z_of_string q))
  | ["p"; z] -> VPtr (z_of_string z)
  | ["u"] -> VUnit
  | ["s"; a; b] -> VStruct (z_of_string a, z_of_string b)
  | ["o"; z] -> VObj (z_of_string z)
  | ["null"] -> VNull
  | ["undef"] -> VUndef
  | _ -> failwith ("cval " ^ s)

let string_of_cval = function
  | VInt z -> "i:" ^ string_of_z z
  | VDbl DNaN -> "d:nan" | VDbl DNegZero -> "d:-0" | VDbl (DNum q) -> "d:" ^ string_of_z q
  | VPtr z -> "p:" ^ string_of_z z
  | VUnit -> "u"
  | VStruct (a, b) -> "s:" ^ string_of_z a ^ ":" ^ string_of_z b
  | VObj z -> "o:" ^ string_of_z z
  | VNull -> "null" | VUndef -> "undef"

let sent_of s =
  if s = "-" then None
  else let n = String.length s in
    if n > 0 && s.[n-1] = '~' then Some (Sent (cval_of (String.sub s 0 (n-1)), true))
    else Some (Sent (cval_of s, false))

let string_of_sent = function
  | None -> "-"
  | Some (Sent (v, o)) -> string_of_cval v ^ (if o then "~" else "")

let handler_of s =
  if s = "d" then HDefault else if s = "s" then HStar
  else if String.length s > 1 && s.[0] = 'p' then HPy (z_of_string (String.sub s 1 (String.length s - 1)))
  else failwith ("handler " ^ s)
let string_of_handler = function HDefault -> "d" | HStar -> "s" | HPy t -> "p" ^ string_of_z t

let chk_of s =
  if s = "n" then ChkNo else if s = "y" then ChkYes
  else if String.length s > 1 && s.[0] = '+' then ChkPlus (handler_of (String.sub s 1 (String.length s - 1)))
  else failwith ("chk " ^ s)
let string_of_chk = function ChkNo -> "n" | ChkYes -> "y" | ChkPlus h -> "+" ^ string_of_handler h

let spec_of s = match sp '/' s with
  | [a; b] -> { ev = sent_of a; ec = chk_of b }
  | _ -> failwith ("spec " ^ s)
let string_of_spec s = string_of_sent s.ev ^ "/" ^ string_of_chk s.ec

let clause_of s =
  let pre p = String.length s > String.length p && String.sub s 0 (String.length p) = p in
  let rest p = String.sub s (String.length p) (String.length s - String.length p) in
  if s = "none" then CNone else if s = "noexcept" then CNoexcept else if s = "star" then CStar
  else if pre "exq=" then (match sent_of (rest "exq=") with Some v -> CExceptQ v | None -> failwith "clause")
  else if pre "ex=" then (match sent_of (rest "ex=") with Some v -> CExcept v | None -> failwith "clause")
  else if pre "plus:" then CPlusC (handler_of (rest "plus:"))
  else failwith ("clause " ^ s)

let flags_of s =
  if String.length s <> 4 then failwith "flags" else
  { legacy = (s.[0] = '1'); extern = (s.[1] = '1'); in_pxd = (s.[2] = '1'); cclass_or_ptr = (s.[3] = '1') }

let flavour_of = function "plain" -> FPlain | "nogil" -> FNogil | "withgil" -> FWithGil | s -> failwith ("flavour " ^ s)

let cpp_of = function
  | "bad_alloc" -> XBadAlloc | "bad_cast" -> XBadCast | "bad_typeid" -> XBadTypeid | "domain_error" -> XDomain
  | "invalid_argument" -> XInvalidArg | "ios_failure" -> XIosFailure | "out_of_range" -> XOutOfRange
  | "overflow_error" -> XOverflow | "range_error" -> XRange | "underflow_error" -> XUnderflow
  | "std_other" -> XStdOther | "non_std" -> XNonStd | s -> failwith ("cpp " ^ s)

let body_of s = match sp '=' s with
  | ["ret"; v] -> Return (cval_of v)
  | ["raise"; e] -> Raise (z_of_string e)
  | ["throw"; x] -> Throw (cpp_of x)
  | ["setret"; ev] -> (match sp ',' ev with [e; v] -> SetAndReturn (z_of_string e, cval_of v) | _ -> failwith "setret")
  | _ -> failwith ("body " ^ s)

let pending_of s = if s = "-" then None else Some (z_of_string s)

let string_of_obs o =
  Printf.sprintf "%s %s pend=%s unr=%s gil=%s viol=%d"
    (if o.o_err then "E" else "O") (string_of_cval o.o_val)
    (match o.o_st.pending with None -> "-" | Some e -> string_of_z e)
    (string_of_zlist o.o_st.unraisable) (string_of_bool o.o_st.gil) (int_of_nat o.o_st.viol)

let st0 pend caller_nogil = { pending = pending_of pend; unraisable = []; gil = not (bool_of_string caller_nogil); viol = O }

let ity_of s = match sp ':' s with
  | [w; sg] -> { iw = z_of_string w; isg = bool_of_string sg }
  | _ -> failwith ("ity " ^ s)
let ity_opt s = if s = "-" then None else Some (ity_of s)
let suf_of = function "n" -> SufNone | "l" -> SufL | "u" -> SufU | "ul" -> SufUL | s -> failwith ("suf " ^ s)
let string_of_suf = function SufNone -> "n" | SufL -> "l" | SufU -> "u" | SufUL -> "ul"
let expr_of s =
  let rec go = function
    | [] -> failwith "expr: empty"
    | t :: rest ->
      (match sp ':' t with
       | ["dec"; n; su] -> (CDec (z_of_string n, suf_of su), rest)
       | ["hex"; n; su] -> (CHex (z_of_string n, suf_of su), rest)
       | ["int"; v] -> (CInt (z_of_string v), rest)
       | ["neg"] -> let (a, r) = go rest in (CNeg a, r)
       | ["add"] -> let (a, r) = go rest in let (b, r2) = go r in (CAdd (a, b), r2)
       | ["sub"] -> let (a, r) = go rest in let (b, r2) = go r in (CSub (a, b), r2)
       | ["mul"] -> let (a, r) = go rest in let (b, r2) = go r in (CMul (a, b), r2)
       | ["cast"; w; sg] -> let (a, r) = go rest in (CCast ({ iw = z_of_string w; isg = bool_of_string sg }, a), r)
       | _ -> failwith ("expr token " ^ t)) in
  match go (sp ',' s) with (e, []) -> e | _ -> failwith "expr: trailing tokens"
let rec string_of_expr = function
  | CDec (n, su) -> "dec:" ^ string_of_z n ^ ":" ^ string_of_suf su
  | CHex (n, su) -> "hex:" ^ string_of_z n ^ ":" ^ string_of_suf su
  | CInt v -> "int:" ^ string_of_z v
  | CNeg a -> "neg," ^ string_of_expr a
  | CAdd (a, b) -> "add," ^ string_of_expr a ^ "," ^ string_of_expr b
  | CSub (a, b) -> "sub," ^ string_of_expr a ^ "," ^ string_of_expr b
  | CMul (a, b) -> "mul," ^ string_of_expr a ^ "," ^ string_of_expr b
  | CCast (t, a) -> "cast:" ^ string_of_z t.iw ^ ":" ^ string_of_bool t.isg ^ "," ^ string_of_expr a
let fty_opt = function "-" -> None | "32" -> Some F32 | "64" -> Some F64 | s -> failwith ("fty " ^ s)
let to_f32 (x : float) : float = Int32.float_of_bits (Int32.bits_of_float x)
let feq (a : float) (b : float) : bool = (a = b)

let handle = function
  | ["norm"; f; k; c] ->
      (match normalise (flags_of f) (kind_of k) (clause_of c) with None -> "ERR" | Some s -> string_of_spec s)
  | ["obs"; psp; fsp; k; fl; cn; b; pend] ->
      string_of_obs (observe_via (spec_of psp) (spec_of fsp) (kind_of k) (flavour_of fl) (bool_of_string cn)
                       (body_of b) (st0 pend cn))
  | ["doc"; fsp; k; b; pend; cn] ->
      string_of_obs (documented (spec_of fsp) (kind_of k) (body_of b) (st0 pend cn))
  | ["compat"; a; b] -> string_of_bool (exc_compatible (spec_of a) (spec_of b))
  | ["wf"; s; k] -> string_of_bool (wf_specb (spec_of s) (kind_of k))
  | ["ctest"; k; s; r] ->
      (match sent_of s with Some se -> string_of_bool (c_test (kind_of k) se (cval_of r)) | None -> "!ERR nosent")
  | ["ceval"; e] ->
      (match ceval (expr_of e) with
       | Some (t, v) -> string_of_z t.iw ^ ":" ^ string_of_bool t.isg ^ ":" ^ string_of_z v
       | None -> "UNDEF")
  | ["emit"; tc; e] -> string_of_expr (emitted (ity_opt tc) (expr_of e))
  | ["vtest"; rt; tc; e; rs] ->
      let rt = ity_of rt and tc = ity_opt tc and e = expr_of e in
      String.concat "" (List.map (fun r ->
        match eq_test rt (z_of_string r) (emitted tc e) with Some true -> "1" | Some false -> "0" | None -> "?")
        (sp ',' rs))
  | ["vstored"; rt; e] ->
      (match stored (ity_of rt) (expr_of e) with Some v -> string_of_z v | None -> "UNDEF")
  | ["vspec"; tc; rt; e; ck] ->
      (match site_spec (ity_opt tc) (ity_of rt) (expr_of e) (chk_of ck) with
       | Some s -> string_of_spec s | None -> "UNDEF")
  | ["vobs"; tc; rt; e; ck; fl; cn; b; pend] ->
      (match observe_value (ity_opt tc) (ity_of rt) (expr_of e) (chk_of ck) (flavour_of fl) (bool_of_string cn)
               (body_of b) (st0 pend cn) with
       | Some o -> string_of_obs o | None -> "UNDEF")
  | ["ftest"; m; tc; c; rs] ->
      let c = float_of_string c in
      String.concat "" (List.map (fun r ->
        string_of_bool (float_test feq to_f32 (bool_of_string m) (fty_opt tc) c (float_of_string r))) (sp ',' rs))
  | ["fstored"; rt; c] ->
      (match fty_opt rt with
       | Some t -> Printf.sprintf "%h" (float_stored to_f32 t (float_of_string c))
       | None -> "!ERR fty")
  | _ -> "!ERR badcmd"

let () = main_loop handle
