(* driver for m_cmath: <op> <w> <s> <bconst> <a> <b> *)
let string_of_outcome = function
  | Value v -> "V " ^ string_of_z v
  | ZeroDivisionError -> "ZeroDivisionError"
  | OverflowError -> "OverflowError"
  | UB -> "UB"

let dk = function "run" -> DRun | "opq" -> DOpaque | c -> DNum (z_of_string c)

let handle = function
  | ["div_int"; w; s; bc; a; b] ->
      string_of_z (div_int (z_of_string w) (bool_of_string s) (bool_of_string bc) (z_of_string a) (z_of_string b))
  | ["mod_int"; w; s; bc; a; b] ->
      string_of_z (mod_int (z_of_string w) (bool_of_string s) (bool_of_string bc) (z_of_string a) (z_of_string b))
  | ["cdiv_c"; w; s; a; b] -> string_of_z (cdiv_c (z_of_string w) (bool_of_string s) (z_of_string a) (z_of_string b))
  | ["cmod_c"; w; s; a; b] -> string_of_z (cmod_c (z_of_string w) (bool_of_string s) (z_of_string a) (z_of_string b))
  | ["div_node"; g; w; s; bc; a; b] ->
      string_of_outcome (div_node (bool_of_string g) (z_of_string w) (bool_of_string s) (bool_of_string bc) (z_of_string a) (z_of_string b))
  | ["mod_node"; w; s; bc; a; b] ->
      string_of_outcome (mod_node (z_of_string w) (bool_of_string s) (bool_of_string bc) (z_of_string a) (z_of_string b))
  (* decision table of DivNode / ModNode (M_DivNode):
       <zc> <oq> <cdir> <cforced> ... ; divisor kind: run | opq | <integer constant> *)
  | ["decisions"; zc; oq; cd; cf; im; s; d] ->
      let (((z, m), c), k) = decisions {zc = bool_of_string zc; oq = bool_of_string oq}
          {cdir = bool_of_string cd; cforced = bool_of_string cf} (bool_of_string im) (bool_of_string s) (dk d) in
      String.concat " " (List.map (fun b -> if b then "1" else "0") [z; m; c; k])
  | ["div_stmt"; zc; oq; cd; cf; w; s; d; a; b] ->
      string_of_outcome (div_stmt {zc = bool_of_string zc; oq = bool_of_string oq}
          {cdir = bool_of_string cd; cforced = bool_of_string cf} (z_of_string w) (bool_of_string s) (dk d)
          (z_of_string a) (z_of_string b))
  | ["mod_stmt"; zc; oq; cd; cf; w; s; d; a; b] ->
      string_of_outcome (mod_stmt {zc = bool_of_string zc; oq = bool_of_string oq}
          {cdir = bool_of_string cd; cforced = bool_of_string cf} (z_of_string w) (bool_of_string s) (dk d)
          (z_of_string a) (z_of_string b))
  | ["divmod"; g; w; s; a; b] ->
      string_of_outcome (divmod_q (bool_of_string g) (z_of_string w) (bool_of_string s) (z_of_string a) (z_of_string b)) ^ " | " ^
      string_of_outcome (divmod_r (bool_of_string g) (z_of_string w) (bool_of_string s) (z_of_string a) (z_of_string b))
  | ["div_no_ovf"; w; s; bc; a; b] ->
      string_of_bool (div_int_no_overflow (z_of_string w) (bool_of_string s) (bool_of_string bc) (z_of_string a) (z_of_string b))
  | ["sh_cdiv"; a; b] -> string_of_z (sh_cdiv (z_of_string a) (z_of_string b))
  | ["sh_cmod"; a; b] -> string_of_z (sh_cmod (z_of_string a) (z_of_string b))
  | _ -> "!ERR badcmd"

let () = main_loop handle
