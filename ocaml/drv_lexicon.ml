(* driver for m_lexicon (property C43).  Texts are comma separated character codes.
     kind <fixed> <codes>       -> lexicon token kind (1 INT 2 FLOAT 3 IMAG 0 none) and Python grammar kind
     decode <lim> <codes>       -> "ok <v>" | "baddigit" | "toolong"  (strip_underscores, suffix, str_to_number)
     outcome <checked> <lim> <codes> -> "accepted <v>" | "error" | "crash"
     value <codes>              -> the IntNode.value text
     strbegin <codes>           -> lexicon / python booleans
     dots <fixed> <n>           -> "<scan>|<spec>|<level>": token lengths of a run of n dots by the longest-match scan with the
                                   model rules, by the closed form n/3 x '...' ++ n mod 3 x '.', and the import level *)
let handle = function
  | ["kind"; fx; t] ->
      let t = zlist_of_string t in
      string_of_z (x_token_kind (bool_of_string fx) t) ^ " " ^ string_of_z (x_py_kind t)
  | ["decode"; lim; t] ->
      (match decode_int_token (z_of_string lim) (zlist_of_string t) with
       | S2N v -> "ok " ^ string_of_z v | S2N_BadDigit -> "baddigit" | S2N_TooLong -> "toolong")
  | ["outcome"; ck; lim; t] ->
      (match int_token_outcome (bool_of_string ck) (z_of_string lim) (zlist_of_string t) with
       | Accepted v -> "accepted " ^ string_of_z v | PositionedError -> "error" | InternalCrash -> "crash")
  | ["value"; t] -> string_of_zlist (int_token_value (zlist_of_string t))
  | ["strbegin"; t] ->
      let (a, b) = x_strbegin (zlist_of_string t) in string_of_bool a ^ " " ^ string_of_bool b
  | ["dots"; fx; n] ->
      let n = nat_of_int (int_of_string n) in
      let show l = String.concat " " (List.map (fun k -> string_of_int (int_of_nat k)) l) in
      show (x_scan_dots (S n) (bool_of_string fx) n) ^ "|" ^ show (dot_tokens n) ^ "|"
      ^ string_of_int (int_of_nat (import_level (dot_tokens n)))
  | _ -> "!ERR badcmd"
let () = main_loop handle
