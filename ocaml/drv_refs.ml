(* driver for m_refs
   run <k> <decisions|-> <prefix tokens of a block>   ->  "ok|err <events>"   k = 0: no fault; k >= 1: k-th call fails
   nanny <objs> <events>                              ->  "<errs> <leaks>"    events: +n / -n                      *)
let ni s = nat_of_int (int_of_string s)

let rec p_expr toks = match toks with
  | "arg" :: i :: r -> (EArg (ni i), r)
  | "loc" :: i :: r -> (ELoc (ni i), r)
  | "op" :: n :: r -> let (es, r) = p_exprs (int_of_string n) r in (EOp es, r)
  | "seq" :: n :: r -> let (es, r) = p_exprs (int_of_string n) r in (ESeq es, r)
  | "call" :: r -> let (f, r) = p_expr r in
      (match r with n :: r -> let (es, r) = p_exprs (int_of_string n) r in (ECall (f, es), r)
                  | _ -> failwith "call")
  | _ -> failwith "expr"
and p_exprs n toks =
  if n = 0 then (ENil, toks) else
    let (e, r) = p_expr toks in let (es, r) = p_exprs (n - 1) r in (ECons (e, es), r)

let rec p_block toks = match toks with
  | "blk" :: n :: r -> p_stmts (int_of_string n) r
  | _ -> failwith "blk"
and p_stmts n toks =
  if n = 0 then (SSkip, toks) else
    let (s, r) = p_stmt toks in let (ss, r) = p_stmts (n - 1) r in (SSeq (s, ss), r)
and p_stmt toks = match toks with
  | "assign" :: x :: r -> let (e, r) = p_expr r in (SAssign (ni x, e), r)
  | "expr" :: r -> let (e, r) = p_expr r in (SExpr e, r)
  | "ret" :: r -> let (e, r) = p_expr r in (SReturn e, r)
  | "store" :: vl :: n :: r ->
      let (v, r) = p_expr r in let (es, r) = p_exprs (int_of_string n) r in (SStore (v, es, vl = "1"), r)
  | "if" :: r -> let (c, r) = p_expr r in let (a, r) = p_block r in let (b, r) = p_block r in (SIf (c, a, b), r)
  | "for" :: x :: r -> let (e, r) = p_expr r in let (b, r) = p_block r in (SFor (ni x, e, b), r)
  | "break" :: r -> (SBreak, r)
  | "continue" :: r -> (SContinue, r)
  | _ -> failwith "stmt"

let ev_str = function Got o -> "+" ^ string_of_int (int_of_nat o) | Give o -> "-" ^ string_of_int (int_of_nat o)
let ev_of s = let n = ni (String.sub s 1 (String.length s - 1)) in if s.[0] = '+' then Got n else Give n

let why_str = function NullUse -> "NullUse" | NullDecref -> "NullDecref" | TooManyDecref -> "TooManyDecref"
  | UseDead -> "UseDead" | Overwrite -> "Overwrite" | BadJump -> "BadJump"

let handle = function
  | "run" :: k :: dec :: toks ->
      let (b, rest) = p_block toks in
      if rest <> [] then "!ERR trailing" else
      let k = int_of_string k in
      let dec = List.map ni (split_on ',' dec) in
      let o = orc_of (if k = 0 then None else Some (nat_of_int (k - 1))) dec in
      (match run_fun o (nat_of_int 1000) (nat_of_int 5) (gen_fun (nat_of_int 4) b) with
       | Done (ret, s) -> (if ret then "ok" else "err") ^ " " ^
           (match List.rev s.tr with [] -> "-" | l -> String.concat " " (List.map ev_str l))
       | FStuck w -> "stuck " ^ why_str w
       | FFuel -> "fuel")
  | ["nanny"; objs; evs] ->
      let (e, l) = nanny_report (List.map ev_of (split_on ',' evs)) (List.map ni (split_on ',' objs)) in
      string_of_int (int_of_nat e) ^ " " ^ (if l = [] then "-" else String.concat "," (List.map (fun n -> string_of_int (int_of_nat n)) l))
  | ["exitorder"; late; test] ->
      String.concat "," (List.map (fun n -> string_of_int (int_of_nat n)) (exit_order (late = "1") (test = "1")))
  | ["exitcall"; late; test; k] ->
      (* exit_var = temp 0 (object 10), args tuple = temp 1 (object 11) when test; k = failing call (0 none) *)
      let k = int_of_string k in
      let o = orc_of (if k = 0 then None else Some (nat_of_int (k - 1))) [nat_of_int 0; nat_of_int 1] in
      let st = { temps = (if test = "1" then [(nat_of_int 1, nat_of_int 11); (nat_of_int 0, nat_of_int 10)]
                          else [(nat_of_int 0, nat_of_int 10)]);
                 locs = []; res = None;
                 tr = (if test = "1" then [Got (nat_of_int 11); Got (nat_of_int 10)] else [Got (nat_of_int 10)]);
                 nxt = nat_of_int 12; calls = nat_of_int 0; allocs = nat_of_int 0; flag = false } in
      let show tag s = tag ^ " " ^ String.concat " " (List.map ev_str (List.rev s.tr)) in
      (match exit_call o (late = "1") (test = "1") (nat_of_int 0) (if test = "1" then [nat_of_int 1] else []) st with
       | Norm s -> show (if s.flag then "true" else "false") s
       | Err s -> show "err" s
       | Stuck w -> "stuck " ^ why_str w
       | _ -> "other")
  | _ -> "!ERR badcmd"

let () = main_loop handle
