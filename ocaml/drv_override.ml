(* hierarchy: classes separated by ';', each  kind,mro,decl,decldict,dictkind
     kind E|P ; mro = ids joined by '.' ; decl c | n | d<tag> ; decldict 0|1 ; dictkind N|E|M
   ops: SC:c:F:n  SC:c:W:k  DC:c  N:c  SI:o:n  DI:o  CP:o  CC:o  CV:c:o
   commands:  cy <cached> <fx> <hier> <op>...   |  py <hier> <op>...  |  info <hier>  *)
let nat s = nat_of_int (int_of_string s)
let parse_cls s = match String.split_on_char ',' s with
  | [k; mro; d; dd; dk] ->
      { ckind = (match k with "E" -> Ext | "P" -> Py | _ -> failwith "kind");
        cmro = List.map nat (String.split_on_char '.' mro);
        cdecl = (if d = "c" then MCpdef else if d = "n" then MNone
                 else MDef (z_of_string (String.sub d 1 (String.length d - 1))));
        cdecl_dict = (dd = "1");
        cdictk = (match dk with "N" -> NoDict | "E" -> Eager | "M" -> Managed | _ -> failwith "dictkind") }
  | _ -> failwith "cls"
let parse_hier s = List.map parse_cls (String.split_on_char ';' s)
let parse_op s = match String.split_on_char ':' s with
  | ["SC"; c; "F"; n] -> SetClass (nat c, Fn (z_of_string n))
  | ["SC"; c; "W"; k] -> SetClass (nat c, Wrap (nat k))
  | ["DC"; c] -> DelClass (nat c)
  | ["N"; c] -> New (nat c)
  | ["SI"; o; n] -> SetInst (nat o, z_of_string n)
  | ["DI"; o] -> DelInst (nat o)
  | ["CP"; o] -> CallPy (nat o)
  | ["CC"; o] -> CallC (nat o)
  | ["CV"; c; o] -> CallVia (nat c, nat o)
  | _ -> failwith "op"
let show = function
  | RBody k -> "B" ^ string_of_int (int_of_nat k)
  | RFn n -> "F" ^ string_of_z n
  | RTypeError -> "TE" | RAttrError -> "AE" | RInvalid -> "INV"
let out rs = if rs = [] then "-" else String.concat "," (List.map show rs)
(* vtable part.  chain: items `id,decl` joined by ';' ; decl = n | c<k>[f] | p<k>[f]  (cdef / cpdef with k optional
   arguments, f = final); vd: decls joined by ';' ; extra op  CT:t:o  (C call through static type t)
   commands:  vt <askip> <chain> | vcall <askip> <chain> <t> | vref <chain> <t> | site <chain> <t>
              | vcy <askip> <cached> <fx> <hier> <vd> <op>... | vpy <hier> <vd> <op>... | vinfo <hier> <vd> *)
let parse_decl d =
  if d = "n" then VNone else
  let fin = d.[String.length d - 1] = 'f' in
  let body = if fin then String.sub d 0 (String.length d - 1) else d in
  VDecl ((body.[0] = 'p'), nat (String.sub body 1 (String.length body - 1)), fin)
let parse_chain s = List.map (fun it -> match String.split_on_char ',' it with
  | [i; d] -> (nat i, parse_decl d) | _ -> failwith "chain") (String.split_on_char ';' s)
let parse_vd s = List.map parse_decl (String.split_on_char ';' s)
let parse_vop s = match String.split_on_char ':' s with
  | ["CT"; t; o] -> VCallT (nat t, nat o)
  | _ -> VBase (parse_op s)
let si n = string_of_int (int_of_nat n)
let show_sk = function SkNone -> "-" | SkFwd -> "fwd" | SkConst b -> if b then "1" else "0"
let show_oa = function OpNone -> "-" | OpFwd -> "fwd" | OpNull -> "NULL"
let show_ent = function EImpl k -> "I" ^ si k | EAdapt (k, sk, oa) -> "A" ^ si k ^ "/" ^ show_sk sk ^ "/" ^ show_oa oa
let show_slot s = String.concat ":" [si s.s_cls; (if s.s_ov then "p" else "c"); si s.s_nopt; (if s.s_fin then "f" else "-"); show_ent s.s_ent]
let show_vres = function None -> "-" | Some (VBody k) -> "B" ^ si k | Some (VEntry (k, sk)) -> "E" ^ si k ^ "/" ^ (if sk then "1" else "0")
let handle = function
  | ["vt"; a; ch] -> let vt = build (bool_of_string a) (parse_chain ch) [] in
      if vt = [] then "-" else String.concat " " (List.rev_map show_slot vt)
  | ["vcall"; a; ch; t] -> show_vres (vt_call (bool_of_string a) (parse_chain ch) (nat t))
  | ["vref"; ch; t] -> show_vres (vt_ref (parse_chain ch) (nat t))
  | ["site"; ch; t] -> (match split_at (nat t) (parse_chain ch) with
      | Some (pre, _) -> (match build false pre [] with s :: _ -> show_slot s | [] -> "-")
      | None -> "-")
  | ["wfchain"; ch] -> string_of_bool (wf_chain (parse_chain ch) None)
  | "vcy" :: a :: c :: fx :: hs :: vd :: ops ->
      let h = parse_hier hs in
      out (vrun_cy (bool_of_string a) (bool_of_string c) (bool_of_string fx) h (parse_vd vd) (w0 h) (List.map parse_vop ops))
  | "vpy" :: hs :: vd :: ops ->
      let h = parse_hier hs in out (vrun_py h (parse_vd vd) (p0 h) (List.map parse_vop ops))
  | ["vinfo"; hs; vd] ->
      let h = parse_hier hs in
      Printf.sprintf "wf=%s wfvt=%s noextdef=%s" (string_of_bool (wf_hier h)) (string_of_bool (wf_vt h (parse_vd vd))) (string_of_bool (no_ext_def h))
  | "cy" :: c :: fx :: hs :: ops ->
      let h = parse_hier hs in
      out (run_cy (bool_of_string c) (bool_of_string fx) h (w0 h) (List.map parse_op ops))
  | "py" :: hs :: ops ->
      let h = parse_hier hs in out (run_py h (p0 h) (List.map parse_op ops))
  | ["info"; hs] ->
      let h = parse_hier hs in
      Printf.sprintf "wf=%s noextdef=%s pre=%s vslot=%s" (string_of_bool (wf_hier h)) (string_of_bool (no_ext_def h))
        (String.concat "" (List.mapi (fun i _ -> string_of_bool (prefilter h (nat_of_int i))) h))
        (String.concat "." (List.mapi (fun i _ -> match vslot h (nat_of_int i) with
                                                   | Some k -> string_of_int (int_of_nat k) | None -> "x") h))
  | _ -> "!ERR badcmd"
let () = main_loop handle
