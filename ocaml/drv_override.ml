(* hierarchy: classes separated by ';', each  kind,mro,decl,decldict,dictkind
     kind E|P ; mro = ids joined by '.' ; decl c | n | d<tag> ; decldict 0|1 ; dictkind N|E|M
   ops: SC:c:F:n  SC:c:W:k  DC:c  N:c  SI:o:n  DI:o  CP:o  CC:o  CV:c:o
   commands:  cy <cached> <fx> <hier> <op>...   |  py <hier> <op>...  |  info <hier>  *)
let nat s = nat_of_int (int_of_string s)
let parse_cls s = match String.split_on_char ',' s with
  | [k; mro; d; dd; dk] ->
      { ckind = (match k with "E" -> Ext | "P" -> Py | _ -> failwith "kind");
        cmro = List.map nat (String.split_on_char '.' mro);
        cdecl = (if d = "c" then MCpdef else if d = "n" then MNone
                 else MDef (z_of_string (String.sub d 1 (String.length d - 1))));
        cdecl_dict = (dd = "1");
        cdictk = (match dk with "N" -> NoDict | "E" -> Eager | "M" -> Managed | _ -> failwith "dictkind") }
  | _ -> failwith "cls"
let parse_hier s = List.map parse_cls (String.split_on_char ';' s)
let parse_op s = match String.split_on_char ':' s with
  | ["SC"; c; "F"; n] -> SetClass (nat c, Fn (z_of_string n))
  | ["SC"; c; "W"; k] -> SetClass (nat c, Wrap (nat k))
  | ["DC"; c] -> DelClass (nat c)
  | ["N"; c] -> New (nat c)
  | ["SI"; o; n] -> SetInst (nat o, z_of_string n)
  | ["DI"; o] -> DelInst (nat o)
  | ["CP"; o] -> CallPy (nat o)
  | ["CC"; o] -> CallC (nat o)
  | ["CV"; c; o] -> CallVia (nat c, nat o)
  | _ -> failwith "op"
let show = function
  | RBody k -> "B" ^ string_of_int (int_of_nat k)
  | RFn n -> "F" ^ string_of_z n
  | RTypeError -> "TE" | RAttrError -> "AE" | RInvalid -> "INV"
let out rs = if rs = [] then "-" else String.concat "," (List.map show rs)
let handle = function
  | "cy" :: c :: fx :: hs :: ops ->
      let h = parse_hier hs in
      out (run_cy (bool_of_string c) (bool_of_string fx) h (w0 h) (List.map parse_op ops))
  | "py" :: hs :: ops ->
      let h = parse_hier hs in out (run_py h (p0 h) (List.map parse_op ops))
  | ["info"; hs] ->
      let h = parse_hier hs in
      Printf.sprintf "wf=%s noextdef=%s pre=%s vslot=%s" (string_of_bool (wf_hier h)) (string_of_bool (no_ext_def h))
        (String.concat "" (List.mapi (fun i _ -> string_of_bool (prefilter h (nat_of_int i))) h))
        (String.concat "." (List.mapi (fun i _ -> match vslot h (nat_of_int i) with
                                                   | Some k -> string_of_int (int_of_nat k) | None -> "x") h))
  | _ -> "!ERR badcmd"
let () = main_loop handle
