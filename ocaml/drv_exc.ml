(* driver for m_exc:  ref <ctx> <program tokens>   |   sch <fx> <sx> <ctx> <program tokens>
                     lab <late_switch> <fx> <sx> <ctx> <program tokens>   (label-level code, M_ExcLab)
                     sites <program tokens>   (error label of every block marker, emission order)
                     tmp <keep> <fx> <sx> <ctx> <program tokens>   (temp-level code, M_ExcVars)
                     evres <keep> <program tokens>   (static resolution of every reader of exception
                        temps in emission order: b:<id> / w:<id> / b:- ; id = preorder number of the
                        allocating construct)
   ctx: 0 = nothing handled at entry, 1 = called inside a handler (top item = outer exception),
        2 = called from a generator frame inside a handler (top item empty, outer underneath) *)
let ni s = nat_of_int (int_of_string s)

let rec p_stmt = function
  | "skip" :: r -> (SSkip, r)
  | "log" :: n :: r -> (SLog (ni n), r)
  | "probe" :: r -> (SProbe, r)
  | "raise" :: r -> let (w, r) = p_what r in let (c, r) = p_cause r in (SRaise (w, c), r)
  | "reraise" :: r -> (SReraise, r)
  | "seq" :: r -> let (a, r) = p_stmt r in let (b, r) = p_stmt r in (SSeq (a, b), r)
  | "try" :: r -> let (b, r) = p_stmt r in
      (match r with
       | n :: r -> let (hs, r) = p_handlers (int_of_string n) r in
                   let (e, r) = p_stmt r in (STry (b, hs, e), r)
       | _ -> failwith "try")
  | "fin" :: r -> let (a, r) = p_stmt r in let (b, r) = p_stmt r in (SFinally (a, b), r)
  | "with" :: k :: r -> let (x, r) = p_xk r in let (b, r) = p_stmt r in (SWith (ni k, x, b), r)
  | "loop" :: n :: r -> let (b, r) = p_stmt r in (SLoop (ni n, b), r)
  | "ret" :: r -> (SReturn, r)
  | "brk" :: r -> (SBreak, r)
  | "cont" :: r -> (SContinue, r)
  | _ -> failwith "stmt"
and p_what = function
  | "new" :: c :: r -> (RNew (ni c), r)
  | "var" :: x :: r -> (RVar (ni x), r)
  | _ -> failwith "what"
and p_cause = function
  | "nocause" :: r -> (NoCause, r)
  | "fromnone" :: r -> (FromNone, r)
  | "fromnew" :: c :: r -> (FromNew (ni c), r)
  | "fromvar" :: x :: r -> (FromVar (ni x), r)
  | _ -> failwith "cause"
and p_xk = function
  | "xpass" :: r -> (XPass, r)
  | "xswallow" :: r -> (XSwallow, r)
  | "xraise" :: c :: r -> (XRaise (ni c), r)
  | _ -> failwith "xk"
and p_handlers n r =
  if n = 0 then (HNil, r) else
  let (pat, r) = (match r with "any" :: r -> (None, r) | "p" :: c :: r -> (Some (ni c), r) | _ -> failwith "pat") in
  let (nm, r) = (match r with "noname" :: r -> (None, r) | "as" :: x :: r -> (Some (ni x), r) | _ -> failwith "name") in
  let (b, r) = p_stmt r in
  let (tl, r) = p_handlers (n - 1) r in
  (HCons (pat, nm, b, tl), r)

let cls_name c = match c with 0 -> "Exception" | 1 -> "RuntimeError" | 2 -> "UnboundLocalError"
  | n -> "E" ^ string_of_int n

(* canonical description of an exception: class, creation serial (user-created ones), chain *)
let describe (h : eobj list) (e : nat option) : string =
  let serial i =
    let rec go j l acc = match l with
      | [] -> acc
      | o :: t -> if j >= i then acc else go (j + 1) t (if o.e_user then acc + 1 else acc) in
    go 0 h 0 in
  let rec d depth e = match e with
    | None -> "-"
    | Some n ->
      if depth = 0 then "~" else
      let i = int_of_nat n in
      let o = get h n in
      Printf.sprintf "%s:%s{c=%s;x=%s;s=%d}" (cls_name (int_of_nat o.e_cls))
        (if o.e_user then string_of_int (serial i) else "i")
        (d (depth - 1) o.e_cause) (d (depth - 1) o.e_ctx) (if o.e_supp then 1 else 0) in
  d 4 e

let ev_str = function
  | EvLog n -> "B" ^ string_of_int (int_of_nat n)
  | EvProbe (hd, snap) -> "P[" ^ describe snap hd ^ "]"
  | EvEnter k -> "N" ^ string_of_int (int_of_nat k)
  | EvExit (k, arg, hd, snap) ->
      "X" ^ string_of_int (int_of_nat k) ^ "[" ^ describe snap arg ^ "|" ^ describe snap hd ^ "]"

let init ctx =
  let outer = { e_cls = nat_of_int 9; e_user = true; e_ctx = None; e_cause = None; e_supp = false } in
  match ctx with
  | "0" -> ([], None, None)
  | "1" -> ([outer], Some O, None)
  | "2" -> ([outer], None, Some O)
  | _ -> failwith "ctx"

let show (o, st) =
  let h = st.co.heap in
  let oc = match o with
    | ONorm -> "norm" | ORet -> "ret" | OBrk -> "brk" | OCont -> "cont" | OCrash -> "crash"
    | ORaise e -> "raise[" ^ describe h (Some e) ^ "]" in
  let names = String.concat "," (List.map (fun (x, _) -> string_of_int (int_of_nat x)) st.co.env) in
  String.concat " " (List.map ev_str st.co.log) ^ " => " ^ oc ^ " after=" ^ describe h (handled st)
    ^ " slot=" ^ describe h st.top ^ " names=" ^ names

(* every block marker (LLog n) of the generated label code with the error label current at its
   position: "n:label:kind", in emission order, all copies of finally clauses included.
   kind = the name Cython gives the label (error / except_error) *)
let sites (s : stmt) : string =
  let kinds : (int, string) Hashtbl.t = Hashtbl.create 64 in
  let setk l k = Hashtbl.replace kinds (int_of_nat l) k in
  setk g_fun.g_err "error";
  let out = Buffer.create 256 in
  let rec go = function
    | LLog (n, l) ->
        let li = int_of_nat l in
        Buffer.add_string out (Printf.sprintf "%d:%d:%s " (int_of_nat n) li
          (try Hashtbl.find kinds li with Not_found -> "?"))
    | LSeq (a, b) -> go a; go b
    | LTry (tl, body, hs, orelse) ->
        setk tl.t_our_err "error"; setk tl.t_exc_err "except_error";
        go body; go orelse; goh hs
    | LFinally (_, fl, body, fnorm, fexc, fcont, fbrk, fret) ->
        setk fl.f_new_err "error"; setk fl.f_ex_err "error";
        go body; go fnorm; go fexc; go fcont; go fbrk; go fret
    | LLoop (_, _, _, body) -> go body
    | LWithScope (_, l, body) -> setk l "error"; go body
    | _ -> ()
  and goh = function
    | LHNil -> ()
    | LHCons (_, _, _, _, _, _, _, body, tl) -> go body; goh tl in
  go (fst (gen false (desugar s) g_fun));
  Buffer.contents out

let handle = function
  | "ref" :: ctx :: toks ->
      let (s, rest) = p_stmt toks in if rest <> [] then failwith "trailing" else
      let (h, t, b) = init ctx in show (run_ref s h t b)
  | "sch" :: fx :: sx :: ctx :: toks ->
      let (s, rest) = p_stmt toks in if rest <> [] then failwith "trailing" else
      let (h, t, b) = init ctx in show (run_sch (bool_of_string fx) (bool_of_string sx) s h t b)
  | "lab" :: late :: fx :: sx :: ctx :: toks ->
      let (s, rest) = p_stmt toks in if rest <> [] then failwith "trailing" else
      let (h, t, b) = init ctx in
      show (run_lab (bool_of_string late) (bool_of_string fx) (bool_of_string sx) s h t b)
  | "tmp" :: keep :: fx :: sx :: ctx :: toks ->
      let (s, rest) = p_stmt toks in if rest <> [] then failwith "trailing" else
      let (h, t, b) = init ctx in
      show (run_tmp (bool_of_string keep) (bool_of_string fx) (bool_of_string sx) s h t b)
  | "evres" :: keep :: toks ->
      let (s, rest) = p_stmt toks in if rest <> [] then failwith "trailing" else
      let pe = function None -> "-" | Some n -> string_of_int (int_of_nat n) in
      String.concat " " (List.map (function RBare ev -> "b:" ^ pe ev | RWith ev -> "w:" ^ pe ev)
                           (resolve (bool_of_string keep) s))
  | "sites" :: toks ->
      let (s, rest) = p_stmt toks in if rest <> [] then failwith "trailing" else
      sites s
  | _ -> "!ERR badcmd"

let () = main_loop handle
