(* driver for m_cstr.  Byte strings and texts travel as hex ("-" = empty).
   esc <hex>                 -> hex of escape_byte_string
   split <hextext> <limit>   -> hex of split_string_literal | FUEL | UNMODELLED
   lit <hex> <limit>         -> hex of as_c_string_literal | NONE
   escchar <n>               -> hex of escape_char
   chararr <hex>             -> hex of the char-array items text
   cread|creadchars <hextext> -> S <hex> | NONE ;  creadchar <hextext> -> S <n> | NONE
   qq <hextext>              -> <has_qq><contains_trigraph>
   sweep <prefixhex> <depth> <limit> -> <count> <bad> <md5 of all literal texts, each followed by \n>
        over all byte strings prefix ++ s, |s| = depth, in lexicographic order; bad counts strings
        whose literal does not c_read back to the string or has adjacent question marks *)
let opt_hex = function Some l -> "S " ^ hex_of_nbytes l | None -> "NONE"

let rec sweep_iter pre depth f =
  if depth = 0 then f (List.rev pre)
  else for b = 0 to 255 do sweep_iter (n_of_int b :: pre) (depth - 1) f done

let handle = function
  | ["esc"; h] -> hex_of_nbytes (escape_byte_string (nbytes_of_hex h))
  | ["split"; h; l] ->
      (match split_chunks (nbytes_of_hex h) (nat_of_int (int_of_string l)) with
       | Chunks cs -> hex_of_nbytes (join_chunks cs)
       | OutOfFuel -> "FUEL" | Unmodelled -> "UNMODELLED")
  | ["lit"; h; l] ->
      (match as_c_string_literal (nbytes_of_hex h) (nat_of_int (int_of_string l)) with
       | Some t -> hex_of_nbytes t | None -> "NONE")
  | ["escchar"; n] -> hex_of_nbytes (escape_char (n_of_string n))
  | ["chararr"; h] -> hex_of_nbytes (char_array_form (nbytes_of_hex h))
  | ["cread"; h] -> opt_hex (c_read (nbytes_of_hex h))
  | ["creadchars"; h] -> opt_hex (c_read_chars (nbytes_of_hex h))
  | ["creadchar"; h] -> (match c_read_char (nbytes_of_hex h) with Some b -> "S " ^ string_of_n b | None -> "NONE")
  | ["qq"; h] -> let t = nbytes_of_hex h in string_of_bool (has_qq t) ^ string_of_bool (contains_trigraph t)
  | ["sweep"; pre; d; l] ->
      let lim = nat_of_int (int_of_string l) in
      let buf = Buffer.create (1 lsl 20) in
      let cnt = ref 0 and bad = ref 0 in
      sweep_iter (List.rev (nbytes_of_hex pre)) (int_of_string d) (fun bs ->
        incr cnt;
        match as_c_string_literal bs lim with
        | None -> incr bad
        | Some t ->
            List.iter (fun c -> Buffer.add_char buf (Char.chr (int_of_n c))) t;
            Buffer.add_char buf '\n';
            if has_qq t || c_read t <> Some bs then incr bad);
      Printf.sprintf "%d %d %s" !cnt !bad (Digest.to_hex (Digest.string (Buffer.contents buf)))
  | _ -> "!ERR badcmd"

let () = main_loop handle
