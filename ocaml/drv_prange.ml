let opt f = function Some v -> f v | None -> "NONE"
let parse_ev s = match String.split_on_char ':' s with
  | ["E"; t; e] -> Err (nat_of_int (int_of_string t), z_of_string e)
  | ["X"; t; k] -> Exit (nat_of_int (int_of_string t), z_of_string k)
  | _ -> failwith "event"
let handle = function
  | ["nsteps"; a; b; s] -> opt string_of_z (nsteps (z_of_string a) (z_of_string b) (z_of_string s))
  | ["values"; a; b; s] -> opt string_of_zlist (prange_values (z_of_string a) (z_of_string b) (z_of_string s))
  | ["pyrange"; a; b; s] -> string_of_zlist (py_range (z_of_string a) (z_of_string b) (z_of_string s))
  | "protocol" :: evs ->
      let ((w, sv), rel) = finish (run (List.map parse_ev evs)) in
      string_of_z w ^ " " ^ opt string_of_z sv ^ " " ^ string_of_zlist rel
  | _ -> "!ERR badcmd"
let () = main_loop handle
