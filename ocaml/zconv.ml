(* Shared glue, textually concatenated after an extracted model (so the constructors
   XI/XO/XH, Z0/Zpos/Zneg, N0/Npos, O/S of *that* module are in scope) and before the
   per-property driver.  Z, N, positive stay the extracted Coq datatypes; decimal text is
   converted through zarith.  The correspondence itself exercises this codec in both
   directions on every number. *)

let rec pos_of_zt (v : ZA.t) : positive =
  if ZA.equal v ZA.one then XH
  else if ZA.is_odd v then XI (pos_of_zt (ZA.shift_right v 1))
  else XO (pos_of_zt (ZA.shift_right v 1))

let rec zt_of_pos (p : positive) : ZA.t =
  match p with
  | XH -> ZA.one
  | XO q -> ZA.shift_left (zt_of_pos q) 1
  | XI q -> ZA.succ (ZA.shift_left (zt_of_pos q) 1)

let z_of_zt (v : ZA.t) : z =
  if ZA.sign v = 0 then Z0 else if ZA.sign v > 0 then Zpos (pos_of_zt v) else Zneg (pos_of_zt (ZA.neg v))

let zt_of_z (v : z) : ZA.t =
  match v with Z0 -> ZA.zero | Zpos p -> zt_of_pos p | Zneg p -> ZA.neg (zt_of_pos p)

let n_of_zt (v : ZA.t) : n = if ZA.sign v = 0 then N0 else Npos (pos_of_zt v)
let zt_of_n (v : n) : ZA.t = match v with N0 -> ZA.zero | Npos p -> zt_of_pos p

let z_of_string s = z_of_zt (ZA.of_string s)
let string_of_z v = ZA.to_string (zt_of_z v)
let n_of_string s = n_of_zt (ZA.of_string s)
let string_of_n v = ZA.to_string (zt_of_n v)
let z_of_int i = z_of_zt (ZA.of_int i)
let int_of_z v = ZA.to_int (zt_of_z v)
let n_of_int i = n_of_zt (ZA.of_int i)
let int_of_n v = ZA.to_int (zt_of_n v)

let rec nat_of_int i = if i <= 0 then O else S (nat_of_int (i - 1))
let int_of_nat (x : nat) : int =
  let rec go acc = function O -> acc | S y -> go (acc + 1) y in go 0 x

let string_of_bool b = if b then "1" else "0"
let bool_of_string s = (s = "1" || s = "true" || s = "True")

(* lists: comma separated, "" or "-" = empty *)
let split_on c s = if s = "" || s = "-" then [] else String.split_on_char c s
let zlist_of_string s = List.map z_of_string (split_on ',' s)
let string_of_zlist l = if l = [] then "-" else String.concat "," (List.map string_of_z l)
let nlist_of_string s = List.map n_of_string (split_on ',' s)
let string_of_nlist l = if l = [] then "-" else String.concat "," (List.map string_of_n l)

(* byte strings as hex text <-> list of N (each < 256) or list of Z *)
let hexval c = match c with
  | '0'..'9' -> Char.code c - 48 | 'a'..'f' -> Char.code c - 87 | 'A'..'F' -> Char.code c - 55
  | _ -> failwith "hex"
let ints_of_hex s =
  let s = if s = "-" then "" else s in
  let n = String.length s / 2 in
  List.init n (fun i -> hexval s.[2*i] * 16 + hexval s.[2*i+1])
let hex_of_ints l =
  if l = [] then "-" else begin
    let b = Buffer.create (2 * List.length l) in
    List.iter (fun i -> Buffer.add_string b (Printf.sprintf "%02x" (i land 255))) l;
    Buffer.contents b end
let nbytes_of_hex s = List.map n_of_int (ints_of_hex s)
let hex_of_nbytes l = hex_of_ints (List.map int_of_n l)
let zbytes_of_hex s = List.map z_of_int (ints_of_hex s)
let hex_of_zbytes l = hex_of_ints (List.map int_of_z l)

(* main loop: [handle words] returns the result line *)
let main_loop (handle : string list -> string) =
  (try
    while true do
      let line = input_line stdin in
      let words = List.filter (fun w -> w <> "") (String.split_on_char ' ' line) in
      let res = (try handle words with
                 | Failure m -> "!ERR " ^ m
                 | Not_found -> "!ERR notfound"
                 | Stack_overflow -> "!ERR stackoverflow"
                 | Invalid_argument m -> "!ERR invalid " ^ m) in
      print_string res; print_char '\n'
    done
  with End_of_file -> ());
  flush stdout
