(* driver for m_lzss.  byte strings are hex text ("-" = empty)
     compress <hex>                 -> "C <hex>" | "IndexError"
     tokens <hex>                   -> "T <nlit> <n7> <n9> <n14> <maxeo> <maxlen>" | "IndexError"
     decompress <hex> <dst_len>     -> "OK <hex> <consumed>" | "OOB_src_read" | "OOB_dst_write" | "OOB_dst_ref"
     decstring <hex> <clen> <ulen>  -> "S <hex>" | "RuntimeError" | OOB_...
     roundtrip <hex>                -> "R <compressed hex> <1|0 decompress==data&&consumed==len> <decompress result tag>"
     emitted <hex>                  -> "1" | "0"
     packexp <tokens>               -> tokens "L<byte>" | "R<eo>:<len>" separated by ','   (refs encoded with
                                       encode_match; "!unencodable" if it says None):  "P <pack hex> <expand hex>" *)
let string_of_dres = function
  | DOk (out, consumed) -> "OK " ^ hex_of_zbytes out ^ " " ^ string_of_z consumed
  | OOB_src_read -> "OOB_src_read"
  | OOB_dst_write -> "OOB_dst_write"
  | OOB_dst_ref -> "OOB_dst_ref"

let zlen l = z_of_int (List.length l)

let tok_stats toks =
  let nl = ref 0 and n7 = ref 0 and n9 = ref 0 and n14 = ref 0 and meo = ref 0 and mlen = ref 0 in
  List.iter (function
    | TLit _ -> incr nl
    | TRef (eo, len, bs) ->
        let eo = int_of_z eo and len = int_of_z len in
        if eo > !meo then meo := eo;
        if len > !mlen then mlen := len;
        (match bs with
         | [_; _] -> if eo <= 127 then incr n7 else incr n9
         | _ -> incr n14)) toks;
  Printf.sprintf "T %d %d %d %d %d %d" !nl !n7 !n9 !n14 !meo !mlen

let parse_tok s =
  if s.[0] = 'L' then TLit (z_of_string (String.sub s 1 (String.length s - 1)))
  else begin
    let body = String.sub s 1 (String.length s - 1) in
    match String.split_on_char ':' body with
    | [eo; len] ->
        let eo = z_of_string eo and len = z_of_string len in
        (match encode_match (Z.add eo len) len with
         | Some bs -> TRef (eo, len, bs)
         | None -> failwith "unencodable")
    | _ -> failwith "badtoken"
  end

let handle = function
  | ["compress"; h] ->
      (match compress (zbytes_of_hex h) with Some c -> "C " ^ hex_of_zbytes c | None -> "IndexError")
  | ["tokens"; h] ->
      (match tokenize (zbytes_of_hex h) with Some t -> tok_stats t | None -> "IndexError")
  | ["decompress"; h; n] -> string_of_dres (decompress (zbytes_of_hex h) (z_of_string n))
  | ["decstring"; h; c; u] ->
      (match decompress_string (zbytes_of_hex h) (z_of_string c) (z_of_string u) with
       | SOk out -> "S " ^ hex_of_zbytes out
       | SRuntimeError -> "RuntimeError"
       | SOob r -> string_of_dres r)
  | ["roundtrip"; h] ->
      let data = zbytes_of_hex h in
      (match compress data with
       | None -> "IndexError"
       | Some c ->
           let r = decompress c (zlen data) in
           let ok = (match r with DOk (out, consumed) -> out = data && consumed = zlen c | _ -> false) in
           let tag = (match r with DOk _ -> "OK" | _ -> string_of_dres r) in
           "R " ^ hex_of_zbytes c ^ " " ^ string_of_bool ok ^ " " ^ tag)
  | ["emitted"; h] -> string_of_bool (lzss_emitted (zbytes_of_hex h))
  | ["packexp"; ts] ->
      let toks = List.map parse_tok (split_on ',' ts) in
      "P " ^ hex_of_zbytes (pack toks) ^ " " ^ hex_of_zbytes (expand toks)
  | _ -> "!ERR badcmd"

let () = main_loop handle
