let opt = function Some v -> string_of_z v | None -> "NONE"
let handle = function
  | ["int_pow"; w; s; b; e] -> opt (int_pow (z_of_string w) (bool_of_string s) (z_of_string b) (z_of_string e))
  | ["int_pow_ck"; f; w; s; b; e] ->
      (match int_pow_ck (bool_of_string f) (z_of_string w) (bool_of_string s) (z_of_string b) (z_of_string e) with
       | PVal v -> string_of_z v | PUB -> "UB" | PFuel -> "NONE")
  | ["pow2"; n] ->
      (match pow2 (z_of_string n) with
       | P2One -> "one" | P2Long v -> "long " ^ string_of_z v | P2ULL v -> "ull " ^ string_of_z v
       | P2Lshift k -> "lshift " ^ string_of_z k | P2Fallback -> "fallback")
  | ["pow2_value"; n] -> opt (pow2_value (z_of_string n))
  | _ -> "!ERR badcmd"
let () = main_loop handle
