let opt = function Some v -> string_of_z v | None -> "NONE"
let atype_of = function "AInt" -> AInt | "AUInt" -> AUInt | "AFloat" -> AFloat | s -> failwith ("atype " ^ s)
let opnd_of = function "AComplex" -> OComplex | "AObj" -> OObj | "APosFloat" -> OPosFloat | "APosIntConst" -> OPosIntConst | s -> OC (atype_of s)
let bkind_of = function
  | "BNegIntConst" -> BNegIntConst | "BNonNegIntConst" -> BNonNegIntConst | "BRuntimeSignedInt" -> BRuntimeSignedInt
  | "BRuntimeUnsignedInt" -> BRuntimeUnsignedInt | "BIntegralFloatConst" -> BIntegralFloatConst
  | "BFloatConst" -> BFloatConst | "BRuntimeFloat" -> BRuntimeFloat | s -> failwith ("bkind " ^ s)
let ekind_of = function "BComplexConst" -> EComplexConst | "BRuntimeComplex" -> ERuntimeComplex | "BObj" -> EObj | s -> EC (bkind_of s)
let cpow_of = function "CUnset" -> CUnset | "CTrue" -> CTrue | "CFalse" -> CFalse | s -> failwith ("cpow " ^ s)
let dest_of = function
  | "DNone" -> DNone | "DCInt" -> DCInt | "DCFloat" -> DCFloat | "DCComplex" -> DCComplex | "DPyObj" -> DPyObj
  | "DCastInt" -> DCastInt | "DCastFloat" -> DCastFloat | "DArithInt" -> DArithInt | "DArithFloat" -> DArithFloat
  | s -> failwith ("dest " ^ s)
let rtype_of = function
  | "RInt" -> RInt | "RFloat" -> RFloat | "RSoftComplex" -> RSoftComplex | "RComplex" -> RComplex | "RObj" -> RObj | _ -> ROther
let str_rtype = function
  | RInt -> "RInt" | RFloat -> "RFloat" | RSoftComplex -> "RSoftComplex" | ROther -> "ROther" | RComplex -> "RComplex" | RObj -> "RObj"
let str_delivery = function
  | VInt -> "VInt" | VFloat -> "VFloat" | VPyReal -> "VPyReal" | VPyComplex -> "VPyComplex" | VTypeError -> "VTypeError"
  | VNoValue -> "VNoValue"
let b01 b = if b then "1" else "0"
let str_outcome o = str_rtype o.o_type ^ " " ^ b01 o.o_rejected ^ " " ^ b01 o.o_warned
let handle = function
  | ["coerced"; c; a; b; d] -> (try str_outcome (pow_coerced (cpow_of c) (opnd_of a) (ekind_of b) (dest_of d)) with Failure m -> "!ERR " ^ m)
  | ["doc_coerced"; c; a; b; d] -> (try str_outcome (doc_coerced (cpow_of c) (opnd_of a) (ekind_of b) (dest_of d)) with Failure m -> "!ERR " ^ m)
  | ["deliver"; r; d; real] -> (try str_delivery (deliver (rtype_of r) (dest_of d) (bool_of_string real)) with Failure m -> "!ERR " ^ m)
  | ["int_pow"; w; s; b; e] -> opt (int_pow (z_of_string w) (bool_of_string s) (z_of_string b) (z_of_string e))
  | ["int_pow_ck"; f; w; s; b; e] ->
      (match int_pow_ck (bool_of_string f) (z_of_string w) (bool_of_string s) (z_of_string b) (z_of_string e) with
       | PVal v -> string_of_z v | PUB -> "UB" | PFuel -> "NONE")
  | ["pow2"; n] ->
      (match pow2 (z_of_string n) with
       | P2One -> "one" | P2Long v -> "long " ^ string_of_z v | P2ULL v -> "ull " ^ string_of_z v
       | P2Lshift k -> "lshift " ^ string_of_z k | P2Fallback -> "fallback")
  | ["pow2_value"; n] -> opt (pow2_value (z_of_string n))
  | _ -> "!ERR badcmd"
let () = main_loop handle
