(* driver for m_memslice.
   dim  <fx_clamp> <fx_ceil> <shape> <stride> <start|N> <stop|N> <step|N>  -> S <n> <stride> <off> | E <err>
   idx  <shape> <stride> <i>                                               -> I <off> | E IndexError
   nd   <fx_clamp> <fx_ceil> <sh:st;sh:st...|-> <ix;ix;...|->              -> OK <off> <sh:st;...|-> | E <err> | BAD
        ix ::= i<int> | s<a|N>:<b|N>:<c|N> | n | e
   spec <len> <a|N> <b|N> <c|N>       -> <n> <first> <step> | E ValueError     (py_slice_indices)
   ssz  <M> <len> <a|N> <b|N> <c|N>   -> same, through PySlice_Unpack + PySlice_AdjustIndices
   base <sh;sh..|-> <ix;...|-> <j;j..|->  -> <k;k;...|-> | NONE                  (base_index) *)
let oz_of_string s = if s = "N" then None else Some (z_of_string s)
let fx_of c e = { fx_clamp = bool_of_string c; fx_ceil = bool_of_string e }
let string_of_err = function IndexError -> "IndexError" | ValueError -> "ValueError"
let string_of_dim = function
  | DIndex o -> "I " ^ string_of_z o
  | DSlice (n, s, o) -> "S " ^ string_of_z n ^ " " ^ string_of_z s ^ " " ^ string_of_z o
  | DErr e -> "E " ^ string_of_err e
let semis s = if s = "" || s = "-" then [] else String.split_on_char ';' s
let dims_of_string s =
  List.map (fun t -> match String.split_on_char ':' t with
                     | [a; b] -> (z_of_string a, z_of_string b) | _ -> failwith "dims") (semis s)
let string_of_dims l =
  if l = [] then "-" else String.concat ";" (List.map (fun (a, b) -> string_of_z a ^ ":" ^ string_of_z b) l)
let ix_of_string t =
  if t = "n" then INewaxis else if t = "e" then IEllipsis
  else if t.[0] = 'i' then IInt (z_of_string (String.sub t 1 (String.length t - 1)))
  else if t.[0] = 's' then
    (match String.split_on_char ':' (String.sub t 1 (String.length t - 1)) with
     | [a; b; c] -> ISlice (oz_of_string a, oz_of_string b, oz_of_string c) | _ -> failwith "slice")
  else failwith "ix"
let string_of_triple = function
  | None -> "E ValueError"
  | Some ((n, f), st) -> string_of_z n ^ " " ^ string_of_z f ^ " " ^ string_of_z st

let handle = function
  | ["dim"; c; e; shape; stride; a; b; st] ->
      let a' = oz_of_string a and b' = oz_of_string b and s' = oz_of_string st in
      string_of_dim (slice_dim (fx_of c e) (z_of_string shape) (z_of_string stride)
                       (oz a') (oz b') (oz s') (have a') (have b') (have s'))
  | ["idx"; shape; stride; i] -> string_of_dim (index_dim (z_of_string shape) (z_of_string stride) (z_of_string i))
  | ["nd"; c; e; dims; ixs] ->
      (match getitem_nd (fx_of c e) (dims_of_string dims) (List.map ix_of_string (semis ixs)) with
       | NdOk (o, ds) -> "OK " ^ string_of_z o ^ " " ^ string_of_dims ds
       | NdErr er -> "E " ^ string_of_err er
       | NdBad -> "BAD")
  | ["spec"; len; a; b; c] ->
      string_of_triple (py_slice_indices (z_of_string len) (oz_of_string a) (oz_of_string b) (oz_of_string c))
  | ["ssz"; m; len; a; b; c] ->
      string_of_triple (py_slice_ssize (z_of_string m) (z_of_string len) (oz_of_string a) (oz_of_string b) (oz_of_string c))
  | ["base"; shs; ixs; js] ->
      (match base_index (List.map z_of_string (semis shs)) (List.map ix_of_string (semis ixs))
               (List.map z_of_string (semis js)) with
       | None -> "NONE"
       | Some l -> if l = [] then "-" else String.concat ";" (List.map string_of_z l))
  | _ -> "!ERR badcmd"

let () = main_loop handle
