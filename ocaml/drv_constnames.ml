(* driver for m_constnames (property C09, names / slots of numeric constants).
   Strings travel as hex ("-" = empty).  Events:
     R <i|l|f> <text>           numeric-constant request (int / long / float key)
     U <0|1> <pre> <post>       foreign unique_const_cname call, format pre{sep}{counter}post
   pool <with_counter> <event>*  ->  N <name>* | L <slot>* | R <slot index or ->* | V <value or ->*
     slot := <name>=F<code> | <name>=C<bytes>:<value> | <name>=X<base32 text> | <name>=B *)
let hexs s = zbytes_of_hex s
let shex l = hex_of_zbytes l

let ptype_of = function "i" -> PInt | "l" -> PLong | "f" -> PFloat | _ -> failwith "ptype"

let rec parse_events = function
  | [] -> []
  | "R" :: t :: text :: r -> EReq (hexs text, ptype_of t) :: parse_events r
  | "U" :: sep :: pre :: post :: r ->
      EUniq { f_pre = hexs pre; f_sep = bool_of_string sep; f_post = hexs post } :: parse_events r
  | _ -> failwith "event"

let string_of_slot (n, s) =
  shex n ^ "=" ^
  (match s with
   | IFloat c -> "F" ^ shex c
   | IInt (EmitC (b, v)) -> "C" ^ string_of_z b ^ ":" ^ string_of_z v
   | IInt (EmitBase32 t) -> "X" ^ shex t
   | IBad -> "B")

let code_of (k : nkey) = fst k

let handle = function
  | ["san"; h] -> shex (sanitize (hexs h))
  | ["spellok"; h] -> string_of_bool (spell_ok (hexs h))
  | ["dec"; n] -> shex (dec (z_of_string n))
  | ["consts"] ->
      shex pfx_int ^ " " ^ shex pfx_float ^ " " ^ string_of_z name_limit ^ " " ^ string_of_int (int_of_nat keep)
  | "pool" :: wc :: evs ->
      let es = parse_events evs in
      let ok = List.for_all event_okb es in
      (match run_events_gen (bool_of_string wc) es pool0 with
       | None -> "E ok=" ^ string_of_bool ok
       | Some (ns, p) ->
           let lay = layout (pool_consts p code_of) in
           let per_event f = String.concat " " (List.map2 (fun e n -> match e with EReq k -> f k n | EUniq _ -> "-") es ns) in
           let res k _ = (match index_find k p.p_index with
                          | None -> "?"
                          | Some n -> (match resolve n lay with Some i -> string_of_z i | None -> "?")) in
           let value k _ = (match snd k with
                            | PFloat -> "-"
                            | _ -> (match const_value p code_of k with Some v -> string_of_z v | None -> "?")) in
           "N " ^ String.concat " " (List.map shex ns)
           ^ " | L " ^ String.concat " " (List.map string_of_slot lay)
           ^ " | R " ^ per_event res
           ^ " | V " ^ per_event value
           ^ " | ok=" ^ string_of_bool ok)
  | _ -> "!ERR badcmd"

let () = main_loop handle
