(* driver for m_fused.  tokens (no blanks inside a field):
   type : i<rank>.<sgn> | b | f<rank> | c<rrank> | o | B<0..5> | E<k> | M<numtok>:<ndim>:<mode>
   arg  : I T F C N nf nc ni L<0..5> X<k.k.k> O U<src>:<kind>:<size>:<ndim>:<cc>:<fc>
   decl : ftypes "pos=t,t,t;pos=t,t"   params "0,0,1" *)
let builtin_of_int = function 0 -> BBytes | 1 -> BStr | 2 -> BList | 3 -> BDict | 4 -> BTuple | _ -> BSet
let int_of_builtin = function BBytes -> 0 | BStr -> 1 | BList -> 2 | BDict -> 3 | BTuple -> 4 | BSet -> 5
let sub s i = String.sub s i (String.length s - i)
let num_of_tok s =
  match s.[0] with
  | 'i' -> (match String.split_on_char '.' (sub s 1) with
            | [r; g] -> NInt (z_of_string r, z_of_string g) | _ -> failwith "num")
  | 'b' -> NBint
  | 'f' -> NFloat (z_of_string (sub s 1))
  | 'c' -> NComplex (z_of_string (sub s 1))
  | _ -> failwith "num"
let tok_of_num = function
  | NInt (r, g) -> "i" ^ string_of_z r ^ "." ^ string_of_z g
  | NBint -> "b" | NFloat r -> "f" ^ string_of_z r | NComplex r -> "c" ^ string_of_z r
let mode_of_int = function 0 -> MStrided | 1 -> MCContig | _ -> MFContig
let int_of_mode = function MStrided -> 0 | MCContig -> 1 | MFContig -> 2
let type_of_tok s =
  match s.[0] with
  | 'o' -> TObject
  | 'B' -> TBuiltin (builtin_of_int (int_of_string (sub s 1)))
  | 'E' -> TExt (nat_of_int (int_of_string (sub s 1)))
  | 'M' -> (match String.split_on_char ':' (sub s 1) with
            | [n; d; m] -> TMem (num_of_tok n, nat_of_int (int_of_string d), mode_of_int (int_of_string m))
            | _ -> failwith "mem")
  | _ -> TNum (num_of_tok s)
let tok_of_type = function
  | TNum n -> tok_of_num n | TObject -> "o"
  | TBuiltin b -> "B" ^ string_of_int (int_of_builtin b)
  | TExt k -> "E" ^ string_of_int (int_of_nat k)
  | TMem (n, d, m) -> "M" ^ tok_of_num n ^ ":" ^ string_of_int (int_of_nat d) ^ ":" ^ string_of_int (int_of_mode m)
let types_of s = List.map type_of_tok (split_on ',' s)
let str_of_types l = if l = [] then "-" else String.concat "," (List.map tok_of_type l)
let arg_of_tok s =
  match s with
  | "I" -> AInt | "T" -> ABool | "F" -> AFloat | "C" -> AComplex | "N" -> ANone
  | "nf" -> ANpFloat64 | "nc" -> ANpComplex128 | "ni" -> ANpInt64 | "O" -> AOther
  | _ ->
    (match s.[0] with
     | 'L' -> ABuiltin (builtin_of_int (int_of_string (sub s 1)))
     | 'X' -> AInst (List.map (fun k -> nat_of_int (int_of_string k)) (split_on '.' (sub s 1)))
     | 'U' -> (match String.split_on_char ':' (sub s 1) with
               | [src; k; sz; nd; cc; fc] ->
                 ABuf { b_src = (match src with "0" -> SNd | "1" -> SCyMvNd | _ -> SPlain);
                        b_kind = (match k with "i" -> DKInt | "u" -> DKUInt | "f" -> DKFloat | _ -> DKComplex);
                        b_size = z_of_string sz; b_ndim = nat_of_int (int_of_string nd);
                        b_cc = bool_of_string cc; b_fc = bool_of_string fc }
               | _ -> failwith "buf")
     | _ -> failwith "arg")
let args_of s = List.map arg_of_tok (split_on ',' s)
let idlt_of bits k =
  let i = (match k with KInt -> 0 | KBint -> 1 | KFloat -> 2 | KComplex -> 3 | KObject -> 4
                        | KBuiltin -> 5 | KExt -> 6 | KMem -> 7) in
  i < String.length bits && bits.[i] = '1'
let ftypes_of s =
  List.map (fun f -> match String.split_on_char '=' f with
      | [p; ms] -> { members = types_of ms; fpos = nat_of_int (int_of_string p) }
      | _ -> failwith "ftype") (split_on ';' s)
let decl_of fts ps = { ftypes = ftypes_of fts; params = List.map (fun p -> nat_of_int (int_of_string p)) (split_on ',' ps) }
let str_of_dres = function
  | Spec s -> "SPEC " ^ str_of_types s | NoMatch -> "NOMATCH" | Ambiguous -> "AMBIGUOUS" | BadCall -> "BADCALL"
let str_of_outcome = function
  | Ran s -> "RAN " ^ str_of_types s | TypeErr -> "TYPEERR" | ValueErr -> "VALUEERR" | BadArgs -> "BADARGS"
let str_of_opt = function Some t -> tok_of_type t | None -> "NONE"


(* ---- argument fetch (M_FusedArgs): values are "<argtok>.<id>" except buffers; params
   "name:kind:ft:def,..." (kind o = positional-only, k = positional-or-keyword, w = keyword-only;
   ft = - or fused type index; def = - or value), star/kw = 0/1, args "v,v" or -, kwargs "name=v,.." or - *)
let val_of_tok s =
  match String.rindex_opt s '.' with
  | Some i ->
      (arg_of_tok (String.sub s 0 i), int_of_string (sub s (i + 1)))
  | _ -> failwith "value"
let tok_of_val ((_, i) : atag * int) = string_of_int i
let kind_of_tok = function "o" -> KPosOnly | "k" -> KPosKw | "w" -> KKwOnly | _ -> failwith "kind"
let tok_of_kind = function KPosOnly -> "o" | KPosKw -> "k" | KKwOnly -> "w"
let params_of s =
  List.map (fun f -> match String.split_on_char ':' f with
      | [n; k; ft; d] ->
          { p_name = nat_of_int (int_of_string n); p_kind = kind_of_tok k;
            p_fused = (if ft = "-" then None else Some (nat_of_int (int_of_string ft)));
            p_default = (if d = "-" then None else Some (val_of_tok d)) }
      | _ -> failwith "param") (split_on ',' s)
let fsig_of ps star kw = { s_params = params_of ps; s_star = (star = "1"); s_kw = (kw = "1") }
let vals_of s = List.map val_of_tok (split_on ',' s)
let kwargs_of s =
  List.map (fun f -> match String.index_opt f '=' with
      | Some i -> (nat_of_int (int_of_string (String.sub f 0 i)), val_of_tok (sub f (i + 1)))
      | None -> failwith "kwarg") (split_on ',' s)
let mss_of s = List.map types_of (String.split_on_char ';' s)
let str_of_plans pls =
  if pls = [] then "-" else
  String.concat ";" (List.map (fun pl ->
      Printf.sprintf "%d:%d:%d:%s:%s" (int_of_nat pl.pl_ft) (int_of_nat pl.pl_idx) (int_of_nat pl.pl_name)
        (tok_of_kind pl.pl_kind) (match pl.pl_def with Some k -> string_of_int (int_of_nat k) | None -> "-")) pls)
let str_of_vals l = if l = [] then "-" else String.concat "," (List.map tok_of_val l)

let handle = function
  | ["sort"; bits; ms] -> str_of_types (pysort (ty_lt (idlt_of bits)) (types_of ms))
  | ["split"; bits; ms] ->
      let sp = split_fused (pysort (ty_lt (idlt_of bits)) (types_of ms)) in
      str_of_types sp.normal ^ " " ^ str_of_types sp.buffers ^ " " ^ string_of_bool sp.has_obj
  | ["map"; fx; bits; ms; a] -> str_of_opt (map_fused (bool_of_string fx) (idlt_of bits) (types_of ms) (arg_of_tok a))
  | ["doc1"; ms; a] -> str_of_opt (doc_choice (types_of ms) (arg_of_tok a))
  | ["call"; fx; bits; fts; ps; args] ->
      let d = decl_of fts ps and a = args_of args in
      str_of_dres (dispatch_cy (bool_of_string fx) (idlt_of bits) d a) ^ " ; "
      ^ str_of_outcome (call_cy (bool_of_string fx) (idlt_of bits) d a) ^ " ; "
      ^ str_of_outcome (doc_call d a)
  | ["getitem"; fts; idx] ->
      let d = ftypes_of fts in
      (match getitem (fun (a : string) b -> a = b) tok_of_type (all_sigs (List.map (fun f -> f.members) d)) (split_on ',' idx) with
       | IFound s -> "FOUND " ^ str_of_types s | IKeyError -> "KEYERROR")
  | ["plans"; ca; ps] -> str_of_plans (plans (ca = "1") (fsig_of ps "0" "0"))
  | ["call2"; ca; fxk; fx; bits; mss; ps; star; kw; args; kwargs] ->
      let sg = fsig_of ps star kw and a = vals_of args and k = kwargs_of kwargs and m = mss_of mss in
      let pls = plans (ca = "1") sg in
      str_of_outcome (call2_cy fst (ca = "1") (fxk = "1") (bool_of_string fx) (idlt_of bits) m sg a k) ^ " ; "
      ^ str_of_outcome (doc_call2 fst m sg a k) ^ " ; "
      ^ (match fetch_all (fxk = "1") pls a k (defaults_tuple sg.s_params) with
         | Fetched vs -> "FETCHED " ^ str_of_vals vs | FetchMissing -> "MISSING" | FetchBadIndex -> "BADINDEX") ^ " ; "
      ^ (match bind_py sg a k with Some vs -> "BOUND " ^ str_of_vals vs | None -> "TYPEERR") ^ " ; "
      ^ (if wf_sig sg then "wf" else "NOTWF") ^ " "
      ^ (if List.for_all (fun pl -> hazard_free pl a k) (plans true sg) then "safe" else "hazard")
  | ["index2"; mss; ps; star; kw; sg; args; kwargs] ->
      let s = fsig_of ps star kw and a = vals_of args and k = kwargs_of kwargs in
      ignore mss; str_of_outcome (call_index fst s (types_of sg) a k)
  | _ -> "!ERR badcmd"

let () = main_loop handle
