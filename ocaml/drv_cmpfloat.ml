(* driver for m_cmpfloat (properties C19 / C39, PyObjectCompare on exact float / int operands).
   nrow <cfg> <same> <a> <b>  -> <six results, operators < <= == != > >=; 1/0/U> <branch>
     a, b: f<double> | i<decimal int> ; <double>: nan | inf | -inf | <n>/<k>  (the value n / 2^k,
     float.as_integer_ratio()); cfg: 312 | 311 | noint | llp64noint | ilp32.
     U = the model made an inexact int->double conversion (never, by C19_floatint_eq).
     branch: M_CmpFloat.fbranch for float/int and int/float pairs, 0 for float/float, - for int/int.
   The three rich-comparison contracts are instantiated with the oracles fop / zfop / zop, i.e. the
   hypotheses of C19_num_eq.  Int operands: the sign/digit representation is cut with zarith and
   certified by the extracted wfb and value (as in drv_cmpint.ml); doubles must satisfy dbl_okb. *)

let cfg_of = function
  | "312" -> f_lp64_312 | "311" -> f_lp64_311 | "noint" -> f_lp64_noint
  | "llp64noint" -> f_llp64_noint | "ilp32" -> f_ilp32_15
  | s -> failwith ("cfg " ^ s)

let ops = [| OpLt; OpLe; OpEq; OpNe; OpGt; OpGe |]

let str_res = function Some true -> "1" | Some false -> "0" | None -> "U"

let cache : (string * string, pylong) Hashtbl.t = Hashtbl.create 4096

let repr_of (c : fcfg) (cname : string) (s : string) : pylong =
  match Hashtbl.find_opt cache (cname, s) with
  | Some r -> r
  | None ->
    let shz = c.f_i.i_sh in
    let sh = ZA.to_int (zt_of_z shz) in
    let v = ZA.of_string s in
    let mask = ZA.pred (ZA.shift_left ZA.one sh) in
    let rec cut m = if ZA.sign m = 0 then [] else z_of_zt (ZA.logand m mask) :: cut (ZA.shift_right m sh) in
    let r = { pl_neg = ZA.sign v < 0; pl_digits = cut (ZA.abs v) } in
    if not (wfb shz r) then failwith ("representation not well-formed: " ^ s);
    if not (ZA.equal (zt_of_z (value shz r)) v) then failwith ("representation has another value: " ^ s);
    if List.length r.pl_digits <= 8 && of_Z shz (z_of_zt v) <> r then failwith ("of_Z differs: " ^ s);
    Hashtbl.replace cache (cname, s) r; r

let dbl_of (s : string) : dbl =
  let d = match s with
    | "nan" -> DNan | "inf" -> DInf false | "-inf" -> DInf true
    | _ -> (match String.split_on_char '/' s with
            | [n; k] -> DFin (z_of_string n, z_of_string k)
            | _ -> failwith ("double " ^ s)) in
  if not (dbl_okb d) then failwith ("double not ok: " ^ s);
  d

let num_of c cn (s : string) : num =
  let body = String.sub s 1 (String.length s - 1) in
  match s.[0] with
  | 'f' -> NFloat (dbl_of body)
  | 'i' -> NInt (repr_of c cn body)
  | _ -> failwith ("operand " ^ s)

let handle = function
  | ["nrow"; cn; same; a; b] ->
    let c = cfg_of cn and same = bool_of_string same in
    let x = num_of c cn a and y = num_of c cn b in
    let rs = Array.to_list (Array.map (fun op -> str_res (cmp_num c fop zfop zop op same x y)) ops) in
    let br = (match x, y with
      | NFloat f, NInt i -> string_of_z (fbranch c false f i)
      | NInt i, NFloat f -> string_of_z (fbranch c true f i)
      | NFloat _, NFloat _ -> "0"
      | NInt _, NInt _ -> "-") in
    String.concat "" rs ^ " " ^ br
  | _ -> "!ERR badcmd"

let () = main_loop handle
