(* driver for m_linetable:
     build <fx> <first> <sl,el,sc,ec,sl,el,sc,ec,...>   -> OK <hex> | AssertionError | EncodeError | OutOfFuel
     decode <first> <hex>                               -> OK <sl,el,sc,ec,...> | Truncated | OutOfFuel
     lines <first> <hex>                                -> OK <l,l,...> | Truncated | OutOfFuel
     varint <v>                                         -> OK <hex> | AssertionError ...            *)
let rec quads = function
  | a :: b :: c :: d :: r -> (((a, b), c), d) :: quads r
  | [] -> []
  | _ -> failwith "positions: not a multiple of 4"

let rec unquads = function
  | (((a, b), c), d) :: r -> a :: b :: c :: d :: unquads r
  | [] -> []

(* no masking: a byte outside 0..255 is reported, not hidden *)
let hex_of_zbytes_wide l =
  if l = [] then "-" else
  String.concat "" (List.map (fun z -> let i = int_of_z z in
    if i < 0 || i > 255 then failwith "byte out of range" else Printf.sprintf "%02x" i) l)

let string_of_eres = function
  | EOk bs -> "OK " ^ hex_of_zbytes_wide bs
  | EAssertionError -> "AssertionError"
  | EEncodeError -> "EncodeError"
  | EOutOfFuel -> "OutOfFuel"

let handle = function
  | ["build"; fx; first; ps] ->
      string_of_eres (build_line_table (bool_of_string fx) (quads (zlist_of_string ps)) (z_of_string first))
  | ["varint"; v] -> string_of_eres (encode_varint (z_of_string v))
  | ["decode"; first; hex] ->
      (match decode_positions (z_of_string first) (zbytes_of_hex hex) with
       | DOk ps -> "OK " ^ string_of_zlist (unquads ps)
       | DTruncated -> "Truncated"
       | DOutOfFuel -> "OutOfFuel")
  | ["lines"; first; hex] ->
      (match decode_lines (z_of_string first) (zbytes_of_hex hex) with
       | LOk ls -> "OK " ^ string_of_zlist ls
       | LTruncated -> "Truncated"
       | LOutOfFuel -> "OutOfFuel")
  | _ -> "!ERR badcmd"

let () = main_loop handle
