(* driver for m_callargs (property C43): the argument-list loop of Parsing.p_call_parse_args on kind sequences.
     args <variant> <allow_genexp> <tail> <kinds>
        variant: false = the guard before a star argument as it is (starstar_seen), true = the keyword_args variant
        tail: end | comma | for          kinds: word over P S K D ("-" = empty)
     -> "<py>|error"  or  "<py>|<positional>|<keywords>"   py = 1/0: Python's grammar accepts the list (py_valid_b)
        positional: items g<i>,<i>.. (plain group) / u<i> (unpacked iterable) joined by ';'  ("g" = the empty default group)
        keywords:   items p<i> (name=value) / d<i> (unpacked mapping) joined by ';' *)
let kind_of = function 'P' -> APos | 'S' -> AStar | 'K' -> AKw | 'D' -> ADStar | _ -> failwith "kind"
let tail_of = function "end" -> TEnd | "comma" -> TComma | "for" -> TFor | _ -> failwith "tail"
let istr n = string_of_int (int_of_nat n)
let handle = function
  | ["args"; g; ag; t; ks] ->
      let l = if ks = "-" then [] else List.map kind_of (List.init (String.length ks) (String.get ks)) in
      let ag = bool_of_string ag in
      let t = tail_of t in
      let py = if py_valid_b ag l t then "1" else "0" in
      (match parse_args (bool_of_string g) ag l t with
       | None -> py ^ "|error"
       | Some (ps, kws) ->
           let p = String.concat ";" (List.map (function PGroup is -> "g" ^ String.concat "," (List.map istr is) | PUnpack i -> "u" ^ istr i) ps) in
           let k = String.concat ";" (List.map (function KPair i -> "p" ^ istr i | KUnpack i -> "d" ^ istr i) kws) in
           py ^ "|" ^ p ^ "|" ^ k)
  | _ -> "!ERR badcmd"
let () = main_loop handle
