"""C16 — Typed memoryview indexing and slicing match buffer semantics (DESIGN 7/C16)."""
import ast, itertools, json, os
import numpy as np
import cybuild

TITLE = "Typed memoryview indexing and slicing match buffer semantics"
EXTRACTS = ["MemSlice"]
RULE = ("1-D: every (start, stop, step) with start/stop in [-2n-1, 2n+1] U {None}, step in [-3, 3] U {None}, "
        "n = 0..6, three base layouts (contiguous, stride 2, negative stride; quick tier: the latter two up to "
        "n = 4), compile-time slices "
        "(8 have_start/stop/step code shapes) and object slices; every integer index in [-2n-1, 2n+1]. "
        "2-D/3-D: generated index patterns (int / slice / None / Ellipsis per position, C/F/strided/"
        "negative-stride bases, double and int dtypes) with PRNG parameters from the same ranges. A case is "
        "distinct by (path, pattern, base layout, shape, parameters); non-trivial = reaches the slicing code "
        "(all of them; zero steps and out-of-range indices are the error strata).")
EXPLANATION = ("theorems (Prop/C16.v): for ALL integers shape >= 0, start, stop, step and all have_start/stop/step "
               "combinations the repaired per-dimension computation of __pyx_memoryview_slice_memviewslice equals "
               "slice.indices / PySlice_Unpack+PySlice_AdjustIndices (length, first index, step; zero step = "
               "ValueError on both sides); the i-th view element is base element first+i*step, inside the base; "
               "integer index: IndexError iff outside [-n, n); N-d composition (int/slice/None after ellipsis "
               "expansion) maps every result index to the in-range base index NumPy selects, same byte offset; no "
               "Py_ssize_t overflow in the index arithmetic. The code as it is: refuted on two classes (F7 clamp; "
               "truncating ceil, which also breaks in-bounds), proved correct outside them (_current_partial). "
               "Correspondence: extracted model (variant chosen by FX_CLAMP/FX_CEIL) vs compiled module "
               "(compile-time ToughSlice/SimpleSlice/SliceIndex and memoryview.__getitem__ object path) vs NumPy, "
               "and the Gallina CPython transcription vs slice.indices. "
               "partial: the ellipsis expansion (unellipsify) is modelled and compared with NumPy but has no "
               "theorem; indirect (suboffset) dimensions and the boundscheck=False/wraparound=False code shapes "
               "are neither modelled nor run.")
TRUSTED = ["NumPy basic indexing and CPython slice.indices as property oracles",
           "CPython sliceobject.c transcribed to Gallina (py_unpack/py_adjust/py_slice_indices); the "
           "transcription is itself compared with slice.indices() on every 1-D case",
           "Py_ssize_t arithmetic modelled in Z (C '/' = Z.quot); absence of overflow of the index arithmetic "
           "is theorem C16_slice_dim_no_overflow, stride*step and start*stride are assumed to fit",
           "gcc as a conforming C compiler for the generated module"]
ASSUMPTIONS = ["direct dimensions only (suboffsets < 0)", "LP64: Py_ssize_t is 64 bits"]

# Flags of the model variant that describes the tree under test.  After the proposed fixes
# (proposed_fixes/C16-*.diff) are applied to /repo set both to 1.
FX_CLAMP = int(os.environ.get("C16_FX_CLAMP", "1"))     # C16-neg_step_bound_below_minus_len.diff
FX_CEIL = int(os.environ.get("C16_FX_CEIL", "1"))      # C16-empty_slice_rounds_up.diff

COMMON_SRC = r'''
import numpy as np

def mk(dtype, shape, layout):
    """layout = (order, kinds): kinds[d] in 'c' (contiguous), 't' (every 2nd), 'r' (reversed).
    Returns (big, view); big holds its own flat memory position as value, two spare
    positions around the view in every dimension."""
    order, kinds = layout
    if kinds == 'k' * len(shape):           # C-contiguous view with a guard zone at both ends
        total = 1
        for n in shape:
            total *= n
        span = 1
        for n in shape:
            span *= max(n, 1)
        pad = 2 * span + 4                  # an index of -1 or n in every dimension stays inside big
        big = np.arange(total + 2 * pad, dtype=dtype)
        view = np.ndarray(shape=tuple(shape), dtype=big.dtype, buffer=big, offset=pad * big.itemsize)
        return big, view
    bdims = [(2 * n + 4 if k == 't' else n + 4) for n, k in zip(shape, kinds)]
    total = 1
    for b in bdims:
        total *= b
    flat = np.arange(total, dtype=dtype)
    big = flat.reshape(bdims, order=order)
    off, strides = 0, []
    for n, k, bs in zip(shape, kinds, big.strides):
        first, step = {'c': (2, 1), 't': (2, 2), 'r': (2 + n - 1, -1)}[k]
        off += first * bs
        strides.append(bs * step)
    # explicit offset/strides: the data pointer stays inside `flat` also for empty views
    view = np.ndarray(shape=tuple(shape), dtype=flat.dtype, buffer=flat, offset=off, strides=tuple(strides))
    return flat, view

def addr(a):
    return a.__array_interface__['data'][0]

def dec_index(tokens):
    out = []
    for t in tokens:
        if t == 'n':
            out.append(None)
        elif t == 'e':
            out.append(Ellipsis)
        elif isinstance(t, list):
            out.append(slice(*t))
        else:
            out.append(t)
    return out[0] if len(out) == 1 else tuple(out)
'''
_ns = {}
exec(COMMON_SRC, _ns)
mk, addr, dec_index = _ns["mk"], _ns["addr"], _ns["dec_index"]

NMAX = 6
LAYOUTS1 = [("C", "c"), ("C", "t"), ("C", "r")]
HAVES = list(itertools.product((1, 0), repeat=3))


# ----------------------------------------------------------------------------- source generation
def slice_text(hs, he, hst, s="s", e="e", st="st"):
    return "%s:%s%s" % (s if hs else "", e if he else "", (":" + st) if hst else "")


HEADER = """# cython: language_level=3
import numpy as np
from c16_common import mk, addr, dec_index

def _fmt(shape, strides, off, elems):
    return "%s|%s|%d|%s" % (",".join(map(str, shape)), ",".join(map(str, strides)), off,
                            ",".join(map(str, elems)))
"""


def gen_1d():
    L = [HEADER]
    for hs, he, hst in HAVES:
        tag = "%d%d%d" % (hs, he, hst)
        L += ["def sw1_%s(object ao, Py_ssize_t lo, Py_ssize_t hi):" % tag,
              "    cdef double[:] a = ao",
              "    cdef double[:] b",
              "    cdef Py_ssize_t s, e, st, i",
              "    out = []",
              "    for s in range(%s):" % ("lo, hi + 1" if hs else "1"),
              "        for e in range(%s):" % ("lo, hi + 1" if he else "1"),
              "            for st in range(%s):" % ("-3, 4" if hst else "1"),
              "                try:",
              "                    b = a[%s]" % slice_text(hs, he, hst),
              "                except ValueError:",
              "                    out.append('V'); continue",
              "                except IndexError:",
              "                    out.append('X'); continue",
              "                out.append(_fmt((b.shape[0],), (b.strides[0],), b._data - a._data,",
              "                                [<Py_ssize_t>b[i] for i in range(b.shape[0])]))",
              "    return ';'.join(out)", ""]
    L += ["def ix1(object ao, Py_ssize_t lo, Py_ssize_t hi):",
          "    cdef double[:] a = ao",
          "    cdef Py_ssize_t i",
          "    out = []",
          "    for i in range(lo, hi + 1):",
          "        try:",
          "            out.append('@%d' % <Py_ssize_t>a[i])",
          "        except IndexError:",
          "            out.append('X')",
          "    return ';'.join(out)", "",
          "def osw1(object ao, Py_ssize_t lo, Py_ssize_t hi):",
          "    '''object-slice path: memoryview.__getitem__ -> _unellipsify -> memview_slice'''",
          "    cdef double[:] a = ao",
          "    cdef double[:] b",
          "    cdef Py_ssize_t i",
          "    m = <object>a",
          "    rng = list(range(lo, hi + 1)) + [None]",
          "    out = []",
          "    for s in rng:",
          "        for e in rng:",
          "            for st in [-3, -2, -1, 0, 1, 2, 3, None]:",
          "                try:",
          "                    b = m[s:e:st]",
          "                except ValueError:",
          "                    out.append('V'); continue",
          "                except IndexError:",
          "                    out.append('X'); continue",
          "                out.append(_fmt((b.shape[0],), (b.strides[0],), b._data - a._data,",
          "                                [<Py_ssize_t>b[i] for i in range(b.shape[0])]))",
          "    for k in range(int(lo), int(hi) + 1):     # Python int index (a C integer index on an object",
          "        try:                                    #  goes through __Pyx_GetItemInt + sq_item: not C16)",
          "            out.append('@%d' % int(m[k]))",
          "        except IndexError:",
          "            out.append('X')",
          "    return ';'.join(out)", "",
          "def run1(name, dtype, shape, layout, lo, hi):",
          "    big, view = mk(dtype, shape, tuple(layout))",
          "    return globals()[name](view, lo, hi)", ""]
    return "\n".join(L)


def pat_params(pattern):
    """number of Py_ssize_t parameters of a pattern"""
    n = 0
    for t in pattern:
        if t == "i":
            n += 1
        elif t[0] == "s":
            n += t[1:].count("1")
    return n


def pat_result_ndim(pattern, ndim):
    ints = sum(1 for t in pattern if t == "i")
    newax = sum(1 for t in pattern if t == "n")
    return ndim - ints + newax


def pat_index_text(pattern):
    parts, k = [], 0
    for t in pattern:
        if t == "i":
            parts.append("p%d" % k); k += 1
        elif t == "n":
            parts.append("None")
        elif t == "e":
            parts.append("...")
        else:
            hs, he, hst = (int(c) for c in t[1:])
            names = []
            for h in (hs, he, hst):
                if h:
                    names.append("p%d" % k); k += 1
                else:
                    names.append("")
            parts.append("%s:%s%s" % (names[0], names[1], (":" + names[2]) if hst else ""))
    return ", ".join(parts)


def memview_type(dtype, ndim, contig_last=False):
    dims = [":"] * ndim
    if contig_last:
        dims[-1] = "::1"
    return "%s[%s]" % (dtype, ", ".join(dims))


def gen_nd(pats, nd):
    """pats: list of (name, ctype, ndim, pattern, contig_last); one module per ndim"""
    L = [HEADER]
    for name, ctype, ndim, pattern, contig in pats:
        if ndim != nd:
            continue
        r = pat_result_ndim(pattern, ndim)
        np_ = pat_params(pattern)
        L += ["def %s(object ao, list cases):" % name,
              "    cdef %s a = ao" % memview_type(ctype, ndim, contig)]
        if r > 0:
            L.append("    cdef %s b" % memview_type(ctype, r))
        names = ["p%d" % k for k in range(np_)] + ["i%d" % k for k in range(max(r, 1))]
        L += ["    cdef Py_ssize_t " + ", ".join(names),
              "    out = []",
              "    for c in cases:"]
        for k in range(np_):
            L.append("        p%d = c[%d]" % (k, k))
        L.append("        try:")
        if r > 0:
            L.append("            b = a[%s]" % pat_index_text(pattern))
        else:
            L.append("            out.append('@%%d' %% <Py_ssize_t>a[%s]); continue" % pat_index_text(pattern))
        L += ["        except ValueError:", "            out.append('V'); continue",
              "        except IndexError:", "            out.append('X'); continue"]
        if r > 0:
            loops = " ".join("for i%d in range(b.shape[%d])" % (k, k) for k in range(r))
            sub = ", ".join("i%d" % k for k in range(r))
            L += ["        out.append(_fmt((%s,), (%s,), b._data - a._data," % (
                      ", ".join("b.shape[%d]" % k for k in range(r)),
                      ", ".join("b.strides[%d]" % k for k in range(r))),
                  "                        [<Py_ssize_t>b[%s] %s]))" % (sub, loops)]
        L += ["    return ';'.join(out)", ""]
    L += [("def to_obj(double[:, :] a):" if nd == 2 else "def to_obj(int[:, :, :] a):"), "    return a", "",
          "def osweep(object m, object base, list idxs):",
          "    '''object path, any index tuple: described through the buffer protocol'''",
          "    out = []",
          "    a0 = addr(base)",
          "    for toks in idxs:",
          "        try:",
          "            r = m[dec_index(toks)]",
          "        except ValueError:",
          "            out.append('V'); continue",
          "        except IndexError:",
          "            out.append('X'); continue",
          "        except TypeError:",
          "            out.append('T'); continue",
          "        if not hasattr(r, 'shape'):",
          "            out.append('@%d' % r); continue",
          "        v = np.asarray(r)",
          "        out.append(_fmt(v.shape, v.strides, addr(v) - a0, [int(x) for x in v.ravel()]))",
          "    return ';'.join(out)", "",
          "def runp(name, dtype, shape, layout, cases):",
          "    big, view = mk(dtype, shape, (layout[0], layout[1]))",
          "    return globals()[name](view, cases)", "",
          "def runo(ndim, dtype, shape, layout, idxs):",
          "    big, view = mk(dtype, shape, (layout[0], layout[1]))",
          "    m = to_obj(view)",
          "    return osweep(m, view, idxs)", ""]
    return "\n".join(L)


FIXED_PATTERNS = {
    2: [["i", "i"], ["i", "s111"], ["s111", "i"], ["s111", "s111"], ["s110", "s011"], ["s101", "s000"],
        ["e", "i"], ["i", "e"], ["e", "s111"], ["s111", "e"], ["n", "s111", "s111"], ["s111"], ["i"],
        ["n", "i", "n", "s111"], ["e"], ["s001", "s001"], ["s111", "n", "s011"], ["e", "n"],
        ["s000", "s111"], ["s100", "s010"]],
    3: [["i", "i", "i"], ["s111", "s111", "s111"], ["i", "e", "i"], ["e", "s111"], ["s111", "e"],
        ["s111", "i", "s111"], ["i", "s111"], ["n", "e", "n"], ["s010", "i", "e"], ["e", "i", "i"],
        ["s001", "s001", "s001"], ["i", "n", "s111", "s101"], ["s111", "e", "s111"], ["e"],
        ["s011", "s110", "i"], ["i", "i", "s111"]],
}


def make_patterns(rng, extra):
    pats = []
    for ndim, ctype in ((2, "double"), (3, "int")):
        plist = [list(p) for p in FIXED_PATTERNS[ndim]]
        seen = {tuple(p) for p in plist}
        tries = 0
        while len(plist) < len(FIXED_PATTERNS[ndim]) + extra and tries < 1000:
            tries += 1
            k = rng.randrange(1, ndim + 1)
            p = []
            for _ in range(k):
                p.append(rng.choice(["i", "s111", "s" + "".join(rng.choice("01") for _ in range(3))]))
            if len(p) < ndim and rng.random() < 0.5:
                p.insert(rng.randrange(len(p) + 1), "e")
            while rng.random() < 0.3:
                p.insert(rng.randrange(len(p) + 1), "n")
            if tuple(p) not in seen:
                seen.add(tuple(p)); plist.append(p)
        for j, p in enumerate(plist):
            pats.append(("p%d_%d" % (ndim, j), ctype, ndim, p, False))
    pats.append(("p2_contig", "double", 2, ["s111", "s110"], True))
    pats.append(("p3_contig", "int", 3, ["i", "s111", "s011"], True))
    return pats


# ----------------------------------------------------------------------------- oracle and model
def np_describe(view, index):
    """property oracle: NumPy basic indexing"""
    try:
        r = view[index]
    except ValueError:
        return "V"
    except IndexError:
        return "X"
    if not isinstance(r, np.ndarray):
        return ("@", int(r))
    return (tuple(r.shape), tuple(r.strides), addr(r) - addr(view), [int(x) for x in r.ravel()])


def buf_strides(view):
    """strides of the base as exported through the buffer protocol (NumPy normalises the strides
    of extent-1 dimensions and of empty arrays on export; the typed memoryview sees these)"""
    return memoryview(view).strides


def expected_strides(view, index, npres):
    """Strides of the result by buffer (CPython memoryview / PEP 3118) semantics: exported base
    stride * slice step (CPython slice.indices), 0 for a new axis.  Where the result extent is
    > 1 the stride is observable and NumPy's own value is used."""
    shape, strides = npres[0], list(npres[1])
    bst = buf_strides(view)
    items = list(index) if isinstance(index, tuple) else [index]
    nd = view.ndim
    n_real = sum(1 for t in items if t is not None and t is not Ellipsis)
    full = []
    for t in items:
        if t is Ellipsis:
            full += [slice(None)] * (nd - n_real)
        else:
            full.append(t)
    n_real = sum(1 for t in full if t is not None)
    full += [slice(None)] * (nd - n_real)
    d, k = 0, 0
    for t in full:
        if t is None:
            k += 1
        elif isinstance(t, slice):
            if shape[k] <= 1 or view.size == 0:
                strides[k] = bst[d] * t.indices(view.shape[d])[2]
            d += 1; k += 1
        else:
            d += 1
    return tuple(strides)


def parse_impl(tok):
    if tok in ("V", "X", "T"):
        return tok
    if tok.startswith("@"):
        return ("@", int(tok[1:]))
    sh, st, off, el = tok.split("|")
    ints = lambda s: [int(x) for x in s.split(",")] if s else []
    return (tuple(ints(sh)), tuple(ints(st)), int(off), ints(el))


def ix_token(t):
    if t is None:
        return "n"
    if t is Ellipsis:
        return "e"
    if isinstance(t, slice):
        f = lambda v: "N" if v is None else str(v)
        return "s%s:%s:%s" % (f(t.start), f(t.stop), f(t.step))
    return "i%d" % t


def model_nd_line(view, index):
    items = list(index) if isinstance(index, tuple) else [index]
    dims = ";".join("%d:%d" % (n, s) for n, s in zip(view.shape, buf_strides(view))) or "-"
    return "nd %d %d %s %s" % (FX_CLAMP, FX_CEIL, dims, ";".join(ix_token(t) for t in items) or "-")


def model_nd_result(line, view, big):
    """turn the model's view description into the same tuple as the implementation's"""
    if line.startswith("E "):
        return "V" if line.endswith("ValueError") else "X"
    if not line.startswith("OK "):
        return ("model", line)
    _, off, dims = line.split()
    off = int(off)
    dl = [] if dims == "-" else [tuple(int(x) for x in d.split(":")) for d in dims.split(";")]
    base_pos = addr(view) - addr(big)
    isz = view.itemsize
    if not dl:
        return ("@", (base_pos + off) // isz)
    elems = []
    for js in itertools.product(*[range(max(n, 0)) for n, _ in dl]):
        o = base_pos + off + sum(j * s for j, (_, s) in zip(js, dl))
        elems.append(o // isz if o % isz == 0 else ("misaligned", o))
    return (tuple(n for n, _ in dl), tuple(s for _, s in dl), off, elems)


def slice_defect_class(n, t):
    """narrow input classes of the two known defects, from the input alone"""
    if not isinstance(t, slice):
        return None
    step = 1 if t.step is None else t.step
    if step == 0:
        return None
    if step < 0 and ((t.start is not None and t.start < -n) or (t.stop is not None and t.stop < -n)):
        return "neg_step_bound_below_minus_len"
    s, e, st = t.indices(n)
    if st < 0 and t.stop is not None and t.stop >= n:
        e = n           # the C code keeps stop = shape here (CPython: shape-1); same length in exact arithmetic
    d = e - s
    if d != 0 and (d < 0) != (st < 0) and abs(d) < abs(st):
        return "empty_slice_rounds_up"
    return None


def classify(view, index, impl=None, oracle=None):
    """class of the failing input: the defect class (from the input alone) of the slice item whose
    result extent is wrong; if the extents do not tell, of the first item that is in a class"""
    items = list(index) if isinstance(index, tuple) else [index]
    nd = view.ndim
    n_real = sum(1 for t in items if t is not None and t is not Ellipsis)
    per_result_dim, first = [], None      # class per result dimension
    d = 0
    for t in items:
        if t is Ellipsis:
            per_result_dim += [None] * (nd - n_real); d += nd - n_real
        elif t is None:
            per_result_dim.append(None)
        else:
            k = slice_defect_class(view.shape[d], t) if d < nd else None
            if isinstance(t, slice):
                per_result_dim.append(k)
            first = first or k
            d += 1
    per_result_dim += [None] * (nd - d)
    if (isinstance(impl, tuple) and isinstance(oracle, tuple) and impl[0] != "@" and oracle[0] != "@"
            and len(impl[0]) == len(oracle[0]) == len(per_result_dim)):
        for k, (a, b) in enumerate(zip(impl[0], oracle[0])):
            if a != b:
                return per_result_dim[k] or "wrong_result"
    return first or "wrong_result"


def compare(ctx, path, inp, view, big, index, impl_tok, model_line):
    impl = parse_impl(impl_tok)
    oracle = np_describe(view, index)
    model = model_nd_result(model_line, view, big)
    # tie: implementation vs model (everything the model predicts)
    tie_ok = (impl == model)
    if not tie_ok:
        ctx.corr_break("memslice:" + path, inp, impl_tok[:300], _short_model(model))
    # property: implementation vs NumPy
    ok = True
    if isinstance(oracle, str) or isinstance(impl, str):
        ok = (oracle == impl)
    elif oracle[0] == "@" or impl[0] == "@":
        ok = (oracle == impl)
    else:
        exp_strides = expected_strides(view, index, oracle)
        size = 1
        for n in oracle[0]:
            size *= n
        ok = (impl[0] == oracle[0] and impl[3] == oracle[3] and impl[1] == exp_strides
              and (size == 0 or impl[2] == oracle[2]))
        oracle = (oracle[0], exp_strides, oracle[2], oracle[3])
    if not ok:
        ctx.fail(classify(view, index, impl, oracle), inp, impl_tok[:300], _short_model(oracle),
                 note="model(%d%d): %s" % (FX_CLAMP, FX_CEIL, model_line[:200]))
    return ok


def _short_model(m):
    return m if isinstance(m, str) else json.dumps(m)[:300]


def stratum_of(index, oracle_tok):
    items = list(index) if isinstance(index, tuple) else [index]
    kinds = set()
    for t in items:
        if isinstance(t, slice):
            st = 1 if t.step is None else t.step
            kinds.add("neg" if st < 0 else ("zero" if st == 0 else "pos"))
        elif t is None:
            kinds.add("newaxis")
        elif t is Ellipsis:
            kinds.add("ellipsis")
        else:
            kinds.add("int")
    return "+".join(sorted(kinds))


def unstr(r):
    if "e" in r:
        return None
    return ast.literal_eval(r["r"]) if r["t"] == "str" else None


# ----------------------------------------------------------------------------- run
def cases_1d(n):
    lo, hi = -2 * n - 1, 2 * n + 1
    return lo, hi


def enum_1d_compile(lo, hi, hs, he, hst):
    for s in (range(lo, hi + 1) if hs else [None]):
        for e in (range(lo, hi + 1) if he else [None]):
            for st in (range(-3, 4) if hst else [None]):
                yield slice(s, e, st)


def enum_1d_object(lo, hi):
    rng = list(range(lo, hi + 1)) + [None]
    for s in rng:
        for e in rng:
            for st in [-3, -2, -1, 0, 1, 2, 3, None]:
                yield slice(s, e, st)
    for i in range(lo, hi + 1):
        yield i


def spec_line(n, t):
    f = lambda v: "N" if v is None else str(v)
    return "spec %d %s %s %s" % (n, f(t.start), f(t.stop), f(t.step)), \
           "ssz %d %d %s %s %s" % (2 ** 63 - 1, n, f(t.start), f(t.stop), f(t.step))


def run(ctx):
    quick = ctx.tier == "quick"
    with open(os.path.join(ctx.workdir, "c16_common.py"), "w") as f:
        f.write(COMMON_SRC)
    pats = make_patterns(ctx.rng, 4 if quick else 30)
    specs = [dict(name="c16_1d", source=gen_1d(), workdir=ctx.workdir),
             dict(name="c16_nd2", source=gen_nd(pats, 2), workdir=ctx.workdir),
             dict(name="c16_nd3", source=gen_nd(pats, 3), workdir=ctx.workdir)]
    built = cybuild.build_many(specs, jobs=3)
    for (so, err), sp in zip(built, specs):
        if err is not None:
            ctx.corr_break("build " + sp["name"], sp["name"], str(err)[:1500], "module builds")
            return
    model = ctx.model("memslice")

    # ---------------- 1-D exhaustive sweeps
    calls, meta = [], []
    for n in range(NMAX + 1):
        lo, hi = cases_1d(n)
        for layout in LAYOUTS1:
            if quick and layout != LAYOUTS1[0] and n > 4:
                continue            # quick tier: strided/reversed bases up to n = 4 (thorough: all)
            for hs, he, hst in HAVES:
                name = "sw1_%d%d%d" % (hs, he, hst)
                calls.append(["c16_1d.run1", [name, "float64", [n], list(layout), lo, hi]])
                meta.append(("compile", n, layout, list(enum_1d_compile(lo, hi, hs, he, hst)), name))
            calls.append(["c16_1d.run1", ["ix1", "float64", [n], list(layout), lo, hi]])
            meta.append(("index", n, layout, list(range(lo, hi + 1)), "ix1"))
            calls.append(["c16_1d.run1", ["osw1", "float64", [n], list(layout), lo, hi]])
            meta.append(("object", n, layout, list(enum_1d_object(lo, hi)), "osw1"))
    res = cybuild.call_cases(ctx.workdir, calls, setup="import c16_1d", alarm=120)
    mq, flat = [], []
    for (path, n, layout, idxs, fname), r in zip(meta, res):
        s = unstr(r)
        inp0 = {"func": fname, "n": n, "layout": list(layout)}
        if s is None:
            ctx.fail("sweep_crash", inp0, r, "string of results")
            continue
        toks = s.split(";") if s else []
        if len(toks) != len(idxs):
            ctx.corr_break("memslice:1d-count", inp0, len(toks), len(idxs))
            continue
        big, view = mk("float64", [n], layout)
        for t, tok in zip(idxs, toks):
            flat.append((path, n, layout, t, tok, view, big, fname))
            mq.append(model_nd_line(view, t))
    mres = model.batch(mq)
    # the Gallina transcription of CPython's slice arithmetic vs CPython itself (1-D slices, layout 0)
    sq, sexp = [], []
    for n in range(NMAX + 1):
        lo, hi = cases_1d(n)
        for t in enum_1d_object(lo, hi):
            if not isinstance(t, slice):
                continue
            a, b = spec_line(n, t)
            sq += [a, b]
            try:
                s0, e0, st0 = t.indices(n)
                exp = "%d %d %d" % (len(range(s0, e0, st0)), s0, st0)
            except ValueError:
                exp = "E ValueError"
            sexp += [exp, exp]
    sres = model.batch(sq)
    nspec_bad = 0
    for q, got, exp in zip(sq, sres, sexp):
        if got != exp and nspec_bad < 5:
            nspec_bad += 1
            ctx.corr_break("memslice:spec-vs-cpython", q, exp, got)
    ctx.count("spec/py_slice_indices+py_slice_ssize vs slice.indices", len(sq),
              distinct_sigs=[("spec", len(sq))])
    for (path, n, layout, t, tok, view, big, fname), ml in zip(flat, mres):
        inp = {"path": path, "func": fname, "dtype": "float64", "shape": [n], "layout": list(layout),
               "index": [ix_token(t)]}
        compare(ctx, "1d-" + path, inp, view, big, t, tok, ml)
        ctx.case("1d/%s/%s" % (path, stratum_of(t, tok)), inp, sig=(path, n, layout, ix_token(t)))
    ctx.extra.setdefault("exhaustive_domains", []).append(
        "1-D double[:] n=0..%d (contiguous base; stride-2 and reversed bases n=0..%d): all start/stop in "
        "[-2n-1,2n+1] U {None}, step in [-3,3] U {None}, 8 compile-time code shapes + object slices; all integer "
        "indices in [-2n-1,2n+1]" % (NMAX, 4 if quick else NMAX))

    # ---------------- 2-D / 3-D patterns
    per = 25 if quick else 120
    nshapes = 8 if quick else 30
    calls, meta = [], []
    for name, ctype, ndim, pattern, contig in pats:
        dtype = "float64" if ctype == "double" else "intc"
        for _ in range(nshapes):
            shape = [ctx.rng.randrange(0, NMAX + 1) for _ in range(ndim)]
            if contig:
                layout = ("C", "k" * ndim)
            else:
                layout = (ctx.rng.choice("CF"), "".join(ctx.rng.choice("ctr") for _ in range(ndim)))
            cases, idxs = [], []
            for _ in range(per):
                params, index = gen_params(ctx.rng, pattern, shape, ndim)
                cases.append(params); idxs.append(index)
            calls.append(["c16_nd%d.runp" % ndim, [name, dtype, shape, list(layout), cases]])
            meta.append(("compile", name, dtype, shape, layout, idxs, pattern))
            # the same index tuples through the object path (no None there: TypeError by design)
            if "n" not in pattern:
                toks = [enc_index(ix) for ix in idxs]
                calls.append(["c16_nd%d.runo" % ndim, [ndim, dtype, shape, list(layout), toks]])
                meta.append(("object", name, dtype, shape, layout, idxs, pattern))
    res = cybuild.call_cases(ctx.workdir, calls, setup="import c16_nd2, c16_nd3", alarm=120)
    mq, flat = [], []
    for (path, name, dtype, shape, layout, idxs, pattern), r in zip(meta, res):
        s = unstr(r)
        inp0 = {"path": path, "func": name, "shape": shape, "layout": list(layout), "pattern": pattern}
        if s is None:
            ctx.fail("sweep_crash", inp0, r, "string of results")
            continue
        toks = s.split(";") if s else []
        if len(toks) != len(idxs):
            ctx.corr_break("memslice:nd-count", inp0, len(toks), len(idxs))
            continue
        big, view = mk(dtype, shape, layout)
        for t, tok in zip(idxs, toks):
            flat.append((path, name, dtype, shape, layout, t, tok, view, big, pattern))
            mq.append(model_nd_line(view, t))
    mres = model.batch(mq)
    for (path, name, dtype, shape, layout, t, tok, view, big, pattern), ml in zip(flat, mres):
        items = list(t) if isinstance(t, tuple) else [t]
        inp = {"path": path, "func": name, "dtype": dtype, "shape": shape, "layout": list(layout),
               "pattern": pattern, "index": [ix_token(x) for x in items]}
        compare(ctx, "%dd-%s" % (len(shape), path), inp, view, big, t, tok, ml)
        ctx.case("%dd/%s/%s" % (len(shape), path, stratum_of(t, tok)), inp,
                 sig=(path, name, tuple(shape), layout, tuple(inp["index"])))


def gen_params(rng, pattern, shape, ndim):
    """parameters for one case + the equivalent Python index"""
    n_real = sum(1 for t in pattern if t not in ("n", "e"))
    params, items, d = [], [], 0
    for t in pattern:
        if t == "n":
            items.append(None)
        elif t == "e":
            items.append(Ellipsis); d += ndim - n_real
        else:
            n = shape[d] if d < ndim else 0
            lo, hi = -2 * n - 1, 2 * n + 1
            if t == "i":
                # mostly valid indices, some out of range
                v = rng.randrange(-n, n) if (n > 0 and rng.random() < 0.85) else rng.randrange(lo, hi + 1)
                params.append(v); items.append(v)
            else:
                hs, he, hst = (int(c) for c in t[1:])
                vals = []
                for h, is_step in ((hs, False), (he, False), (hst, True)):
                    if not h:
                        vals.append(None)
                    elif is_step:
                        v = rng.choice([-3, -2, -1, 1, 2, 3] * 6 + [0])
                        vals.append(v); params.append(v)
                    else:
                        v = rng.randrange(lo, hi + 1)
                        vals.append(v); params.append(v)
                items.append(slice(*vals))
            d += 1
    return params, (items[0] if len(items) == 1 else tuple(items))


def enc_index(index):
    items = list(index) if isinstance(index, tuple) else [index]
    out = []
    for t in items:
        if t is None:
            out.append("n")
        elif t is Ellipsis:
            out.append("e")
        elif isinstance(t, slice):
            out.append([t.start, t.stop, t.step])
        else:
            out.append(t)
    return out


def replay(ctx, obj):
    inp = obj["input"]
    with open(os.path.join(ctx.workdir, "c16_common.py"), "w") as f:
        f.write(COMMON_SRC)
    toks = []
    for t in inp["index"]:
        if t in ("n", "e"):
            toks.append(t)
        elif t[0] == "i":
            toks.append(int(t[1:]))
        else:
            toks.append([None if x == "N" else int(x) for x in t[1:].split(":")])
    index = dec_index(toks)
    nd = len(inp["shape"])
    src = HEADER + "\n".join([
        "def go(object ao, object index):",
        "    cdef %s a = ao" % memview_type("double" if inp["dtype"] == "float64" else "int", nd),
        "    m = <object>a",
        "    r = m[index]",
        "    return np.asarray(r).tolist() if hasattr(r, 'shape') else r", ""])
    cybuild.build("c16_replay", src, ctx.workdir)
    script = "\n".join([
        "import json, sys, numpy as np, c16_replay",
        "from c16_common import mk, dec_index",
        "spec = json.load(sys.stdin)",
        "big, view = mk(spec['dtype'], spec['shape'], tuple(spec['layout'][:2]))",
        "ix = dec_index(spec['toks'])",
        "try:", "    got = c16_replay.go(view, ix)",
        "except Exception as e:", "    got = type(e).__name__",
        "try:", "    exp = view[ix].tolist()",
        "except Exception as e:", "    exp = type(e).__name__",
        "print(json.dumps({'cython_memoryview': got, 'numpy': exp}))"])
    r = cybuild.run_script(script, ctx.workdir, {"dtype": inp["dtype"], "shape": inp["shape"],
                                                 "layout": inp["layout"], "toks": toks})
    print("replayed (object-slice path):", json.dumps(inp["index"]), "->", r["json"] or r["err"][-500:])
