"""C01 helper (not a property): every construct named in the property's quantifier, called on boundary-sized
inputs (empty, one, exact, one more; falsy items).  2-way: compiled module vs CPython exec of the same
source; value = type + repr (recursively), exception = type.  Module state (globals) persists over the
calls, which are made in the same order on both sides."""
import json, os
import cybuild

SRC = r'''# cython: language_level=3
G_COUNT = 0

# ---- closures
def clo_loop_capture(xs):
    fs = []
    for x in xs:
        fs.append(lambda: x)
    return [f() for f in fs]

def clo_unbound_after_empty_loop(xs):
    def g():
        return x
    for x in xs:
        pass
    return g()

def clo_counter(xs):
    n = 0
    def bump(k):
        nonlocal n
        n += k
        return n
    return [bump(x) for x in xs], n

def clo_maker_chain(xs):
    def mk(k, inner):
        return lambda: [k] + inner()
    f = lambda: []
    for x in xs:
        f = mk(x, f)
    return f()

def clo_default_capture(xs):
    fs = []
    for x in xs:
        fs.append(lambda v=x: v)
    return [f() for f in fs]

def clo_two_levels(xs):
    def outer():
        acc = []
        def mid():
            def inner(v):
                acc.append(v)
                return len(acc)
            return [inner(x) for x in xs]
        return mid(), acc
    return outer()

# ---- classes
def cls_attrs(xs):
    class C:
        n = len(xs)
        first = xs[0] if xs else None
        def total(self):
            return sum(xs)
    c = C()
    return C.n, C.first, c.total()

def cls_empty(xs):
    class E:
        pass
    e = E()
    for i, x in enumerate(xs):
        setattr(e, "a%d" % i, x)
    return sorted(e.__dict__.items())

def cls_methods_loop(xs):
    class Acc:
        def __init__(self):
            self.items = []
        def add(self, v):
            self.items.append(v)
            return self
        def __len__(self):
            return len(self.items)
    a = Acc()
    for x in xs:
        a.add(x)
    return len(a), bool(a), a.items

def cls_inherit(xs):
    class A:
        def f(self):
            return list(xs)
    class B(A):
        def f(self):
            return A.f(self) + [len(xs)]
    return B().f(), [k.__name__ for k in B.__mro__]

def cls_body_loop(xs):
    class K:
        total = 0
        for v in xs:
            total += v
    return K.total, hasattr(K, "v")

# ---- comprehensions
def comp_list(xs):
    return [x * 2 for x in xs]

def comp_filter(xs):
    return [x for x in xs if x % 2]

def comp_nested(xs):
    return [(x, y) for x in xs for y in xs[:x]]

def comp_dict(xs):
    return {x: i for i, x in enumerate(xs)}

def comp_set(xs):
    return sorted({x % 2 for x in xs})

def comp_gen_partial(xs):
    g = (x + 1 for x in xs)
    first = next(g, None)
    return first, list(g)

def comp_nested_empty_inner(xs):
    return [[y for y in range(x - 1)] for x in xs]

def comp_cond_expr(xs):
    return [("a" if x else "b") for x in xs]

def comp_shadow(xs):
    x = "outer"
    ys = [x for x in xs]
    return ys, x

# ---- lambdas
def lam_args(xs):
    f = lambda *a: len(a)
    return f(*xs)

def lam_default(xs):
    f = lambda a, b=10: (a, b)
    return f(*xs[:3])

def lam_kw(xs):
    f = lambda **k: sorted(k)
    return f(**{"k%d" % x: x for x in xs})

def lam_sort_key(xs):
    return sorted(xs, key=lambda v: -v)

def lam_immediate(xs):
    return (lambda a=0, b=0, c=0: (a, b, c))(*xs)

# ---- global / nonlocal
def glob_bump(xs):
    global G_COUNT
    for x in xs:
        G_COUNT += x
    return G_COUNT

def glob_define(xs):
    global G_NEW
    if xs:
        G_NEW = xs[0]
    return G_NEW

def nonl_chain(xs):
    a = 0
    def f():
        nonlocal a
        def g():
            nonlocal a
            a += 1
            return a
        return [g() for _ in xs]
    return f(), a

# ---- augmented assignment
def aug_list(xs):
    a = []
    b = a
    a += xs
    return a, a is b

def aug_str(xs):
    s = ""
    for x in xs:
        s += str(x)
    return s

def aug_subscript(xs):
    d = {}
    for x in xs:
        d[x % 2] = d.get(x % 2, 0)
        d[x % 2] += x
    return d

def aug_missing_key(xs):
    d = {}
    for x in xs:
        d[x] += 1
    return d

def aug_slice(xs):
    a = [0, 0]
    a[1:1] += xs
    return a

def aug_attr(xs):
    class P:
        v = 0
    p = P()
    for x in xs:
        p.v += x
    return p.v, P.v

def aug_ops(xs):
    n = 1
    for x in xs:
        n *= x + 1
        n -= 1
        n //= 1
        n **= 2
        n <<= 1
        n |= 1
        n %= 1000
    return n

def aug_tuple_grow(xs):
    t = ()
    for x in xs:
        t += (x,)
    return t

# ---- conditional expressions
def cond_chain(xs):
    return xs[0] if xs else (None if len(xs) == 0 else 0)

def cond_falsy(xs):
    return [(x or "e") if x != 2 else (x and "t") for x in xs + [0]]

def cond_nested(xs):
    n = len(xs)
    return "0" if n == 0 else "1" if n == 1 else "2" if n == 2 else "many"

def cond_side(xs):
    out = []
    r = (out.append("t") or 1) if xs else (out.append("f") or 2)
    return r, out

# ---- walrus
def wal_while(xs):
    it = iter(xs)
    out = []
    while (v := next(it, None)) is not None:
        out.append(v)
    return out, v

def wal_comp_leak(xs):
    r = [y for x in xs if (y := x * 2) > 2]
    return r, y

def wal_if(xs):
    if (n := len(xs)) > 1:
        return "many", n
    return "few", n

def wal_any(xs):
    hit = None
    found = any((hit := x) > 1 for x in xs)
    return found, hit

# ---- unpacking (small)
def unp_swap(xs):
    a, b = 0, 1
    for _ in xs:
        a, b = b, a + b
    return a, b

def unp_head_tail(xs):
    h, *t = xs
    return h, t

def unp_for_pairs(xs):
    return [(i, v) for i, v in enumerate(xs)], [a + b for a, b in zip(xs, xs[1:])]

def unp_call_star(xs):
    def f(a, *r, k=0):
        return a, r, k
    return f(*xs), f(*xs, k=len(xs))

# ---- builtins
def bi_agg(xs):
    return len(xs), sum(xs), any(xs), all(xs)

def bi_min(xs):
    return min(xs), max(xs)

def bi_max_default(xs):
    return max(xs, default=-1), min(xs, default=None)

def bi_min_args(xs):
    return min(*xs)

def bi_minmax_ties(xs):
    # equal but distinguishable maxima / minima (1, 1.0, True; 0.0, -0.0): the first one wins
    a, b, c = (xs + [0, 0, 0])[:3]
    return (max(a, b), min(a, b), max(b, a), min(b, a), max(a, b, c), min(a, b, c), max(c, b, a), min(c, b, a),
            max([a, b]), min((a, b, c)), max(a, b, key=abs), min(a, b, c, key=lambda v: -v))

def bi_sorted_rev(xs):
    return sorted(xs, reverse=True), list(reversed(xs))

def bi_enumerate(xs):
    return list(enumerate(xs, 1)), list(zip(xs, xs[1:])), list(zip(xs, []))

def bi_range(xs):
    return [list(range(x)) for x in xs], list(range(len(xs), 0, -1))

def bi_range_step(xs):
    return list(range(0, 3, len(xs) - 1))

def bi_slice(xs):
    return xs[:0], xs[:1], xs[1:], xs[-1:], xs[::-1], xs[5:], xs[len(xs):], xs[-5:2]

def bi_index(xs):
    return xs[0], xs[-1]

def bi_index_len(xs):
    return xs[len(xs)]

def bi_pop(xs):
    ys = list(xs)
    return ys.pop(), ys

def bi_divmod(xs):
    return [divmod(7, x) for x in xs]

def bi_abs_round(xs):
    return [abs(-x) for x in xs], [round(x / 2) for x in xs]

def bi_str(xs):
    return ",".join(map(str, xs)), str(xs), repr(tuple(xs)), "%d items" % len(xs)

def bi_dict(xs):
    d = dict.fromkeys(xs, 0)
    return d, list(d), d.get(1), sorted(d.items())

def bi_isinstance(xs):
    return [isinstance(x, (int, str)) for x in xs], isinstance(xs, list), isinstance(xs, tuple)

def bi_map_filter(xs):
    return list(map(lambda v: v + 1, xs)), list(filter(None, xs))

def bi_next_iter(xs):
    it = iter(xs)
    return next(it)

def bi_set_ops(xs):
    s = set(xs)
    return sorted(s | {1}), sorted(s & {1}), sorted(s - {1}), len(s)

def bi_tuple_ops(xs):
    t = tuple(xs)
    return t < (1, 2), t == (), t + (9,), t * 2, t[:1]

def bi_str_methods(xs):
    s = "ab" * len(xs)
    return s.split("b"), s.find("b"), s[:1], s.upper(), s.count("ab"), len(s)

def bi_int_conv(xs):
    return [int(str(x)) for x in xs], [bool(x) for x in xs], [float(x) for x in xs], int("".join(map(str, xs)) or "0")

def bi_list_methods(xs):
    ys = list(xs)
    ys.insert(0, 9)
    ys.extend(xs[:1])
    ys.reverse()
    return ys, ys.index(9), ys.count(1)

def bi_list_remove(xs):
    ys = list(xs)
    ys.remove(1)
    return ys
'''

INPUTS = [[], [1], [1, 2], [1, 2, 3], [0], [0, 2], [2, 1, 0, 3],
          [1, 1.0], [1.0, 1, True], [True, 1.0, 1], [0.0, -0.0, 0], [-0.0, 0.0, False]]

WORKER = r'''
import sys, json, types, signal
spec = json.load(sys.stdin)
if spec["mode"] == "cpython":
    m = types.ModuleType(spec["name"])
    exec(compile(open(spec["path"]).read(), spec["path"], "exec"), m.__dict__)
else:
    m = __import__(spec["name"])
def canon(v, d=0):
    if isinstance(v, (list, tuple)) and d < 6:
        return [type(v).__name__] + [canon(x, d + 1) for x in v]
    if isinstance(v, dict) and d < 6:
        return ["dict"] + [[canon(k, d + 1), canon(x, d + 1)] for k, x in v.items()]
    return type(v).__name__ + ":" + repr(v)
class TO(Exception):
    pass
def _al(s, f):
    raise TO()
signal.signal(signal.SIGALRM, _al)
for i in range(spec["start"], len(spec["calls"])):
    fn, arg = spec["calls"][i]
    sys.stdout.write(json.dumps({"begin": i}) + "\n"); sys.stdout.flush()
    try:
        signal.alarm(5)
        r = getattr(m, fn)(list(arg))
        signal.alarm(0)
        d = {"i": i, "r": canon(r)}
    except BaseException as e:
        signal.alarm(0)
        d = {"i": i, "e": type(e).__name__, "m": str(e)[:200]}
    sys.stdout.write(json.dumps(d) + "\n"); sys.stdout.flush()
print(json.dumps({"done": 1}))
'''

NAME = "c01b_0"


def functions():
    import re
    return re.findall(r"^def (\w+)\(xs\):", SRC, re.M)


def prepare(ctx):
    path = os.path.join(ctx.workdir, NAME + "_src.py")
    with open(path, "w") as f:
        f.write(SRC)
    calls = [[fn, inp] for fn in functions() for inp in INPUTS]
    return {"name": NAME, "path": path, "calls": calls}


def build_spec(ctx):
    return dict(name=NAME, source=SRC, workdir=ctx.workdir, suffix=".py", cflags=["-O0"])


def run_worker(ctx, plan, mode):
    calls = plan["calls"]
    results = [None] * len(calls)
    start, crashes = 0, 0
    while start < len(calls) and crashes < 20:
        spec = {"mode": mode, "name": plan["name"], "path": plan["path"], "calls": calls, "start": start}
        r = cybuild.run_script(WORKER, ctx.workdir, spec, timeout=900, name="boundary_worker_%s.py" % mode)
        begun, done = None, False
        for line in r["out"].splitlines():
            try:
                d = json.loads(line)
            except Exception:
                continue
            if "begin" in d:
                begun = d["begin"]
            elif "i" in d:
                results[d["i"]] = d; begun = None
            elif "done" in d:
                done = True
        if done:
            break
        crashes += 1
        if begun is None:
            break
        results[begun] = {"e": "CRASH", "m": "rc=%s %s" % (r["rc"], r["err"][-200:])}
        start = begun + 1
    return [x if x is not None else {"e": "NOTRUN"} for x in results]


def compare(ctx, plan, built):
    so, err = built
    if err is not None:
        ctx.fail("valid_program_does_not_build", {"module": NAME, "source": "props/C01_boundary.py:SRC"},
                 str(err)[-1500:], "the boundary module compiles (CPython runs the same source)")
        return
    py = run_worker(ctx, plan, "cpython")
    cy = run_worker(ctx, plan, "compiled")
    nmsg = 0
    for (fn, inp), o, c in zip(plan["calls"], py, cy):
        family = fn.split("_")[0]
        ctx.case("boundary/%s/%s" % (family, "exc" if "e" in o else "value"), {"fn": fn, "xs": inp},
                 sig=("boundary", fn, json.dumps(inp)))
        if o.get("e") in ("NOTRUN", "CRASH"):
            ctx.corr_break("boundary oracle run", {"fn": fn, "xs": inp}, o, "runs")
            continue
        if o.get("r") != c.get("r") or o.get("e") != c.get("e"):
            ctx.fail("crash" if c.get("e") == "CRASH" else "boundary_wrong_behaviour",
                     {"function": fn, "xs": inp, "source": "props/C01_boundary.py:SRC"}, c, o)
        elif "e" in o and o.get("m") != c.get("m"):
            nmsg += 1
    ctx.extra["boundary"] = {"functions": len(functions()), "calls": len(plan["calls"]),
                             "exception_message_differs": nmsg}
