"""C01 helper (not a property): sequence unpacking, 3-way.

compiled module (compiler under test)  vs  extracted cy_assign / cy_items_assign   (tie)
CPython exec of the same source        vs  extracted ref_assign                     (oracle vs reference)
compiled                               vs  CPython                                  (the property)

Targets: every flat shape of N targets (no star; one star at every position), nested shapes, in every
context that reaches SequenceNode.generate_assignment_code (assignment, for-loop target, comprehension /
generator-expression target, statically typed right-hand sides) plus  for k, v in obj.items()  (its own C
copy of the protocol, __Pyx_unpack_tuple2).  Sources: every iterable kind the generated code
distinguishes, lengths 0 .. N+2 at every level, iterators whose next-calls are logged and iterators
that raise at their end.  Observed: bound values (identity for input objects, structure + exact type list
for the starred target), names left unbound, exception type + the number in its message, the sequence of
observable next-calls."""
import json, os, re
import cybuild

NAMES = "abcdef"

# ------------------------------------------------------------------------------------------------
# targets
# ------------------------------------------------------------------------------------------------
def T(ls, star=None, rs=()):
    return ("q", list(ls), star, list(rs))


def flat(n, p):
    """n targets, star at position p (None: no star); names in order"""
    names = list(NAMES[:n])
    if p is None:
        return T([("n", x) for x in names])
    return T([("n", x) for x in names[:p]], names[p], [("n", x) for x in names[p + 1:]])


def t_names(t):
    if t[0] == "n":
        return [t[1]]
    out = []
    for x in t[1]:
        out += t_names(x)
    if isinstance(t[2], tuple):
        out += t_names(t[2])            # starred target that is itself a sequence (2-way family 'starseq')
    elif t[2] is not None:
        out.append(t[2])
    for x in t[3]:
        out += t_names(x)
    return out


def t_src(t, top=True, brackets=False):
    if t[0] == "n":
        return t[1]
    parts = [t_src(x, False, not brackets) for x in t[1]]
    if isinstance(t[2], tuple):
        parts.append("*" + t_src(t[2], False, not brackets))
    elif t[2] is not None:
        parts.append("*" + t[2])
    parts += [t_src(x, False, not brackets) for x in t[3]]
    if top:
        return ", ".join(parts) + ("," if len(parts) == 1 else "")
    if brackets:
        return "[" + ", ".join(parts) + "]"
    return "(" + ", ".join(parts) + ("," if len(parts) == 1 else "") + ")"


def t_tok(t):
    if t[0] == "n":
        return ["n", str(NAMES.index(t[1]))]
    out = ["q", str(len(t[1]))]
    for x in t[1]:
        out += t_tok(x)
    out.append("-" if t[2] is None else str(NAMES.index(t[2])))
    out.append(str(len(t[3])))
    for x in t[3]:
        out += t_tok(x)
    return out


def t_levels(t, path=()):
    """paths of all sequence levels"""
    if t[0] == "n":
        return []
    out = [path]
    subs = list(t[1]) + list(t[3])
    for i, x in enumerate(subs):
        out += t_levels(x, path + (i,))
    return out


# starred target that is a sequence: ConstantFolding.visit_SequenceNode flattens it (known finding), 2-way only
STARSEQ = [
    T([], T([("n", "a"), ("n", "b")]), [("n", "c")]),                               # *(a, b), c
    T([("n", "a")], T([("n", "b")], "c"), []),                                      # a, *[b, *c]
    T([("n", "a")], T([("n", "b"), ("n", "c")]), [("n", "d")]),                     # a, *(b, c), d
]

NESTED_QUICK = [
    T([T([("n", "a"), ("n", "b")]), ("n", "c")]),                                   # (a, b), c
    T([("n", "a"), T([("n", "b")], "c")]),                                          # a, (b, *c)
    T([T([("n", "a")], "b")], "c", [("n", "d")]),                                   # (a, *b), *c, d
    T([T([("n", "a"), T([("n", "b"), ("n", "c")])]), ("n", "d")]),                  # [a, [b, c]], d
    T([], "a", [T([("n", "b"), ("n", "c")])]),                                      # *a, (b, c)
    T([T([("n", "a")])], "b", [T([("n", "c"), ("n", "d")])]),                       # (a,), *b, (c, d)
]


def random_nested(rng, depth=0, budget=None):
    budget = budget if budget is not None else [6]
    n = rng.randrange(1, 4)
    star_at = rng.choice([None] + list(range(n)))
    items = []
    for i in range(n):
        if budget[0] <= 0:
            break
        if i == star_at:
            items.append("*")
            budget[0] -= 1
        elif depth < 2 and rng.random() < 0.4 and budget[0] >= 2:
            items.append(random_nested(rng, depth + 1, budget))
        else:
            items.append(("n", None))
            budget[0] -= 1
    if not items:
        items = [("n", None)]
    if "*" in items:
        p = items.index("*")
        return T(items[:p], "?", items[p + 1:])
    return T(items)


def rename(t, counter):
    if t[0] == "n":
        x = NAMES[counter[0]]; counter[0] += 1
        return ("n", x)
    ls = [rename(x, counter) for x in t[1]]
    st = None
    if t[2] is not None:
        st = NAMES[counter[0]]; counter[0] += 1
    rs = [rename(x, counter) for x in t[3]]
    return ("q", ls, st, rs)


# ------------------------------------------------------------------------------------------------
# values
# ------------------------------------------------------------------------------------------------
#  flavor -> (model kind, logs, ending)
FLAVORS = {
    "tuple": ("t", 0, "s"), "list": ("l", 0, "s"),
    "tuplesub": ("u", 0, "s"), "tuplesub_iter": ("u", 0, "s"), "listsub": ("o", 0, "s"),
    "it": ("o", 1, "s"), "it_raise": ("o", 1, "r"), "gen": ("o", 0, "s"), "gen_raise": ("o", 0, "r"),
    "str": ("o", 0, "s"), "bytes": ("o", 0, "s"), "dict": ("o", 0, "s"), "set": ("o", 0, "s"),
    "range": ("o", 0, "s"), "getitem": ("o", 0, "s"), "deque": ("o", 0, "s"),
}
FLAT_ONLY = ("str", "bytes", "range", "set", "dict")          # items must be atoms of a special sort
NEST_FLAVORS = ["list", "tuple", "it", "it_raise", "gen", "listsub", "tuplesub", "getitem", "gen_raise", "deque",
                "tuplesub_iter"]


class VB:
    """value builder for one case: unique atom numbers and object ids"""
    def __init__(self):
        self.z = 0
        self.oid = 0

    def atom(self, sort="i"):
        self.z += 1
        return ["a", self.z, sort]

    def seq(self, flavor, items, store=None):
        self.oid += 1
        d = ["s", flavor, self.oid, items]
        if store is not None:
            d.append(store)
        return d

    def flat_seq(self, flavor, n):
        if flavor == "str":
            items = [self.atom("c") for _ in range(n)]
        elif flavor == "bytes":
            items = [self.atom("b") for _ in range(n)]
        elif flavor == "range":
            items = [self.atom("i") for _ in range(n)]          # consecutive numbers
        elif flavor == "set":
            items = [self.atom("i") for _ in range(n)]
            order = list(set(a[1] for a in items))               # iteration order of a set of small ints
            items = [["a", z, "i"] for z in order]
        else:
            items = [self.atom() for _ in range(n)]
        if flavor == "tuplesub_iter":
            # the stored tuple has one item more than what __iter__ yields, or two fewer
            ns = n + 1 if n <= 2 else n - 2
            return self.seq(flavor, items, [self.atom() for _ in range(ns)])
        return self.seq(flavor, items)


def v_tok(d):
    if d[0] == "a":
        return ["a", str(d[1])]
    kind, logs, end = FLAVORS[d[1]]
    hdr = [kind, str(d[2]), str(logs), end]
    out = []
    if len(d) > 4:
        out = ["S"] + hdr + [str(len(d[4]))]
        for x in d[4]:
            out += v_tok(x)
    else:
        out = ["s"] + hdr
    out.append(str(len(d[3])))
    for x in d[3]:
        out += v_tok(x)
    return out


def fit(vb, t, plan, path=(), default_flavor="list"):
    """a value for target t; plan: {level path: (flavor, delta | 'atom')}; other levels exact lists"""
    if t[0] == "n":
        return vb.atom()
    flavor, delta = plan.get(path, (default_flavor, 0))
    if delta == "atom":
        return vb.atom()
    ls, rs = t[1], t[3]
    nmin = len(ls) + len(rs)
    count = max(nmin + delta, 0)
    subs = [None] * count
    for i, x in enumerate(ls):
        if i < count:
            subs[i] = (x, path + (i,))
    for j, x in enumerate(rs):
        pos = count - len(rs) + j
        if 0 <= pos < count and subs[pos] is None and count >= nmin:
            subs[pos] = (x, path + (len(ls) + j,))
    items = []
    for s in subs:
        if s is None:
            items.append(vb.atom())
        else:
            items.append(fit(vb, s[0], plan, s[1], default_flavor))
    if flavor == "tuplesub_iter":
        return vb.seq(flavor, items, [vb.atom() for _ in range(len(items) + 1)])
    return vb.seq(flavor, items)


# ------------------------------------------------------------------------------------------------
# contexts: source templates
# ------------------------------------------------------------------------------------------------
#  ctx -> (stype token for the model, argument wrapper in the worker)
CTXS = {
    "assign": "o", "guarded": "o", "for": "o", "listcomp": "o", "genexpr": "o", "dictcomp": "o",
    "aslist": "l", "astuple": "t", "asstr": "b", "asbytes": "b", "items": "items", "items_comp": "items",
    "with": "o",
}


def fn_source(name, ctx, t):
    ts = t_src(t)
    names = t_names(t)
    tup = "(" + ", ".join(names) + ("," if len(names) == 1 else "") + ")"
    if ctx == "assign":
        return "def %s(s):\n    %s = s\n    return %s\n" % (name, ts, tup)
    if ctx == "guarded":
        return ("def %s(s):\n    %s = SENT\n    try:\n        %s = s\n    except Exception as ex:\n"
                "        return ('E', ex, %s)\n    return ('R', None, %s)\n"
                % (name, " = ".join(names), ts, tup, tup))
    if ctx == "for":
        return ("def %s(ss):\n    out = []\n    for %s in ss:\n        out.append(%s)\n    return out\n"
                % (name, ts, tup))
    if ctx == "listcomp":
        return "def %s(ss):\n    return [%s for %s in ss]\n" % (name, tup, ts)
    if ctx == "genexpr":
        return "def %s(ss):\n    return list(%s for %s in ss)\n" % (name, tup, ts)
    if ctx == "dictcomp":
        return "def %s(ss):\n    return list({0: %s for %s in ss}.values())\n" % (name, tup, ts)
    if ctx in ("aslist", "astuple", "asstr", "asbytes"):
        conv = {"aslist": "list", "astuple": "tuple", "asstr": "str", "asbytes": "bytes"}[ctx]
        return "def %s(s):\n    %s = %s(s)\n    return %s\n" % (name, ts, conv, tup)
    if ctx == "items":
        return ("def %s(o):\n    out = []\n    for %s in o.items():\n        out.append(%s)\n    return out\n"
                % (name, ts, tup))
    if ctx == "items_comp":
        return "def %s(o):\n    return [%s for %s in o.items()]\n" % (name, tup, ts)
    if ctx == "with":
        return "def %s(cm):\n    with cm as (%s):\n        pass\n    return %s\n" % (name, ts, tup)
    raise ValueError(ctx)


WORKER = r'''
import sys, json, types, collections
spec = json.load(sys.stdin)
start = spec["start"]
mods = {}
for name, path in spec["modules"]:
    if spec["mode"] == "cpython":
        m = types.ModuleType(name)
        exec(compile(open(path).read(), path, "exec"), m.__dict__)
    else:
        m = __import__(name)
    mods[name] = m

LOG = []
class ItErr(Exception):
    pass
class It:
    def __init__(self, oid, items, raises):
        self.oid, self.items, self.raises, self.pos, self.done = oid, items, raises, 0, False
    def __iter__(self):
        return self
    def __next__(self):
        LOG.append(self.oid)
        if self.done:
            raise StopIteration
        if self.pos < len(self.items):
            self.pos += 1
            return self.items[self.pos - 1]
        self.done = True
        if self.raises:
            raise ItErr(self.oid)
        raise StopIteration
class TS(tuple):
    pass
class TSI(tuple):
    def __iter__(self):
        return iter(list(self.yielded))
class LS(list):
    pass
class GI:
    def __init__(self, items):
        self.items = items
    def __getitem__(self, i):
        return self.items[i]
class O:
    def __init__(self, l):
        self.l = l
    def items(self):
        return self.l
class CM:
    def __init__(self, v):
        self.v = v
    def __enter__(self):
        return self.v
    def __exit__(self, *a):
        return False
def gen(oid, items, raises):
    for x in items:
        yield x
    if raises:
        raise ItErr(oid)

def build(d, REG, ATOM, KEEP):
    if d[0] == "a":
        z, sort = d[1], d[2]
        v = {"i": z, "c": chr(96 + z), "b": z, "none": None}[sort]
        ATOM[(type(v).__name__, v)] = "a%d" % z
        return v
    flavor, oid = d[1], d[2]
    items = [build(x, REG, ATOM, KEEP) for x in d[3]]
    if flavor == "tuple": v = tuple(items)
    elif flavor == "list": v = list(items)
    elif flavor == "tuplesub": v = TS(items)
    elif flavor == "tuplesub_iter":
        v = TSI([build(x, REG, ATOM, KEEP) for x in d[4]]); v.yielded = items
    elif flavor == "listsub": v = LS(items)
    elif flavor == "it": v = It(oid, items, False)
    elif flavor == "it_raise": v = It(oid, items, True)
    elif flavor == "gen": v = gen(oid, items, False)
    elif flavor == "gen_raise": v = gen(oid, items, True)
    elif flavor == "str": v = "".join(items)
    elif flavor == "bytes": v = bytes(items)
    elif flavor == "dict": v = dict((k, None) for k in items)
    elif flavor == "set": v = set(items)
    elif flavor == "range": v = range(items[0], items[0] + len(items)) if items else range(0)
    elif flavor == "getitem": v = GI(items)
    elif flavor == "deque": v = collections.deque(items)
    else: raise ValueError(flavor)
    REG[id(v)] = "o%d" % oid
    KEEP.append(v)
    return v

def canon(x, SENT, REG, ATOM, depth=0):
    if x is SENT:
        return "-"
    if isinstance(x, (int, str)) or x is None:
        a = ATOM.get((type(x).__name__, x))
        if a is not None:
            return a
    k = REG.get(id(x))
    if k is not None:
        return k
    if type(x) is list and depth < 8:
        return "l[" + ",".join(canon(i, SENT, REG, ATOM, depth + 1) for i in x) + "]"
    return "?" + type(x).__name__ + ":" + repr(x)[:60]

for i in range(start, len(spec["cases"])):
    c = spec["cases"][i]
    sys.stdout.write(json.dumps({"begin": i}) + "\n"); sys.stdout.flush()
    m = mods[c["mod"]]
    f = getattr(m, c["fn"])
    REG, ATOM, KEEP = {}, {}, []
    v = build(c["val"], REG, ATOM, KEEP)
    ctx = c["ctx"]
    if ctx in ("for", "listcomp", "genexpr", "dictcomp"): arg = [v]
    elif ctx in ("items", "items_comp"): arg = O([v])
    elif ctx == "with": arg = CM(v)
    else: arg = v
    del LOG[:]
    res = {"i": i}
    try:
        r = f(arg)
        if ctx == "guarded":
            tag, ex, r = r
            if tag == "E":
                raise_ex = ex
            else:
                raise_ex = None
        else:
            raise_ex = None
            if ctx in ("for", "listcomp", "genexpr", "dictcomp", "items", "items_comp"):
                if type(r) is not list or len(r) != 1:
                    res["bad"] = repr(r)[:200]
                    r = ()
                else:
                    r = r[0]
        if type(r) is not tuple:
            res["bad"] = repr(r)[:200]; r = ()
        res["store"] = [canon(x, m.SENT, REG, ATOM) for x in r]
    except Exception as ex:
        raise_ex = ex
        res["store"] = None
    if raise_ex is not None:
        res["exc"] = type(raise_ex).__name__
        res["msg"] = str(raise_ex)[:200]
        if isinstance(raise_ex, ItErr):
            res["msg"] = "oid %s" % (raise_ex.args[0] if raise_ex.args else "?")
    res["log"] = list(LOG)
    sys.stdout.write(json.dumps(res) + "\n"); sys.stdout.flush()
print(json.dumps({"done": 1}))
'''


def run_worker(ctx, mode, modules, cases, tag):
    """returns list of results (dict per case; {"crash": ...} for a case that killed the process)"""
    results = [None] * len(cases)
    start, crashes = 0, 0
    while start < len(cases) and crashes < 25:
        spec = {"mode": mode, "modules": modules, "cases": cases, "start": start}
        r = cybuild.run_script(WORKER, ctx.workdir, spec, timeout=1500, name="unpack_worker_%s.py" % tag)
        begun, done = None, False
        for line in r["out"].splitlines():
            try:
                d = json.loads(line)
            except Exception:
                continue
            if "begin" in d:
                begun = d["begin"]
            elif "i" in d:
                results[d["i"]] = d
                begun = None
            elif "done" in d:
                done = True
        if done:
            break
        crashes += 1
        if begun is None:
            for i in range(start, len(cases)):
                if results[i] is None:
                    results[i] = {"crash": "worker rc=%s %s" % (r["rc"], r["err"][-300:])}
            break
        results[begun] = {"crash": "rc=%s %s" % (r["rc"], r["err"][-200:])}
        start = begun + 1
    for i in range(len(cases)):
        if results[i] is None:
            results[i] = {"crash": "not run"}
    return results


# ------------------------------------------------------------------------------------------------
# plan
# ------------------------------------------------------------------------------------------------
def shapes_for(ctx, quick, rng):
    """[(target, family)] per tier"""
    maxn = 4 if quick else 6
    flats = [(flat(n, p), "flat") for n in range(1, maxn + 1) for p in [None] + list(range(n))]
    if quick:
        flats.append((flat(5, None), "flat"))
    nested = [(t, "nested") for t in NESTED_QUICK]
    if not quick:
        seen = set(t_src(t) for t, _ in nested)
        for _ in range(60):
            t = rename(random_nested(rng), [0])
            if len(t_names(t)) <= len(NAMES) and t_src(t) not in seen and t_levels(t) and len(t_levels(t)) > 1:
                seen.add(t_src(t)); nested.append((t, "nested"))
            if len(nested) >= 22:
                break
    return flats, nested


def build_plan(ctx):
    quick = ctx.tier == "quick"
    rng = ctx.rng
    flats, nested = shapes_for(None, quick, rng)
    funcs = []       # dict(name, ctx, t, family)

    def add(ctxname, t, family):
        funcs.append({"name": "u%d" % len(funcs), "ctx": ctxname, "t": t, "family": family})

    def pick(l, k):
        return l if len(l) <= k else rng.sample(l, k)

    for t, fam in flats:
        add("assign", t, fam)
    for t, fam in nested:
        add("guarded", t, fam)
    if quick:
        for_sh = [flat(2, None), flat(2, 1), flat(2, 0), flat(3, 1), flat(4, None), NESTED_QUICK[2]]
        for t in for_sh:
            add("for", t, "flat" if t in [x for x, _ in flats] else "nested")
        for t in [flat(3, 1), flat(3, 0), NESTED_QUICK[0]]:
            add("listcomp", t, "flat" if t[2] is not None else "nested")
        add("genexpr", flat(4, 2), "flat")
        add("aslist", flat(2, None), "flat"); add("aslist", flat(3, 0), "flat")
        add("astuple", flat(4, None), "flat"); add("astuple", flat(3, 2), "flat")
        add("asstr", flat(2, None), "flat"); add("asbytes", flat(3, 1), "flat")
        add("items", flat(2, None), "flat")
        add("items", T([("n", "a"), T([("n", "b")], "c")]), "nested")
        add("guarded", flat(3, 1), "flat")
        add("with", flat(2, 0), "flat")
        add("assign", STARSEQ[0], "starseq"); add("assign", STARSEQ[1], "starseq")
    else:
        for c in ("for", "listcomp", "genexpr", "dictcomp", "aslist", "astuple", "guarded", "with"):
            for t, fam in flats:
                add(c, t, fam)
        for c in ("for", "listcomp", "genexpr", "with"):
            for t, fam in nested:
                add(c, t, fam)
        for c in ("asstr", "asbytes"):
            for t, fam in flats:
                if len(t_names(t)) <= 4:
                    add(c, t, fam)
        for t in STARSEQ:
            add("assign", t, "starseq"); add("for", t, "starseq")
        for c in ("items", "items_comp"):
            add(c, flat(2, None), "flat")
            add(c, T([("n", "a"), T([("n", "b")], "c")]), "nested")
            add(c, T([T([("n", "a"), ("n", "b")]), ("n", "c")]), "nested")
            add(c, T([T([("n", "a")], "b", [("n", "c")]), T([("n", "d")])]), "nested")
    # cases
    cases = []
    flat_flavors = list(FLAVORS)
    for f in funcs:
        t, c = f["t"], f["ctx"]
        n = len(t[1]) + len(t[3])
        if f["family"] == "starseq":
            for flv in ("it", "list", "tuple", "gen", "it_raise"):
                for ln in range(0, 7):
                    vb = VB()
                    cases.append({"fn": f, "val": vb.flat_seq(flv, ln), "top": flv, "len": ln})
        elif f["family"] == "flat":
            if c == "aslist": fl = ["list"]
            elif c == "astuple": fl = ["tuple"]
            elif c == "asstr": fl = ["str"]
            elif c == "asbytes": fl = ["bytes"]
            elif c == "assign" or not quick: fl = flat_flavors
            elif c in ("items", "items_comp"): fl = flat_flavors
            else: fl = ["tuple", "list", "it", "it_raise", "gen", "str", "listsub", "tuplesub_iter"]
            for flv in fl:
                for ln in range(0, n + 3):
                    vb = VB()
                    cases.append({"fn": f, "val": vb.flat_seq(flv, ln), "top": flv, "len": ln})
            if c not in ("aslist", "astuple", "asstr", "asbytes"):
                vb = VB(); cases.append({"fn": f, "val": vb.atom(), "top": "atom", "len": -1})
                vb = VB(); cases.append({"fn": f, "val": ["a", 1, "none"], "top": "atom", "len": -1})
        else:
            levels = t_levels(t)
            flv_here = NEST_FLAVORS if (not quick or c in ("guarded", "items")) else ["list", "tuple", "it", "it_raise", "gen"]
            # all levels exact, one flavour everywhere
            for flv in flv_here:
                vb = VB()
                cases.append({"fn": f, "val": fit(vb, t, {}, default_flavor=flv), "top": flv, "len": 0})
            for lv in levels:
                for flv in flv_here:
                    for delta in (-99, -1, 1, 2, "atom"):
                        if delta == "atom" and flv != flv_here[0]:
                            continue
                        vb = VB()
                        outer = rng.choice(["list", "tuple", "it", "gen"])
                        val = fit(vb, t, {lv: (flv, delta)}, default_flavor=outer)
                        top = val[1] if val[0] == "s" else "atom"
                        cases.append({"fn": f, "val": val, "top": top, "len": delta})
    return funcs, cases


# ------------------------------------------------------------------------------------------------
# outcomes
# ------------------------------------------------------------------------------------------------
RE_CY_MORE = re.compile(r"^need more than (\d+) values? to unpack$")
RE_MANY = re.compile(r"^too many values to unpack \(expected (\d+)\)$")
RE_PY_FEW = re.compile(r"^not enough values to unpack \(expected (at least )?(\d+), got (\d+)\)$")


def observed(res, names, side):
    """worker result -> (store dict | None, log, exc token)"""
    if "crash" in res:
        return {"crash": res["crash"]}
    if res.get("bad"):
        return {"bad": res["bad"]}
    exc = "ok"
    if "exc" in res:
        e, msg = res["exc"], res.get("msg", "")
        if e == "ItErr":
            exc = "Iter:" + msg.split()[-1]
        elif e == "TypeError":
            exc = "TypeError"
        elif e == "ValueError":
            m = RE_MANY.match(msg)
            if m:
                exc = "TooMany:" + m.group(1)
            elif side == "cy" and RE_CY_MORE.match(msg):
                exc = "NeedMore:" + RE_CY_MORE.match(msg).group(1)
            elif side == "py" and RE_PY_FEW.match(msg):
                m = RE_PY_FEW.match(msg)
                exc = "NotEnough:%s:%d:%s" % (m.group(2), 1 if m.group(1) else 0, m.group(3))
            else:
                exc = "ValueError?" + msg
        else:
            exc = e + "?" + msg
    store = None
    if res.get("store") is not None:
        store = dict(zip(names, res["store"]))
    return {"store": store, "log": res["log"], "exc": exc, "type": res.get("exc"), "msg": res.get("msg")}


def model_outcome(line, names, guarded):
    """'<events> ; <result>' -> same structure. Unguarded contexts show the store only on success."""
    if line.startswith("!") or " ; " not in line:
        return {"bad": line}
    evs, resu = line.split(" ; ")
    store = dict((x, "-") for x in names)
    log = []
    for e in ([] if evs == "-" else evs.split(" ")):
        if e[0] == "N":
            log.append(int(e[1:]))
        else:
            x, v = e[1:].split("=", 1)
            store[NAMES[int(x)]] = v
    exc = "ok" if resu == "ok" else resu[2:] if resu.startswith("E:") else resu
    if exc != "ok" and not guarded:
        store = None
    return {"store": store, "log": log, "exc": exc}


def exc_type(tok):
    if tok == "ok":
        return None
    h = tok.split(":")[0]
    return {"NeedMore": "ValueError", "NotEnough": "ValueError", "TooMany": "ValueError", "Iter": "ItErr",
            "TypeError": "TypeError"}.get(h, tok)


def prepare(ctx):
    quick = ctx.tier == "quick"
    wd = ctx.workdir
    funcs, cases = build_plan(ctx)
    per_mod = 64 if quick else 100
    modules = []
    for i in range(0, len(funcs), per_mod):
        name = "c01u_%d" % (i // per_mod)
        chunk = funcs[i:i + per_mod]
        src = "# cython: language_level=3\nSENT = object()\n\n" + "\n".join(
            fn_source(f["name"], f["ctx"], f["t"]) for f in chunk)
        for f in chunk:
            f["mod"] = name
        path = os.path.join(wd, name + "_src.py")
        with open(path, "w") as fh:
            fh.write(src)
        modules.append({"name": name, "source": src, "path": path, "funcs": chunk})
    return modules, funcs, cases


def build_specs(modules, wd):
    return [dict(name=m["name"], source=m["source"], workdir=wd, suffix=".py", cflags=["-O0"]) for m in modules]


def classify(case):
    f = case["fn"]
    if f["family"] == "starseq":
        return "starred_sequence_target_flattened"
    if f["ctx"] in ("items", "items_comp") and case["top"] == "tuplesub_iter":
        return "items_loop_tuple_subclass_iter_ignored"
    return "unpack_wrong_behaviour"


def compare(ctx, modules, built, funcs, cases, fx_tuple2):
    ok_mods = []
    for m, (so, err) in zip(modules, built):
        if err is not None:
            ctx.fail("valid_program_does_not_build", {"module": m["name"], "source": m["source"][:3000]},
                     str(err)[-1500:], "the unpacking module compiles (CPython runs the same source)")
        else:
            ok_mods.append(m["name"])
    live = [c for c in cases if c["fn"]["mod"] in ok_mods]
    wcases = [{"mod": c["fn"]["mod"], "fn": c["fn"]["name"], "ctx": c["fn"]["ctx"], "val": c["val"]} for c in live]
    py = run_worker(ctx, "cpython", [[m["name"], m["path"]] for m in modules if m["name"] in ok_mods], wcases, "py")
    cy = run_worker(ctx, "compiled", [[n, None] for n in ok_mods], wcases, "cy")
    model = ctx.model("unpack")
    q = []
    for c in live:
        f = c["fn"]
        if f["family"] == "starseq":
            q.append("badcmd"); q.append("badcmd")
            continue
        tt, vt = " ".join(t_tok(f["t"])), " ".join(v_tok(c["val"]))
        st = CTXS[f["ctx"]]
        if st == "items":
            q.append("items %s %s %s" % (fx_tuple2, tt, vt))
        else:
            q.append("cy %s %s %s" % (st, tt, vt))
        q.append("ref %s %s" % (tt, vt))
    mres = model.batch(q)
    n_msg = 0
    for k, c in enumerate(live):
        f = c["fn"]
        names = t_names(f["t"])
        guarded = f["ctx"] == "guarded"
        inp = {"function": fn_source(f["name"], f["ctx"], f["t"]), "context": f["ctx"], "value": c["val"],
               "target": t_src(f["t"])}
        o_cy, o_py = observed(cy[k], names, "cy"), observed(py[k], names, "py")
        if f["family"] == "starseq":
            # no model: the compiler rewrites the target list; compiled vs CPython only
            ctx.case("unpack/%s/starseq" % f["ctx"], inp, sig=(t_src(f["t"]), f["ctx"], json.dumps(c["val"])))
            if "crash" in o_py or "bad" in o_py:
                ctx.corr_break("unpack oracle run", inp, o_py, "runs")
            elif "crash" in o_cy:
                ctx.fail("crash", inp, o_cy, o_py)
            elif "bad" in o_cy or (o_cy["store"], o_cy["log"], o_cy["type"]) != (o_py["store"], o_py["log"], o_py["type"]) \
                    or o_cy["exc"].split(":")[-1] != o_py["exc"].split(":")[-1]:
                ctx.fail(classify(c), inp, o_cy, o_py)
            continue
        m_cy, m_ref = model_outcome(mres[2 * k], names, guarded), model_outcome(mres[2 * k + 1], names, guarded)
        outcome = m_ref.get("exc", "?").split(":")[0]
        ctx.case("unpack/%s/%s/%s" % (f["ctx"], f["family"], outcome), inp,
                 sig=(t_src(f["t"]), f["ctx"], json.dumps(c["val"])))
        if "bad" in m_cy or "bad" in m_ref or m_cy["exc"] in ("STUCK", "OOB"):
            ctx.corr_break("unpack model outcome", inp, m_cy, m_ref)
            continue
        if "crash" in o_py or "bad" in o_py:
            ctx.corr_break("unpack oracle run", inp, o_py, m_ref)
            continue
        # reference model vs CPython
        if (o_py["store"], o_py["log"], o_py["exc"]) != (m_ref["store"], m_ref["log"], m_ref["exc"]):
            ctx.corr_break("ref_assign vs cpython", inp, o_py, m_ref)
        # the property: compiled vs CPython
        if "crash" in o_cy:
            ctx.fail("crash", inp, o_cy, o_py)
            continue
        if "bad" in o_cy:
            ctx.fail(classify(c), inp, o_cy, o_py)
            continue
        same = (o_cy["store"] == o_py["store"] and o_cy["log"] == o_py["log"] and o_cy["type"] == o_py["type"])
        if not same:
            ctx.fail(classify(c), inp, o_cy, o_py)
        elif (o_cy["exc"].startswith("NeedMore:") and o_py["exc"].startswith("NotEnough:")
              and o_cy["exc"].split(":")[-1] != o_py["exc"].split(":")[-1]):
            # the wording differs by design, the reported number of values received must not
            k2 = classify(c)
            ctx.fail(k2 if k2 != "unpack_wrong_behaviour" else "unpack_wrong_count_in_message", inp, o_cy["msg"], o_py["msg"])
        elif o_cy["msg"] != o_py["msg"]:
            # same exception type, other args: the wording of "need more values" / "not iterable" is a
            # registered class; any other difference in the message is not
            if exc_type(m_ref["exc"]) in ("ValueError", "TypeError") and m_ref["exc"].split(":")[0] in ("NotEnough", "TypeError"):
                n_msg += 1
                ctx.fail("unpack_error_message_wording", inp, o_cy["msg"], o_py["msg"])
            else:
                k2 = classify(c)
                ctx.fail(k2 if k2 != "unpack_wrong_behaviour" else "unpack_wrong_message", inp, o_cy["msg"], o_py["msg"])
        # tie: model of the generated code vs compiled
        if (o_cy["store"], o_cy["log"], o_cy["exc"]) != (m_cy["store"], m_cy["log"], m_cy["exc"]):
            ctx.corr_break("cy_assign vs compiled", inp, o_cy, m_cy)
    ctx.extra["unpack"] = {"functions": len(funcs), "cases": len(live), "message_wording_differs": n_msg,
                           "shapes": sorted(set(t_src(f["t"]) for f in funcs))[:80]}
