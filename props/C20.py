"""C20 - Operands and targets are evaluated left-to-right exactly once (DESIGN 7/C20)."""
import json, os, itertools
import cybuild

TITLE = "Operands and targets are evaluated left-to-right exactly once"
EXTRACTS = ["EvalOrder"]
RULE = ("statements (expression statements, single/cascaded/unpacking assignments, augmented assignments) over "
        "expression trees of depth <= 4 built from every modelled node kind, all of whose leaves are logging calls "
        "T(k)/F(k)/U(k)/D(k) (truthy / falsy logging object, plain tuple, plain dict) with distinct tags; first an "
        "enumeration of every node kind at every child position with leaf operands (exhaustive small shapes), then "
        "PRNG trees; distinct by source text; non-trivial = at least two leaves")
EXPLANATION = ("theorems: for every expression/statement of the modelled language the temp-machine code produced by the "
               "model of the code generator (gen) runs without error, writes only fresh temps and yields exactly the "
               "event trace, value and variable environment of the CPython-order reference semantics, for ANY "
               "semantics of the primitive operations; every leaf is evaluated at most once, and exactly once in "
               "statements without and/or/conditional/chained comparison (in particular in-place forms); "
               "min/max unrolling as the transform does it is refuted (F18) and the repaired variant is proved. "
               "partial: the temp machine models the ordering discipline of ExprNodes/Nodes (sub-expressions in subexprs "
               "order into temps, then the node's operation), it is tied to the compiler behaviourally only, by the "
               "compiled-module vs model vs CPython event-log comparison.")
TRUSTED = ["CPython 3.12 executing the same source with the same logging runtime = property oracle",
           "the logging runtime (c20rt.py): every observable operation of a logging object appends one event",
           "gcc as a conforming C compiler"]
ASSUMPTIONS = ["leaves are pure logging calls: they do not rebind the variables of the statement under test",
               "hashing/iteration of containers is not an event (plain tuples/dicts as * and ** operands)"]

# set to True after proposed_fixes/C20-minmax_first_arg_evaluated_last.diff is applied to /repo
MINMAX_FIXED = os.environ.get("C20_MINMAX_FIXED", "0") == "1"

# --------------------------------------------------------------------------------------
# logging runtime shared by the compiled module and the CPython oracle
RUNTIME = r'''
LOG = []

def truth(v):
    if isinstance(v, O):
        return object.__getattribute__(v, 't')
    if v is None:
        return False
    if isinstance(v, (tuple, list, set, frozenset, dict, str)):
        return len(v) > 0
    return bool(v)

def nm(v):
    if isinstance(v, O):
        return object.__getattribute__(v, 'n')
    if v is True: return 'True'
    if v is False: return 'False'
    if v is None: return 'None'
    if isinstance(v, tuple): return 'tuple(' + ','.join(nm(x) for x in v) + ')'
    if isinstance(v, list): return 'list(' + ','.join(nm(x) for x in v) + ')'
    if isinstance(v, (set, frozenset)): return 'set(' + ','.join(sorted(nm(x) for x in v)) + ')'
    if isinstance(v, dict): return 'dict(' + ','.join(nm(k) + ':' + nm(x) for k, x in v.items()) + ')'
    if isinstance(v, slice): return 'slice(' + nm(v.start) + ',' + nm(v.stop) + ',' + nm(v.step) + ')'
    if isinstance(v, str): return 'str<' + v + '>'
    return '?' + repr(v)

def mk(op, args):
    t = True
    for a in args:
        if truth(a):
            t = not t
    return O(op + '(' + ','.join(nm(a) for a in args) + ')', t)

def ev(op, args):
    LOG.append(op + '(' + ','.join(nm(a) for a in args) + ')')
    return mk(op, args)

class O(object):
    __slots__ = ('n', 't')
    def __init__(self, n, t):
        object.__setattr__(self, 'n', n)
        object.__setattr__(self, 't', t)
    def __repr__(self): return nm(self)
    def __hash__(self): return hash(nm(self))
    def __bool__(self):
        LOG.append('bool(' + nm(self) + ')')
        return truth(self)
    def __add__(self, o): return ev('add', (self, o))
    def __radd__(self, o): return ev('add', (o, self))
    def __mul__(self, o): return ev('mul', (self, o))
    def __rmul__(self, o): return ev('mul', (o, self))
    def __sub__(self, o): return ev('sub', (self, o))
    def __rsub__(self, o): return ev('sub', (o, self))
    def __or__(self, o): return ev('bor', (self, o))
    def __ror__(self, o): return ev('bor', (o, self))
    def __iadd__(self, o): return ev('iadd', (self, o))
    def __imul__(self, o): return ev('imul', (self, o))
    def __isub__(self, o): return ev('isub', (self, o))
    def __ior__(self, o): return ev('ibor', (self, o))
    def __neg__(self): return ev('neg', (self,))
    def __invert__(self): return ev('inv', (self,))
    def __lt__(self, o): return ev('lt', (self, o))
    def __gt__(self, o): return ev('gt', (self, o))
    def __le__(self, o): return ev('le', (self, o))
    def __ge__(self, o): return ev('ge', (self, o))
    def __eq__(self, o): return ev('eq', (self, o))
    def __ne__(self, o): return ev('ne', (self, o))
    def __contains__(self, o): return ev('contains', (self, o))
    def __getitem__(self, i): return ev('getitem', (self, i))
    def __setitem__(self, i, v): ev('setitem', (self, i, v))
    def __delitem__(self, i): ev('delitem', (self, i))
    def __getattr__(self, a): return ev('getattr_' + a, (self,))
    def __setattr__(self, a, v): ev('setattr_' + a, (self, v))
    def __delattr__(self, a): ev('delattr_' + a, (self,))
    def __format__(self, spec): return nm(ev('format', (self,)))
    def __iter__(self):
        LOG.append('iter(' + nm(self) + ')')
        return iter((O('item0(' + nm(self) + ')', True), O('item1(' + nm(self) + ')', False)))
    def __call__(self, *a, **k):
        LOG.append('call(' + ','.join([nm(self)] + [nm(x) for x in a] + [kk + '=' + nm(x) for kk, x in k.items()]) + ')')
        t = not truth(self)
        for x in a:
            if truth(x): t = not t
        for x in k.values():
            if truth(x): t = not t
        return O('call(' + ','.join([nm(self)] + [nm(x) for x in a] + [kk + '=' + nm(x) for kk, x in k.items()]) + ')', t)

def T(k):
    LOG.append('L%d' % k); return O('T%d' % k, True)
def F(k):
    LOG.append('L%d' % k); return O('F%d' % k, False)
def U(k):
    LOG.append('L%d' % k); return (O('U%da' % k, True), O('U%db' % k, False))
def D(k):
    LOG.append('L%d' % k); return {'d%d' % k: O('D%d' % k, True)}

def run_case(fn):
    del LOG[:]
    try:
        r = fn()
        res = nm(r)
    except BaseException as e:
        res = 'EXC ' + type(e).__name__ + ': ' + str(e)[:200]
    return [list(LOG), res]
'''

# --------------------------------------------------------------------------------------
# abstract syntax (nested tuples) and its rendering to Python source
#   expr: ('leaf', kind, k) | ('name', x) | ('bin', op, a, b) | ('un', op, a) | ('cmp', [ops], [es])
#         | ('and', a, b) | ('or', a, b) | ('cond', c, a, b) | ('call', f, [arg]) | ('disp', kind, [item])
#         | ('dict', [(k, v)]) | ('sub', a, i) | ('slice', a, lo, hi, step) | ('attr', a, name)
#         | ('minmax', which, [es]) | ('fstr', [es])
#   arg : ('pos', e) | ('kw', name, e) | ('star', e) | ('dstar', e);   item: ('pos', e) | ('star', e)
#   target: ('name', x) | ('sub', a, i) | ('slice', a, lo, hi, None) | ('attr', a, name) | ('tup', [target])
#   stmt: ('expr', e) | ('assign', [target], e) | ('aug', target, op, e) | ('del', target)
BINOPS = {"add": "+", "mul": "*", "sub": "-", "bor": "|"}
UNOPS = {"neg": "-", "inv": "~", "not": "not "}
CMPOPS = {"lt": "<", "gt": ">", "le": "<=", "ge": ">=", "eq": "==", "ne": "!=", "in": "in", "notin": "not in",
          "is": "is", "isnot": "is not"}
VARS = ["x", "y", "z"]


def r_expr(e):
    t = e[0]
    if t == "leaf":
        return "%s(%d)" % (e[1], e[2])
    if t == "name":
        return e[1]
    if t == "bin":
        return "(%s %s %s)" % (r_expr(e[2]), BINOPS[e[1]], r_expr(e[3]))
    if t == "un":
        return "(%s%s)" % (UNOPS[e[1]], r_expr(e[2]))
    if t == "cmp":
        s = r_expr(e[2][0])
        for op, x in zip(e[1], e[2][1:]):
            s += " %s %s" % (CMPOPS[op], r_expr(x))
        return "(" + s + ")"
    if t in ("and", "or"):
        return "(%s %s %s)" % (r_expr(e[1]), t, r_expr(e[2]))
    if t == "cond":
        return "(%s if %s else %s)" % (r_expr(e[2]), r_expr(e[1]), r_expr(e[3]))
    if t == "call":
        return "%s(%s)" % (r_expr(e[1]), ", ".join(r_arg(a) for a in e[2]))
    if t == "disp":
        items = [r_arg(a) for a in e[2]]
        if e[1] == "tuple":
            return "(" + ", ".join(items) + ("," if len(items) == 1 else "") + ")"
        if e[1] == "list":
            return "[" + ", ".join(items) + "]"
        return "{" + ", ".join(items) + "}"
    if t == "dict":
        return "{" + ", ".join("%s: %s" % (r_expr(k), r_expr(v)) for k, v in e[1]) + "}"
    if t == "sub":
        return "%s[%s]" % (r_prim(e[1]), r_expr(e[2]))
    if t == "slice":
        parts = [r_expr(x) if x is not None else "" for x in (e[2], e[3])]
        s = ":".join(parts)
        if e[4] is not None:
            s += ":" + r_expr(e[4])
        return "%s[%s]" % (r_prim(e[1]), s)
    if t == "attr":
        return "%s.%s" % (r_prim(e[1]), e[2])
    if t == "minmax":
        return "%s(%s)" % (e[1], ", ".join(r_expr(x) for x in e[2]))
    if t == "fstr":
        return 'f"' + "".join("{%s}" % r_expr(x) for x in e[1]) + '"'
    raise ValueError(e)


def r_prim(e):
    s = r_expr(e)
    return s if (s.endswith(")") or s.endswith("]") or e[0] in ("name", "attr")) and not s.startswith("f\"") else "(" + s + ")"


def r_arg(a):
    if a[0] == "pos":
        return r_expr(a[1])
    if a[0] == "kw":
        return "%s=%s" % (a[1], r_expr(a[2]))
    if a[0] == "star":
        return "*" + r_expr(a[1])
    return "**" + r_expr(a[1])


def r_target(t):
    if t[0] == "tup":
        return "(" + ", ".join(r_target(x) for x in t[1]) + ("," if len(t[1]) == 1 else "") + ")"
    return r_expr(t)


def r_stmt(s):
    if s[0] == "expr":
        return "r = " + r_expr(s[1])
    if s[0] == "assign":
        return " = ".join([r_target(t) for t in s[1]] + [r_expr(s[2])])
    if s[0] == "aug":
        return "%s %s= %s" % (r_target(s[1]), BINOPS[s[2]], r_expr(s[3]))
    if s[0] == "del":
        return "del " + r_target(s[1])
    raise ValueError(s)


def r_func(name, s):
    """def <name>(): variables x, y, z pre-bound to logging objects (silently); the statement; the
    returned value shows the result and the final variable values."""
    L = ["def %s():" % name,
         "    x = O('x', True); y = O('y', False); z = O('z', True); r = None",
         "    " + r_stmt(s),
         "    return (r, x, y, z)"]
    return "\n".join(L) + "\n"


# --------------------------------------------------------------------------------------
# serialisation for the model driver (prefix token list, single line)
def t_expr(e):
    t = e[0]
    if t == "leaf":
        return ["L", e[1], str(e[2])]
    if t == "name":
        return ["N", e[1]]
    if t == "bin":
        return ["B", e[1]] + t_expr(e[2]) + t_expr(e[3])
    if t == "un":
        return ["U", e[1]] + t_expr(e[2])
    if t == "cmp":
        out = ["C", str(len(e[1]))] + t_expr(e[2][0])
        for op, x in zip(e[1], e[2][1:]):
            out += [op] + t_expr(x)
        return out
    if t == "and":
        return ["A"] + t_expr(e[1]) + t_expr(e[2])
    if t == "or":
        return ["O"] + t_expr(e[1]) + t_expr(e[2])
    if t == "cond":
        return ["I"] + t_expr(e[1]) + t_expr(e[2]) + t_expr(e[3])
    if t == "call":
        return ["K", str(len(e[2]))] + t_expr(e[1]) + sum([t_arg(a) for a in e[2]], [])
    if t == "disp":
        return ["D", e[1], str(len(e[2]))] + sum([t_arg(a) for a in e[2]], [])
    if t == "dict":
        return ["M", str(len(e[1]))] + sum([t_expr(k) + t_expr(v) for k, v in e[1]], [])
    if t == "sub":
        return ["S"] + t_expr(e[1]) + t_expr(e[2])
    if t == "slice":
        out = ["Z"] + t_expr(e[1])
        for x in (e[2], e[3], e[4]):
            out += (["-"] if x is None else ["+"] + t_expr(x))
        return out
    if t == "attr":
        return ["T", e[2]] + t_expr(e[1])
    if t == "minmax":
        return ["X", e[1], str(len(e[2]))] + sum([t_expr(x) for x in e[2]], [])
    if t == "fstr":
        return ["F", str(len(e[1]))] + sum([t_expr(x) for x in e[1]], [])
    raise ValueError(e)


def t_arg(a):
    if a[0] == "pos":
        return ["p"] + t_expr(a[1])
    if a[0] == "kw":
        return ["k", a[1]] + t_expr(a[2])
    if a[0] == "star":
        return ["s"] + t_expr(a[1])
    return ["d"] + t_expr(a[1])


def t_target(t):
    if t[0] == "tup":
        return ["tt", str(len(t[1]))] + sum([t_target(x) for x in t[1]], [])
    if t[0] == "name":
        return ["tn", t[1]]
    if t[0] == "sub":
        return ["ts"] + t_expr(t[1]) + t_expr(t[2])
    if t[0] == "slice":
        out = ["tz"] + t_expr(t[1])
        for x in (t[2], t[3]):
            out += (["-"] if x is None else ["+"] + t_expr(x))
        return out
    if t[0] == "attr":
        return ["ta", t[2]] + t_expr(t[1])
    raise ValueError(t)


def t_stmt(s):
    if s[0] == "expr":
        return ["se"] + t_expr(s[1])
    if s[0] == "assign":
        return ["sa", str(len(s[1]))] + sum([t_target(t) for t in s[1]], []) + t_expr(s[2])
    if s[0] == "aug":
        return ["su", s[2]] + t_target(s[1]) + t_expr(s[3])
    if s[0] == "del":
        return ["sd"] + t_target(s[1])
    raise ValueError(s)


# --------------------------------------------------------------------------------------
# generation
class Gen(object):
    def __init__(self, rng):
        self.rng = rng
        self.k = 0

    def leaf(self, kind=None):
        self.k += 1
        if kind is None:
            kind = self.rng.choice("TTTFF")
        return ("leaf", kind, self.k)

    def expr(self, d):
        """random expression of depth <= d whose value is a logging object or any value"""
        r = self.rng
        if d <= 0 or r.random() < 0.12:
            return self.leaf()
        kind = r.choice(EXPR_KINDS)
        return self.node(kind, lambda: self.expr(d - 1))

    def node(self, kind, sub):
        """one node of the given kind whose children are produced by sub()"""
        r = self.rng
        if kind == "bin":
            return ("bin", r.choice(sorted(BINOPS)), sub(), sub())
        if kind == "un":
            return ("un", r.choice(sorted(UNOPS)), sub())
        if kind == "cmp1":
            return ("cmp", [r.choice(sorted(CMPOPS))], [sub(), sub()])
        if kind == "cmp2":
            return ("cmp", [r.choice(sorted(CMPOPS)), r.choice(sorted(CMPOPS))], [sub(), sub(), sub()])
        if kind == "cmp3":
            return ("cmp", [r.choice(sorted(CMPOPS)) for _ in range(3)], [sub() for _ in range(4)])
        if kind == "and":
            return ("and", sub(), sub())
        if kind == "or":
            return ("or", sub(), sub())
        if kind == "cond":
            return ("cond", sub(), sub(), sub())
        if kind == "call":
            return ("call", sub(), self.args(sub, r.randint(0, 4)))
        if kind == "mcall":
            return ("call", ("attr", sub(), r.choice(["m", "p"])), self.args(sub, r.randint(0, 3)))
        if kind in ("tuple", "list", "set"):
            n = r.randint(1, 3)
            items = []
            for _ in range(n):
                if r.random() < 0.2:
                    items.append(("star", self.leaf("U")))
                else:
                    items.append(("pos", sub()))
            return ("disp", kind, items)
        if kind == "dict":
            return ("dict", [(sub(), sub()) for _ in range(r.randint(1, 2))])
        if kind == "sub":
            return ("sub", sub(), sub())
        if kind == "slice":
            lo = sub() if r.random() < 0.7 else None
            hi = sub() if r.random() < 0.7 else None
            st = sub() if r.random() < 0.3 else None
            return ("slice", sub(), lo, hi, st)
        if kind == "attr":
            return ("attr", sub(), r.choice(["a", "b"]))
        if kind == "minmax":
            return ("minmax", r.choice(["min", "max"]), [sub() for _ in range(r.randint(2, 4))])
        if kind == "fstr":
            return ("fstr", [sub() for _ in range(r.randint(1, 3))])
        raise ValueError(kind)

    def args(self, sub, n):
        """argument list in a syntactically valid order: CPython accepts positional and * mixed, then
        keywords and ** mixed (a * after a keyword is legal too)"""
        r = self.rng
        out = []
        seen_kw = False
        seen_dstar = False
        names = ["ka", "kb", "kc", "kd"]
        for _ in range(n):
            c = r.random()
            if c < 0.45 and not seen_kw and not seen_dstar:
                out.append(("pos", sub()))
            elif c < 0.6 and not seen_dstar:
                out.append(("star", self.leaf("U")))
            elif c < 0.85 and names:
                out.append(("kw", names.pop(0), sub())); seen_kw = True
            else:
                out.append(("dstar", self.leaf("D"))); seen_dstar = True
        return out

    def target(self, d, allow_tup=True):
        r = self.rng
        c = r.random()
        sub = lambda: self.expr(d - 1)
        if c < 0.15:
            return ("name", r.choice(VARS))
        if c < 0.45:
            return ("sub", sub(), sub())
        if c < 0.65:
            return ("attr", sub(), r.choice(["a", "b"]))
        if c < 0.8 or not allow_tup or d <= 1:
            return ("slice", sub(), sub() if r.random() < 0.7 else None, sub() if r.random() < 0.7 else None, None)
        return ("tup", [self.target(d - 1, allow_tup) for _ in range(r.randint(1, 3))])

    def stmt(self, d):
        r = self.rng
        c = r.random()
        if c < 0.4:
            return ("expr", self.expr(d))
        if c < 0.7:
            n = r.choice([1, 1, 2, 3])
            tg = [self.target(d - 1) for _ in range(n)]
            # a tuple target needs an iterable of the right length: logging objects iterate to 2 items,
            # U leaves are 2-tuples, a display gives any length
            rhs = self.rhs_for(tg, d)
            return ("assign", tg, rhs)
        if c < 0.95:
            return ("aug", self.target(d - 1, allow_tup=False), r.choice(sorted(BINOPS)), self.expr(d - 1))
        return ("del", self.target(d - 1, allow_tup=False))

    def rhs_for(self, targets, d):
        lens = set(len(t[1]) for t in targets if t[0] == "tup")
        nested = any(t[0] == "tup" and any(x[0] == "tup" for x in t[1]) for t in targets)
        if not lens:
            return self.expr(d - 1)
        if len(lens) > 1:
            # incompatible lengths: make every tuple target have the same length by regenerating
            n = sorted(lens)[0]
            for i, t in enumerate(targets):
                if t[0] == "tup":
                    targets[i] = ("tup", [self.flat_target(d - 1) for _ in range(n)])
            nested = False
        n = [len(t[1]) for t in targets if t[0] == "tup"][0]
        if nested:
            # inner tuple targets get 2-item logging objects: force inner length 2
            for i, t in enumerate(targets):
                if t[0] == "tup":
                    targets[i] = ("tup", [(("tup", [self.flat_target(d - 2), self.flat_target(d - 2)]) if x[0] == "tup" else x)
                                          for x in t[1]])
        if n == 2 and self.rng.random() < 0.4:
            return self.expr(d - 1) if self.rng.random() < 0.5 else self.leaf("U")
        return ("disp", self.rng.choice(["tuple", "list"]), [("pos", self.expr(d - 2)) for _ in range(n)])

    def flat_target(self, d):
        return self.target(max(d, 1), allow_tup=False)


EXPR_KINDS = ["bin", "bin", "un", "cmp1", "cmp2", "cmp3", "and", "or", "and", "or", "cond", "call", "call", "mcall",
              "tuple", "list", "set", "dict", "sub", "slice", "attr", "minmax", "fstr"]


def leaves_of(x, acc=None):
    acc = [] if acc is None else acc
    if isinstance(x, tuple) and x and x[0] == "leaf":
        acc.append(x[2])
    elif isinstance(x, (tuple, list)):
        for y in x:
            leaves_of(y, acc)
    return acc


def has_kind(x, kinds):
    if isinstance(x, tuple) and x and isinstance(x[0], str) and x[0] in kinds:
        return True
    if isinstance(x, (tuple, list)):
        return any(has_kind(y, kinds) for y in x)
    return False


def enum_small(rng):
    """every node kind once per child position with a nested non-leaf child, plus all-leaf forms, plus every
    statement form over every target kind"""
    g = Gen(rng)
    out = []
    inner_kinds = ["bin", "and", "or", "cond", "call", "sub", "cmp2", "minmax", "tuple"]
    for kind in sorted(set(EXPR_KINDS)):
        for rep in range(3):
            out.append(("expr", g.node(kind, g.leaf)))
        for ik in inner_kinds:
            out.append(("expr", g.node(kind, lambda: g.node(ik, g.leaf) if rng.random() < 0.5 else g.leaf())))
    # calls: every ordered argument-kind pattern up to 3 arguments (syntactically valid ones)
    for n in range(0, 4):
        for pat in itertools.product("pskd", repeat=n):
            if not valid_args(pat):
                continue
            names = iter(["ka", "kb", "kc"])
            args = []
            for c in pat:
                if c == "p":
                    args.append(("pos", g.leaf()))
                elif c == "s":
                    args.append(("star", g.leaf("U")))
                elif c == "k":
                    args.append(("kw", next(names), g.leaf()))
                else:
                    args.append(("dstar", g.leaf("D")))
            out.append(("expr", ("call", g.leaf(), args)))
            out.append(("expr", ("call", ("attr", g.leaf(), "m"), args)))
    # min/max with 2..4 arguments, leaves and nested
    for which in ("min", "max"):
        for n in (2, 3, 4):
            out.append(("expr", ("minmax", which, [g.leaf() for _ in range(n)])))
            out.append(("expr", ("minmax", which, [g.node("bin", g.leaf) for _ in range(n)])))
    # targets
    def tgts():
        yield ("name", "x")
        yield ("sub", g.leaf(), g.leaf())
        yield ("sub", g.node("sub", g.leaf), g.node("bin", g.leaf))
        yield ("attr", g.leaf(), "a")
        yield ("attr", g.node("attr", g.leaf), "b")
        yield ("slice", g.leaf(), g.leaf(), g.leaf(), None)
        yield ("slice", g.leaf(), None, g.leaf(), None)
    for t in tgts():
        out.append(("assign", [t], g.leaf()))
        out.append(("assign", [t], g.node("bin", g.leaf)))
        for op in sorted(BINOPS):
            out.append(("aug", t, op, g.leaf()))
        out.append(("aug", t, "add", g.node("call", g.leaf)))
        if t[0] != "name":
            out.append(("del", t))
    for t1 in tgts():
        for t2 in tgts():
            out.append(("assign", [t1, t2], g.leaf()))
            out.append(("assign", [("tup", [t1, t2])], ("disp", "tuple", [("pos", g.leaf()), ("pos", g.leaf())])))
            out.append(("assign", [("tup", [t1, t2])], g.leaf()))
            out.append(("assign", [("tup", [t1, t2])], g.leaf("U")))
    for t1 in tgts():
        t2 = ("sub", g.leaf(), g.leaf()); t3 = ("attr", g.leaf(), "a")
        out.append(("assign", [t1, t2, t3], g.node("bin", g.leaf)))
        out.append(("assign", [("tup", [t1, t2, t3])], ("disp", "list", [("pos", g.leaf()) for _ in range(3)])))
        out.append(("assign", [("tup", [t1, t2]), ("tup", [t3, t1])], ("disp", "tuple", [("pos", g.leaf()) for _ in range(2)])))
    # swaps through names
    out.append(("assign", [("tup", [("name", "x"), ("name", "y")])], ("disp", "tuple", [("pos", ("name", "y")), ("pos", ("name", "x"))])))
    out.append(("assign", [("tup", [("name", "x"), ("name", "y"), ("name", "z")])],
                ("disp", "tuple", [("pos", ("name", "z")), ("pos", ("name", "x")), ("pos", ("name", "y"))])))
    out.append(("assign", [("tup", [("name", "x"), ("sub", ("name", "x"), g.leaf())])],
                ("disp", "tuple", [("pos", g.leaf()), ("pos", ("name", "x"))])))
    return out


def valid_args(pat):
    seen_kw = seen_d = False
    for c in pat:
        if c == "p" and (seen_kw or seen_d):
            return False
        if c == "s" and seen_d:
            return False
        if c == "k":
            seen_kw = True
        if c == "d":
            seen_d = True
    return True


# --------------------------------------------------------------------------------------
# running: the same function definitions compiled by the compiler under test (module <name>) and
# executed by CPython (module <name>_py), both importing the same logging runtime c20rt
DRIVER = r'''
import sys, json, importlib
spec = json.load(sys.stdin)
import c20rt
out = {}
for mod in spec["mods"]:
    m = importlib.import_module(mod)
    res = []
    for fn in spec["funcs"][mod]:
        res.append(c20rt.run_case(getattr(m, fn)))
    out[mod] = res
print(json.dumps(out))
'''


def module_source(stmts, first=0):
    L = ["# cython: language_level=3", "from c20rt import O, T, F, U, D", ""]
    for i, s in enumerate(stmts):
        L.append(r_func("c%d" % (first + i), s))
    return "\n".join(L)


def build_and_run(workdir, stmts, chunk=150, jobs=6, tag="c20m"):
    """returns (impl, oracle): lists of [log, result] per statement; impl entries are None when the
    chunk failed to build (with the error in the third slot)"""
    os.makedirs(workdir, exist_ok=True)
    with open(os.path.join(workdir, "c20rt.py"), "w") as f:
        f.write(RUNTIME)
    specs, names = [], []
    for ci in range(0, len(stmts), chunk):
        name = "%s_%d" % (tag, ci // chunk)
        src = module_source(stmts[ci:ci + chunk], ci)
        with open(os.path.join(workdir, name + "_py.py"), "w") as f:
            f.write(src)
        specs.append(dict(name=name, source=src, workdir=workdir))
        names.append((name, ci, min(len(stmts), ci + chunk)))
    built = cybuild.build_many(specs, jobs=jobs)
    impl = [None] * len(stmts)
    orac = [None] * len(stmts)
    mods, funcs = [], {}
    for (name, lo, hi), (so, err) in zip(names, built):
        fl = ["c%d" % i for i in range(lo, hi)]
        mods.append(name + "_py"); funcs[name + "_py"] = fl
        if err is None:
            mods.append(name); funcs[name] = fl
        else:
            for i in range(lo, hi):
                impl[i] = [None, "BUILD " + str(err)[:1500]]
    r = cybuild.run_script(DRIVER, workdir, {"mods": mods, "funcs": funcs}, timeout=900, name="c20_driver.py")
    if r["json"] is None:
        raise RuntimeError("driver failed rc=%s %s" % (r["rc"], r["err"][-2000:]))
    for (name, lo, hi) in names:
        for j, i in enumerate(range(lo, hi)):
            orac[i] = r["json"][name + "_py"][j]
            if name in r["json"]:
                impl[i] = r["json"][name][j]
    return impl, orac
