"""C20 - Operands and targets are evaluated left-to-right exactly once (DESIGN 7/C20)."""
import json, os, sys, itertools
import cybuild
from props import C20_ccall as CC

TITLE = "Operands and targets are evaluated left-to-right exactly once"
EXTRACTS = ["EvalOrder"]
RULE = ("statements (expression statements, single/cascaded/unpacking assignments, augmented assignments) over "
        "expression trees of depth <= 4 built from every modelled node kind, all of whose leaves are logging calls "
        "T(k)/F(k)/U(k)/D(k)/K(k)/I(k) (truthy / falsy logging object, plain tuple, plain dict, extension-type object, "
        "int) with distinct tags; first an enumeration of every node kind at every child position with leaf operands "
        "(exhaustive small shapes), then PRNG trees; calls of C functions (cdef / cpdef functions, C methods bound to a "
        "name or to a computed receiver, optional and C-typed parameters): every (positional count, keyword "
        "permutation) without gap x argument kinds (all non-simple, one simple, one only taken for simple: attribute, "
        "and/or, conditional, display, f-string; random), compiled and run, plus the front-end tie: the real "
        "map_to_simple_call_node on every shape x every non-simple/simple pattern; optimised builtin calls and "
        "builtin-type methods with leaf / and-or / conditional arguments (two-way); distinct by source text; "
        "non-trivial = at least two leaves")
EXPLANATION = ("theorems (for ANY semantics of leaf calls, primitive operations, truth tests and unpacking): for every "
               "expression of the modelled language (and/or with BoolBinopNode's jump threading, not, conditional "
               "expressions, cascaded comparisons in value and boolean context, calls/displays/subscripts/slices/"
               "attributes/f-strings as strict n-ary nodes, method calls, min/max, calls of compile-time-known C "
               "functions with positional and keyword arguments) in every generator context the "
               "temp-machine code produced by the model of the code generator runs to completion, preserves older "
               "temps and yields exactly the event trace, leaf-evaluation sequence, value and exit label "
               "(short-circuit point) of the CPython-order reference semantics, truth-testing an operand at most once; "
               "every statement (cascaded / unpacking assignment, augmented assignment, del) likewise, including the "
               "final variables (C20_stmt_trace_eq); for C calls the keyword-to-position mapping "
               "(GeneralCallNode.map_to_simple_call_node: in-order prefix, out-of-order scan, simple-argument exemption, "
               "temps for preceding non-simple arguments, temp sorting) is modelled on call positions and proved for "
               "every declaration and every well-formed call: the argument list is the declared binding and the "
               "evaluation order visits every argument once and the non-simple ones in call order (C20_ccall_mapping, "
               "C20_ccall_call_order; with the three repairs for all calls, C20_ccall_repaired_covers_all); the variant "
               "without the sorting step is refuted; the tree as it is is refuted on the modelled deviations (min/max F18, "
               "method lookup after arguments, in-place attribute chains, cascaded unpacking, C-call arguments taken for "
               "simple, argument list cut after a leading temp, C-method receiver after the temps) and on the not-in "
               "fold, the repaired variants agree on the witnesses. "
               "partial: two front-end rewrites (not-in fold, re-created and/or operand) are modelled in the harness, "
               "not in Coq; optimised builtin calls and inline C arguments are compared with CPython only (no model); "
               "the temp machine models the ordering discipline of ExprNodes/Nodes and is tied to the compiler "
               "behaviourally (compiled log = model log) and, for the C-call mapping, structurally (recorded temps / "
               "argument lists / is_simple verdicts of the real function = extracted ccmap / bsimple).")
LEVEL_TEXT = ("universally quantified proof of trace/value/short-circuit equality for all modelled expressions in all "
              "generator contexts, for all statements, and of the C-call keyword mapping for all declarations and calls; "
              "partial: builtin-call optimisations are covered by the two-way run only, the tie between model and "
              "compiler is a correspondence run.")
TRUSTED = ["CPython 3.12 executing the same source with the same logging runtime = property oracle",
           "the logging runtime (c20rt.py): every observable operation of a logging object appends one event",
           "gcc as a conforming C compiler"]
ASSUMPTIONS = ["leaves are pure logging calls: they do not rebind the variables of the statement under test",
               "hashing/iteration of containers is not an event (plain tuples/dicts as * and ** operands)"]

# set to True after proposed_fixes/C20-minmax_first_arg_evaluated_last.diff is applied to /repo
MINMAX_FIXED = os.environ.get("C20_MINMAX_FIXED", "1") == "1"

# --------------------------------------------------------------------------------------
# logging runtime shared by the compiled module and the CPython oracle
RUNTIME = r'''
LOG = []

def truth(v):
    if isinstance(v, O):
        return object.__getattribute__(v, 't')
    if v is None:
        return False
    if isinstance(v, (tuple, list, set, frozenset, dict, str)):
        return len(v) > 0
    return bool(v)

def nm(v):
    if isinstance(v, O):
        return object.__getattribute__(v, 'n')
    if v is True: return 'True'
    if v is False: return 'False'
    if v is None: return 'None'
    if isinstance(v, tuple): return 'tuple(' + ','.join(nm(x) for x in v) + ')'
    if isinstance(v, list): return 'list(' + ','.join(nm(x) for x in v) + ')'
    if isinstance(v, (set, frozenset)): return 'set(' + ','.join(sorted(nm(x) for x in v)) + ')'
    if isinstance(v, dict): return 'dict(' + ','.join(nm(k) + ':' + nm(x) for k, x in v.items()) + ')'
    if isinstance(v, slice): return 'slice(' + nm(v.start) + ',' + nm(v.stop) + ',' + nm(v.step) + ')'
    if isinstance(v, str): return 'str<' + v + '>'
    if type(v).__name__ == 'K': return 'K%d' % v.kid
    return '?' + repr(v)

def mk(op, args):
    t = True
    for a in args:
        if truth(a):
            t = not t
    return O(op + '(' + ','.join(nm(a) for a in args) + ')', t)

def ev(op, args):
    LOG.append(op + '(' + ','.join(nm(a) for a in args) + ')')
    return mk(op, args)

class O(object):
    __slots__ = ('n', 't')
    def __init__(self, n, t):
        object.__setattr__(self, 'n', n)
        object.__setattr__(self, 't', t)
    def __repr__(self): return nm(self)
    def __hash__(self): return hash(nm(self))
    def __bool__(self):
        LOG.append('bool(' + nm(self) + ')')
        return truth(self)
    def __add__(self, o): return ev('add', (self, o))
    def __radd__(self, o): return ev('add', (o, self))
    def __mul__(self, o): return ev('mul', (self, o))
    def __rmul__(self, o): return ev('mul', (o, self))
    def __sub__(self, o): return ev('sub', (self, o))
    def __rsub__(self, o): return ev('sub', (o, self))
    def __or__(self, o): return ev('bor', (self, o))
    def __ror__(self, o): return ev('bor', (o, self))
    def __iadd__(self, o): return ev('iadd', (self, o))
    def __imul__(self, o): return ev('imul', (self, o))
    def __isub__(self, o): return ev('isub', (self, o))
    def __ior__(self, o): return ev('ibor', (self, o))
    def __neg__(self): return ev('neg', (self,))
    def __invert__(self): return ev('inv', (self,))
    def __lt__(self, o): return ev('lt', (self, o))
    def __gt__(self, o): return ev('gt', (self, o))
    def __le__(self, o): return ev('le', (self, o))
    def __ge__(self, o): return ev('ge', (self, o))
    def __eq__(self, o): return ev('eq', (self, o))
    def __ne__(self, o): return ev('ne', (self, o))
    def __contains__(self, o): return ev('contains', (self, o))
    def __getitem__(self, i): return ev('getitem', (self, i))
    def __setitem__(self, i, v): ev('setitem', (self, i, v))
    def __delitem__(self, i): ev('delitem', (self, i))
    def __getattr__(self, a): return ev('getattr_' + a, (self,))
    def __setattr__(self, a, v): ev('setattr_' + a, (self, v))
    def __delattr__(self, a): ev('delattr_' + a, (self,))
    def __format__(self, spec): return nm(ev('format', (self,)))
    def __iter__(self):
        LOG.append('iter(' + nm(self) + ')')
        return iter((O('item0(' + nm(self) + ')', True), O('item1(' + nm(self) + ')', False)))
    def __call__(self, *a, **k):
        LOG.append('call(' + ','.join([nm(self)] + [nm(x) for x in a] + [kk + '=' + nm(x) for kk, x in k.items()]) + ')')
        t = not truth(self)
        for x in a:
            if truth(x): t = not t
        for x in k.values():
            if truth(x): t = not t
        return O('call(' + ','.join([nm(self)] + [nm(x) for x in a] + [kk + '=' + nm(x) for kk, x in k.items()]) + ')', t)

def T(k):
    LOG.append('L%d' % k); return O('T%d' % k, True)
def F(k):
    LOG.append('L%d' % k); return O('F%d' % k, False)
def U(k):
    LOG.append('L%d' % k); return (O('U%da' % k, True), O('U%db' % k, False))
def D(k):
    LOG.append('L%d' % k); return {'d%d' % k: O('D%d' % k, True)}
def I(k):
    LOG.append('L%d' % k); return k

def run_case(fn):
    del LOG[:]
    try:
        r = fn(O('x', True), O('y', False), O('z', True))
        res = nm(r)
    except BaseException as e:
        res = 'EXC ' + type(e).__name__ + ': ' + str(e)[:200]
    return [list(LOG), res]
'''

# --------------------------------------------------------------------------------------
# abstract syntax (nested tuples) and its rendering to Python source
#   expr: ('leaf', kind, k) | ('name', x) | ('bin', op, a, b) | ('un', op, a) | ('cmp', [ops], [es])
#         | ('and', a, b) | ('or', a, b) | ('cond', c, a, b) | ('call', f, [arg]) | ('disp', kind, [item])
#         | ('dict', [(k, v)]) | ('sub', a, i) | ('slice', a, lo, hi, step) | ('attr', a, name)
#         | ('minmax', which, [es]) | ('fstr', [es])
#   arg : ('pos', e) | ('kw', name, e) | ('star', e) | ('dstar', e);   item: ('pos', e) | ('star', e)
#   target: ('name', x) | ('sub', a, i) | ('slice', a, lo, hi, None) | ('attr', a, name) | ('tup', [target])
#   stmt: ('expr', e) | ('assign', [target], e) | ('aug', target, op, e) | ('del', target)
BINOPS = {"add": "+", "mul": "*", "sub": "-", "bor": "|"}
UNOPS = {"neg": "-", "inv": "~", "not": "not "}
CMPOPS = {"lt": "<", "gt": ">", "le": "<=", "ge": ">=", "eq": "==", "ne": "!=", "in": "in", "notin": "not in"}
VARS = ["x", "y", "z"]          # plus "r" (result of expression statements)


def r_expr(e):
    t = e[0]
    if t == "leaf":
        if e[1] == "K":
            return "kk(KO(%d))" % e[2]
        return "%s(%d)" % (e[1], e[2])
    if t == "name":
        return e[1]
    if t == "none":
        return "None"
    if t == "raw":
        return e[1]
    if t == "ccall":
        return CC.r_ccall(e, r_expr)
    if t == "bin":
        return "(%s %s %s)" % (r_expr(e[2]), BINOPS[e[1]], r_expr(e[3]))
    if t == "un":
        return "(%s%s)" % (UNOPS[e[1]], r_expr(e[2]))
    if t == "cmp":
        s = r_expr(e[2][0])
        for op, x in zip(e[1], e[2][1:]):
            s += " %s %s" % (CMPOPS[op], r_expr(x))
        return "(" + s + ")"
    if t in ("and", "or"):
        return "(%s %s %s)" % (r_expr(e[1]), t, r_expr(e[2]))
    if t == "cond":
        return "(%s if %s else %s)" % (r_expr(e[2]), r_expr(e[1]), r_expr(e[3]))
    if t == "call":
        return "%s(%s)" % (r_expr(e[1]), ", ".join(r_arg(a) for a in e[2]))
    if t == "disp":
        items = [r_arg(a) for a in e[2]]
        if e[1] == "tuple":
            return "(" + ", ".join(items) + ("," if len(items) == 1 else "") + ")"
        if e[1] == "list":
            return "[" + ", ".join(items) + "]"
        return "{" + ", ".join(items) + "}"
    if t == "dict":
        return "{" + ", ".join("%s: %s" % (r_expr(k), r_expr(v)) for k, v in e[1]) + "}"
    if t == "sub":
        return "%s[%s]" % (r_prim(e[1]), r_expr(e[2]))
    if t == "slice":
        parts = [r_expr(x) if x is not None else "" for x in (e[2], e[3])]
        s = ":".join(parts)
        if e[4] is not None:
            s += ":" + r_expr(e[4])
        return "%s[%s]" % (r_prim(e[1]), s)
    if t == "attr":
        return "%s.%s" % (r_prim(e[1]), e[2])
    if t == "minmax":
        a = ", ".join(r_expr(x) for x in e[2])
        if e[1].endswith("_t"):
            return "%s((%s))" % (e[1][:3], a)
        if e[1].endswith("_l"):
            return "%s([%s])" % (e[1][:3], a)
        return "%s(%s)" % (e[1], a)
    if t == "fstr":
        return 'f"' + "".join("{%s}" % r_expr(x) for x in e[1]) + '"'
    raise ValueError(e)


def r_prim(e):
    s = r_expr(e)
    return s if (s.endswith(")") or s.endswith("]") or e[0] in ("name", "attr")) and not s.startswith("f\"") else "(" + s + ")"


def r_arg(a):
    if a[0] == "pos":
        return r_expr(a[1])
    if a[0] == "kw":
        return "%s=%s" % (a[1], r_expr(a[2]))
    if a[0] == "star":
        return "*" + r_expr(a[1])
    return "**" + r_expr(a[1])


def r_target(t):
    if t[0] == "tup":
        return "(" + ", ".join(r_target(x) for x in t[1]) + ("," if len(t[1]) == 1 else "") + ")"
    return r_expr(t)


def r_stmt(s):
    if s[0] == "assign":
        return " = ".join([r_target(t) for t in s[1]] + [r_expr(s[2])])
    if s[0] == "aug":
        return "%s %s= %s" % (r_target(s[1]), BINOPS[s[2]], r_expr(s[3]))
    if s[0] == "del":
        return "del " + r_target(s[1])
    raise ValueError(s)


def r_func(name, s):
    """def <name>(x, y, z): the variables x, y, z are bound to logging objects by the caller; the statement;
    the returned value shows the result and the final variable values."""
    L = ["def %s(x, y, z):" % name,
         "    r = None",
         "    " + r_stmt(s),
         "    return (r, x, y, z)"]
    return "\n".join(L) + "\n"


# --------------------------------------------------------------------------------------
# serialisation for the model driver (prefix token list, single line)
def t_expr(e, infs=False):
    """infs=True serialises method calls as plain calls of the looked-up attribute (unused by default)"""
    r = _t_expr(e, infs)
    return r


def _t_expr(e, infs):
    t = e[0]
    if t == "fstr":
        return ["F", str(len(e[1]))] + sum([_t_expr(x, infs) for x in e[1]], [])
    if t == "call":
        return [("Kp" if infs else "K"), str(len(e[2]))] + _t_expr(e[1], infs) + sum([t_arg(a, infs) for a in e[2]], [])
    return _t_expr1(e, infs)


def _t_expr1(e, infs):
    t_expr = lambda x: _t_expr(x, infs)
    t_arg1 = lambda a: t_arg(a, infs)
    t = e[0]
    if t == "leaf":
        return ["L", e[1], str(e[2])]
    if t == "name":
        return ["N", e[1]]
    if t == "none":
        return ["NONE"]
    if t == "ccall":
        return CC.t_ccall(e, t_expr)
    if t == "bin":
        return ["B", e[1]] + t_expr(e[2]) + t_expr(e[3])
    if t == "un":
        return ["U", e[1]] + t_expr(e[2])
    if t == "cmp":
        out = ["C", str(len(e[1]))] + t_expr(e[2][0])
        for op, x in zip(e[1], e[2][1:]):
            out += [op] + t_expr(x)
        return out
    if t == "and":
        return ["A"] + t_expr(e[1]) + t_expr(e[2])
    if t == "or":
        return ["O"] + t_expr(e[1]) + t_expr(e[2])
    if t == "cond":
        return ["I"] + t_expr(e[1]) + t_expr(e[2]) + t_expr(e[3])
    if t == "call":
        raise ValueError("call handled above")
    if t == "disp":
        return ["D", e[1], str(len(e[2]))] + sum([t_arg1(a) for a in e[2]], [])
    if t == "dict":
        return ["M", str(len(e[1]))] + sum([t_expr(k) + t_expr(v) for k, v in e[1]], [])
    if t == "sub":
        return ["S"] + t_expr(e[1]) + t_expr(e[2])
    if t == "slice":
        out = ["Z"] + t_expr(e[1])
        for x in (e[2], e[3], e[4]):
            out += (["-"] if x is None else ["+"] + t_expr(x))
        return out
    if t == "attr":
        return ["T", e[2]] + t_expr(e[1])
    if t == "minmax":
        return ["X", e[1][:3], str(len(e[2]))] + sum([t_expr(x) for x in e[2]], [])
    if t == "fstr":
        return ["F", str(len(e[1]))] + sum([t_expr(x) for x in e[1]], [])
    raise ValueError(e)


def t_arg(a, infs=False):
    if a[0] == "pos":
        return ["p"] + _t_expr(a[1], infs)
    if a[0] == "kw":
        return ["k", a[1]] + _t_expr(a[2], infs)
    if a[0] == "star":
        return ["s"] + _t_expr(a[1], infs)
    return ["d"] + _t_expr(a[1], infs)


def t_target(t):
    if t[0] == "tup":
        return ["tt", str(len(t[1]))] + sum([t_target(x) for x in t[1]], [])
    if t[0] == "name":
        return ["tn", t[1]]
    if t[0] == "sub":
        return ["ts"] + t_expr(t[1]) + t_expr(t[2])
    if t[0] == "slice":
        out = ["tz"] + t_expr(t[1])
        for x in (t[2], t[3]):
            out += (["-"] if x is None else ["+"] + t_expr(x))
        return out
    if t[0] == "attr":
        return ["ta", t[2]] + t_expr(t[1])
    raise ValueError(t)


def t_stmt(s):
    if s[0] == "assign":
        return ["sa", str(len(s[1]))] + sum([t_target(t) for t in s[1]], []) + t_expr(s[2])
    if s[0] == "aug":
        return ["su", s[2]] + t_target(s[1]) + t_expr(s[3])
    if s[0] == "del":
        return ["sd"] + t_target(s[1])
    raise ValueError(s)


# --------------------------------------------------------------------------------------
# generation
class Gen(object):
    """typed generation: 'obj' positions get expressions whose value is certainly a logging object (so that
    every operation on them is defined and logged); 'any' positions may also get bools/displays/strings"""
    def __init__(self, rng):
        self.rng = rng
        self.k = 0

    def leaf(self, kind=None):
        self.k += 1
        if kind is None:
            kind = self.rng.choice("TTTFF")
        return ("leaf", kind, self.k)

    def expr(self, d, obj=True):
        r = self.rng
        if d <= 0 or r.random() < 0.12:
            return self.leaf()
        kind = r.choice(OBJ_KINDS if obj else EXPR_KINDS)
        return self.node(kind, lambda o=True: self.expr(d - 1, o), obj)

    def node(self, kind, sub, obj=True):
        """one node of the given kind; sub(o) produces a child (o: must be a logging object)"""
        r = self.rng
        anyv = (lambda: sub(True)) if obj else (lambda: sub(False))     # branches of and/or/cond
        if kind == "bin":
            return ("bin", r.choice(sorted(BINOPS)), sub(True), sub(True))
        if kind == "un":
            return ("un", r.choice(["neg", "inv"]), sub(True))
        if kind == "not":
            return ("un", "not", sub(False))
        if kind in ("cmp1", "cmp2", "cmp3"):
            n = int(kind[3])
            ops = [r.choice(OBJ_CMPOPS if obj else sorted(CMPOPS)) for _ in range(n)]
            es = [sub(True) for _ in range(n + 1)]
            for i in range(2, n):
                # (the re-evaluated and/or operand of finding cascaded_in_boolop_operand_evaluated_twice is
                #  modelled by a source rewrite that is exact only for the first cascade step)
                if ops[i] in ("in", "notin") and es[i][0] in ("and", "or"):
                    es[i] = self.leaf()
            return ("cmp", ops, es)
        if kind == "and":
            return ("and", anyv(), anyv())
        if kind == "or":
            return ("or", anyv(), anyv())
        if kind == "cond":
            return ("cond", sub(False), anyv(), anyv())
        if kind == "call":
            return ("call", sub(True), self.args(sub, r.randint(0, 4)))
        if kind == "mcall":
            return ("call", ("attr", sub(True), r.choice(["m", "p"])), self.args(sub, r.randint(0, 3)))
        if kind in ("tuple", "list", "set"):
            n = r.randint(1, 3)
            items = []
            for _ in range(n):
                if r.random() < 0.2:
                    items.append(("star", self.leaf("U")))
                else:
                    items.append(("pos", sub(kind == "set")))
            return ("disp", kind, items)
        if kind == "dict":
            return ("dict", [(sub(True), sub(False)) for _ in range(r.randint(1, 2))])
        if kind == "sub":
            return ("sub", sub(True), sub(True))       # (a C-bool index would become a C integer index)
        if kind == "slice":
            lo = sub(True) if r.random() < 0.7 else None
            hi = sub(True) if r.random() < 0.7 else None
            st = sub(True) if r.random() < 0.3 else None
            return ("slice", sub(True), lo, hi, st)
        if kind == "attr":
            return ("attr", sub(True), r.choice(["a", "b"]))
        if kind == "minmax":
            return ("minmax", r.choice(["min", "max"]) + r.choice(["", "", "_t", "_l"]),
                    [sub(True) for _ in range(r.randint(2, 4))])
        if kind == "fstr":
            return ("fstr", [sub(True) for _ in range(r.randint(1, 3))])
        if kind == "ccall":
            # a call of a C function / C method: random shape (no gap), arguments = arbitrary sub-expressions
            fname = r.choice(["cf", "cf", "co", "pf", "K.m", "K.p"])
            shapes = list(CC.call_shapes(fname))
            npos, perm = r.choice(shapes)
            recv = None
            if CC.CALLEES[fname].get("method"):
                recv = ("name", "kobj") if r.random() < 0.5 else self.leaf("K")
            args = [("pos", self.carg(sub)) for _ in range(npos)] + [("kw", pn, self.carg(sub)) for pn in perm]
            return ("ccall", fname, recv, args)
        raise ValueError(kind)

    def carg(self, sub):
        c = self.rng.random()
        if c < 0.15:
            return ("name", self.rng.choice(VARS))
        if c < 0.25:
            return CC.mk_arg(self, self.rng.choice(CC.FALSE_SIMPLE))
        return sub(False)

    def args(self, sub, n):
        """argument list in a syntactically valid order (positional before keywords; * anywhere before **)"""
        r = self.rng
        out = []
        seen_kw = False
        seen_dstar = False
        names = ["ka", "kb", "kc", "kd"]
        for _ in range(n):
            c = r.random()
            if c < 0.45 and not seen_kw and not seen_dstar:
                out.append(("pos", sub(False)))
            elif c < 0.6 and not seen_dstar:
                out.append(("star", self.leaf("U")))
            elif c < 0.85 and names:
                out.append(("kw", names.pop(0), sub(False))); seen_kw = True
            else:
                out.append(("dstar", self.leaf("D"))); seen_dstar = True
        return out

    def target(self, d, names=True):
        r = self.rng
        c = r.random()
        sub = lambda o=True: self.expr(d - 1, o)
        if c < 0.15 and names:
            return ("name", r.choice(VARS))
        if c < 0.5:
            return ("sub", sub(True), sub(True))
        if c < 0.8:
            return ("attr", sub(True), r.choice(["a", "b"]))
        return ("slice", sub(True), sub(True) if r.random() < 0.7 else None, sub(True) if r.random() < 0.7 else None, None)

    def stmt(self, d):
        r = self.rng
        c = r.random()
        if c < 0.4:
            return ("assign", [("name", "r")], self.expr(d, r.random() < 0.5))
        if c < 0.7:
            n = r.choice([1, 1, 2, 3])
            m = r.choice([0, 0, 1, 2, 3])      # 0: no tuple targets; else the length of every tuple target
            tg = []
            for _ in range(n):
                if m and r.random() < 0.6:
                    tg.append(("tup", [self.target(d - 2) for _ in range(m)]))
                else:
                    tg.append(self.target(d - 1))
            if not any(t[0] == "tup" for t in tg):
                return ("assign", tg, self.expr(d - 1, r.random() < 0.5))
            if m == 2 and r.random() < 0.4:
                return ("assign", tg, self.expr(d - 1) if r.random() < 0.5 else self.leaf("U"))
            return ("assign", tg, ("disp", r.choice(["tuple", "list"]), [("pos", self.expr(d - 2, False)) for _ in range(m)]))
        if c < 0.95:
            rhs = self.expr(d - 1, False)
            if rhs[0] == "fstr":
                # "obj += f'...'" is compiled as a str concatenation that assumes obj is a str (TypeError /
                # assertion failure for other objects): a value deviation outside this property
                rhs = self.expr(d - 1, True)
            return ("aug", self.target(d - 1), r.choice(sorted(BINOPS)), rhs)
        return ("del", self.target(d - 1, names=False))


OBJ_CMPOPS = ["lt", "gt", "le", "ge", "eq", "ne"]
OBJ_KINDS = ["bin", "bin", "un", "cmp1", "cmp2", "cmp3", "and", "or", "and", "or", "cond", "call", "call", "mcall",
             "sub", "slice", "attr", "minmax", "fstr_no"]
OBJ_KINDS = [k for k in OBJ_KINDS if k != "fstr_no"] + ["ccall", "ccall"]
EXPR_KINDS = OBJ_KINDS + ["not", "tuple", "list", "set", "dict", "fstr", "cmp2"]


def leaves_of(x, acc=None):
    acc = [] if acc is None else acc
    if isinstance(x, tuple) and x and x[0] == "leaf":
        acc.append(x[2])
    elif isinstance(x, (tuple, list)):
        for y in x:
            leaves_of(y, acc)
    return acc


def has_kind(x, kinds):
    if isinstance(x, tuple) and x and isinstance(x[0], str) and x[0] in kinds:
        return True
    if isinstance(x, (tuple, list)):
        return any(has_kind(y, kinds) for y in x)
    return False


def enum_small(rng, quick=False):
    """every node kind once per child position with a nested non-leaf child, plus all-leaf forms, plus every
    statement form over every target kind"""
    g = Gen(rng)
    out = []
    inner_kinds = ["bin", "and", "or", "cond", "call", "sub", "cmp2", "minmax", "tuple"]
    L = lambda o=True: g.leaf()
    for kind in sorted(set(EXPR_KINDS)):
        for rep in range(3):
            out.append(("expr", g.node(kind, L, False)))
        for ik in inner_kinds:
            if quick and rng.random() < 0.5:
                continue
            out.append(("expr", g.node(kind, lambda o=True: (g.node(ik, L, True) if (ik != "tuple" or not o) else
                                                            g.node("attr", L, True))
                                       if rng.random() < 0.5 else g.leaf(), False)))
    # calls: every ordered argument-kind pattern up to 3 arguments (syntactically valid ones)
    for n in range(0, 4):
        for pat in itertools.product("pskd", repeat=n):
            if not valid_args(pat) or (quick and n == 3 and rng.random() < 0.6):
                continue
            names = iter(["ka", "kb", "kc"])
            args = []
            for c in pat:
                if c == "p":
                    args.append(("pos", g.leaf()))
                elif c == "s":
                    args.append(("star", g.leaf("U")))
                elif c == "k":
                    args.append(("kw", next(names), g.leaf()))
                else:
                    args.append(("dstar", g.leaf("D")))
            out.append(("expr", ("call", g.leaf(), args)))
            out.append(("expr", ("call", ("attr", g.leaf(), "m"), args)))
    # min/max with 2..4 arguments, leaves and nested
    for which in ("min", "max"):
        for n in (2, 3, 4):
            for form in ("", "_t", "_l"):
                out.append(("expr", ("minmax", which + form, [g.leaf() for _ in range(n)])))
            out.append(("expr", ("minmax", which, [g.node("bin", L) for _ in range(n)])))
    # targets
    def tgts():
        yield ("name", "x")
        yield ("sub", g.leaf(), g.leaf())
        yield ("sub", g.node("sub", L), g.node("bin", L))
        yield ("attr", g.leaf(), "a")
        yield ("attr", g.node("attr", L), "b")
        yield ("slice", g.leaf(), g.leaf(), g.leaf(), None)
        yield ("slice", g.leaf(), None, g.leaf(), None)
    for t in tgts():
        out.append(("assign", [t], g.leaf()))
        out.append(("assign", [t], g.node("bin", L)))
        for op in sorted(BINOPS):
            out.append(("aug", t, op, g.leaf()))
        out.append(("aug", t, "add", g.node("call", L)))
        if t[0] != "name":
            out.append(("del", t))
    for t1 in tgts():
        for t2 in tgts():
            if quick and rng.random() < 0.7:
                continue
            out.append(("assign", [t1, t2], g.leaf()))
            out.append(("assign", [("tup", [t1, t2])], ("disp", "tuple", [("pos", g.leaf()), ("pos", g.leaf())])))
            out.append(("assign", [("tup", [t1, t2])], g.leaf()))
            out.append(("assign", [("tup", [t1, t2])], g.leaf("U")))
    for t1 in tgts():
        t2 = ("sub", g.leaf(), g.leaf()); t3 = ("attr", g.leaf(), "a")
        out.append(("assign", [t1, t2, t3], g.node("bin", L)))
        out.append(("assign", [("tup", [t1, t2, t3])], ("disp", "list", [("pos", g.leaf()) for _ in range(3)])))
        out.append(("assign", [("tup", [t1, t2]), ("tup", [t3, ("sub", g.leaf(), g.leaf())])],
                    ("disp", "tuple", [("pos", g.leaf()) for _ in range(2)])))
    # in-place targets whose object is itself an attribute/subscript chain
    for t in [("attr", ("sub", g.leaf(), g.leaf()), "a"), ("attr", ("attr", ("attr", g.leaf(), "a"), "b"), "a"),
              ("sub", ("attr", g.leaf(), "a"), g.leaf()), ("attr", ("call", g.leaf(), []), "a"),
              ("attr", ("sub", ("attr", g.leaf(), "b"), g.leaf()), "a"), ("attr", ("name", "x"), "a"),
              ("attr", ("attr", ("name", "x"), "b"), "a"), ("sub", ("name", "x"), ("name", "y")),
              ("sub", ("sub", g.leaf(), g.leaf()), g.leaf())]:
        out.append(("aug", t, "add", g.leaf()))
    # cascades mixing plain and tuple targets over a display
    for tl in [[("name", "x"), ("tup", [("sub", g.leaf(), g.leaf()), ("attr", g.leaf(), "a")])],
               [("tup", [("sub", g.leaf(), g.leaf()), ("attr", g.leaf(), "a")]), ("sub", g.leaf(), g.leaf())],
               [("sub", g.leaf(), g.leaf()), ("tup", [("sub", g.leaf(), g.leaf()), ("attr", g.leaf(), "a")]), ("attr", g.leaf(), "b")]]:
        out.append(("assign", tl, ("disp", "tuple", [("pos", g.leaf()), ("pos", g.leaf())])))
        out.append(("assign", tl, g.leaf()))
    # witnesses of the two front-end findings
    for ops in (["notin", "lt"], ["in", "lt"], ["in", "notin"]):
        out.append(("expr", ("un", "not", ("cmp", list(ops), [g.leaf("F"), g.leaf("F"), g.leaf("T")]))))
        out.append(("expr", ("un", "not", ("cmp", list(ops), [g.leaf("T"), g.leaf("T"), g.leaf("T")]))))
    for ops in (["gt", "in"], ["in", "notin"], ["lt", "notin", "eq"]):
        for bo in ("and", "or"):
            out.append(("expr", ("cmp", list(ops), [g.leaf("T"), (bo, g.leaf("T"), g.leaf("T"))] +
                                 [g.leaf("T") for _ in ops[1:]])))
    # swaps through names
    out.append(("assign", [("tup", [("name", "x"), ("name", "y")])], ("disp", "tuple", [("pos", ("name", "y")), ("pos", ("name", "x"))])))
    out.append(("assign", [("tup", [("name", "x"), ("name", "y"), ("name", "z")])],
                ("disp", "tuple", [("pos", ("name", "z")), ("pos", ("name", "x")), ("pos", ("name", "y"))])))
    out.append(("assign", [("tup", [("name", "x"), ("sub", ("name", "x"), g.leaf())])],
                ("disp", "tuple", [("pos", g.leaf()), ("pos", ("name", "x"))])))
    return [(("assign", [("name", "r")], s[1]) if s[0] == "expr" else s) for s in out]


def valid_args(pat):
    seen_kw = seen_d = False
    for c in pat:
        if c == "p" and (seen_kw or seen_d):
            return False
        if c == "s" and seen_d:
            return False
        if c == "k":
            seen_kw = True
        if c == "d":
            seen_d = True
    return True


# --------------------------------------------------------------------------------------
# running: the same function definitions compiled by the compiler under test (module <name>) and
# executed by CPython (module <name>_py), both importing the same logging runtime c20rt
DRIVER = r'''
import sys, json, importlib
spec = json.load(sys.stdin)
import c20rt
for mod, fn in spec["todo"]:
    print(json.dumps({"begin": [mod, fn]})); sys.stdout.flush()
    m = importlib.import_module(mod)
    print(json.dumps({"m": mod, "f": fn, "r": c20rt.run_case(getattr(m, fn))})); sys.stdout.flush()
'''


def run_all(workdir, todo, script="c20_driver.py"):
    """run (module, function) pairs in a subprocess; a function that kills the process (a crash of the
    compiled code is an observed outcome) is recorded as such and the run resumes behind it"""
    results = {}
    start = 0
    crashes = 0
    while start < len(todo) and crashes < 40:
        r = cybuild.run_script(DRIVER, workdir, {"todo": todo[start:]}, timeout=1500, name=script)
        begun = None
        ndone = 0
        for line in r["out"].splitlines():
            try:
                d = json.loads(line)
            except Exception:
                continue
            if "begin" in d:
                begun = tuple(d["begin"])
            elif "m" in d:
                results[(d["m"], d["f"])] = d["r"]
                ndone += 1
                begun = None
        if begun is None and start + ndone >= len(todo):
            break
        if begun is None:
            raise RuntimeError("driver failed rc=%s %s" % (r["rc"], r["err"][-1500:]))
        results[begun] = [[], "CRASH rc=%s %s" % (r["rc"], r["err"][-300:].replace("\n", " "))]
        start = todo.index(list(begun)) + 1 if list(begun) in todo else start + ndone + 1
        crashes += 1
    return results


def module_source(stmts, first=0, py=False, skip=()):
    """py: the CPython twin (plain def callees); skip: indices (absolute) left out of the compiled module"""
    L = ["# cython: language_level=3", "from c20rt import O, T, F, U, D, I, ev, LOG", ""]
    if any(CC.needs_prelude(s) for s in stmts):
        L.append(CC.PRELUDE_PY if py else CC.PRELUDE_CY)
    if any(has_kind(s, ("raw",)) for s in stmts):
        L.append(BI_PRELUDE_PY if py else BI_PRELUDE_CY)
    for i, s in enumerate(stmts):
        if (first + i) in skip and not py:
            continue
        L.append(r_func("c%d" % (first + i), s))
    return "\n".join(L)


def build_and_run(workdir, stmts, chunk=150, jobs=6, tag="c20m", skip=()):
    """returns (impl, oracle): lists of [log, result] per statement; impl entries are None when the
    chunk failed to build (with the error in the third slot); the statements whose index is in skip are
    left out of the compiled modules (impl entry [None, "SKIPPED"])"""
    skip = set(skip)
    os.makedirs(workdir, exist_ok=True)
    with open(os.path.join(workdir, "c20rt.py"), "w") as f:
        f.write(RUNTIME)
    specs, names = [], []
    for ci in range(0, len(stmts), chunk):
        name = "%s_%d" % (tag, ci // chunk)
        src = module_source(stmts[ci:ci + chunk], ci, skip=skip)
        with open(os.path.join(workdir, name + "_py.py"), "w") as f:
            f.write(module_source(stmts[ci:ci + chunk], ci, py=True))
        specs.append(dict(name=name, source=src, workdir=workdir, cflags=["-O0"]))
        names.append((name, ci, min(len(stmts), ci + chunk)))
    built = cybuild.build_many(specs, jobs=jobs)
    # a chunk the compiler rejects (or crashes on) is split until the offending statements are alone
    # functions the compiler reports errors for (file:line:col messages) are dropped from their chunk and the
    # chunk is rebuilt once or twice; whatever still fails is bisected
    import re
    failed = {}
    for _ in range(2):
        todo_k = []
        for k, (so, err) in enumerate(built):
            if err is None or "cython-error" not in str(err):
                continue
            name, lo, hi = names[k]
            src = module_source(stmts[lo:hi], lo, skip=skip | set(failed))
            starts = [(ln, int(m.group(1))) for ln, text in enumerate(src.split("\n"), 1)
                      for m in [re.match(r"def c(\d+)\(", text)] if m]
            hit = {}
            for m in re.finditer(r"\.pyx:(\d+):\d+: ([^\n]*)", getattr(err, "detail", str(err))):
                cand = [i for l, i in starts if l <= int(m.group(1))]
                if cand:
                    hit.setdefault(cand[-1], m.group(2)[:300])
            if hit:
                failed.update(hit)
                todo_k.append(k)
        if not todo_k:
            break
        nspecs = []
        for k in todo_k:
            name, lo, hi = names[k]
            nspecs.append(dict(name=name, source=module_source(stmts[lo:hi], lo, skip=skip | set(failed)),
                               workdir=workdir, cflags=["-O0"]))
        for k, b2 in zip(todo_k, cybuild.build_many(nspecs, jobs=jobs)):
            built[k] = b2
    skip = skip | set(failed)
    round_no = 0
    while True:
        bad = [k for k, (so, err) in enumerate(built) if err is not None and names[k][2] - names[k][1] > 1]
        if not bad or round_no > 8:
            break
        round_no += 1
        nspecs, nnames = [], []
        for k in bad:
            name, lo, hi = names[k]
            mid = (lo + hi) // 2
            for j, (l2, h2) in enumerate(((lo, mid), (mid, hi))):
                nm2 = "%s_%d%s" % (name, round_no, "ab"[j])
                src = module_source(stmts[l2:h2], l2, skip=skip)
                with open(os.path.join(workdir, nm2 + "_py.py"), "w") as f:
                    f.write(module_source(stmts[l2:h2], l2, py=True))
                nspecs.append(dict(name=nm2, source=src, workdir=workdir, cflags=["-O0"]))
                nnames.append((nm2, l2, h2))
        nbuilt = cybuild.build_many(nspecs, jobs=jobs)
        names = [n for k, n in enumerate(names) if k not in bad] + nnames
        built = [b2 for k, b2 in enumerate(built) if k not in bad] + nbuilt
    impl = [None] * len(stmts)
    orac = [None] * len(stmts)
    todo = []
    for (name, lo, hi), (so, err) in zip(names, built):
        fl = ["c%d" % i for i in range(lo, hi)]
        todo += [[name + "_py", f] for f in fl]
        if err is None:
            todo += [[name, "c%d" % i] for i in range(lo, hi) if i not in skip]
            for i in range(lo, hi):
                if i in failed:
                    impl[i] = [None, "BUILD cython-error: " + failed[i]]
                elif i in skip:
                    impl[i] = [None, "SKIPPED"]
        else:
            for i in range(lo, hi):
                impl[i] = [None, "BUILD " + str(err)[:1500]]
    res = run_all(workdir, todo)
    for (name, lo, hi) in names:
        for i in range(lo, hi):
            orac[i] = res.get((name + "_py", "c%d" % i), [[], "EXC missing"])
            if (name, "c%d" % i) in res:
                impl[i] = res[(name, "c%d" % i)]
    return impl, orac


# --------------------------------------------------------------------------------------
# the check
# flags to flip after the corresponding proposed_fixes/C20-*.diff is applied to /repo
INPLACE_FIXED = os.environ.get("C20_INPLACE_FIXED", "1") == "1"
NOTFLIP_FIXED = os.environ.get("C20_NOTFLIP_FIXED", "1") == "1"
BOOLOPDUP_FIXED = os.environ.get("C20_BOOLOPDUP_FIXED", "1") == "1"
# GeneralCallNode.map_to_simple_call_node (proposed_fixes/C20-ccall_*.diff)
CCSIMPLE_FIXED = os.environ.get("C20_CCSIMPLE_FIXED", "1") == "1"
CCKEEP_FIXED = os.environ.get("C20_CCKEEP_FIXED", "1") == "1"
CCRECV_FIXED = os.environ.get("C20_CCRECV_FIXED", "0") == "1"
FLAG_CLASSES = [  # (index in the model's flag vector, finding class)
    (0, "minmax_first_argument_evaluated_last"),
    (1, "method_lookup_after_arguments"),
    (2, "inplace_attribute_base_evaluated_twice"),
    (3, "cascaded_unpacking_assigns_columnwise"),
    (5, "ccall_arguments_cut_after_leading_temp"),
    (4, "ccall_argument_taken_for_simple_before_analysis"),
    (6, "cmethod_receiver_evaluated_after_keyword_temps"),
]
REWRITE_CLASSES = ["not_of_cascaded_in_flips_operator", "cascaded_in_boolop_operand_evaluated_twice"]


def asis_flags():
    """fx_minmax fx_mcall fx_inplace fx_cascade fx_ccsimple fx_cckeep fx_ccrecv cc_sorted (the last one is not a
    repair: the temps of out-of-order keyword arguments ARE sorted by call position in the tree as it is)"""
    return [1 if MINMAX_FIXED else 0, 0, 1 if INPLACE_FIXED else 0, 0,
            1 if CCSIMPLE_FIXED else 0, 1 if CCKEEP_FIXED else 0, 1 if CCRECV_FIXED else 0, 1]


def asis_rewrites():
    return [not NOTFLIP_FIXED, not BOOLOPDUP_FIXED]


def front_end(x, rw):
    """two tree rewrites of the compiler front end, applied to the model's input so that the model of the
    generated code sees the tree the code generator sees:
    rw[0]  Optimize.ConstantFolding._handle_NotNode:  not (a in b <cascade>)  ->  a not in b <cascade>
           (the first operator is flipped although a cascade follows);
    rw[1]  a and/or node that is the shared middle operand of a cascade continuing with in / not in is
           re-created by BoolBinopNode.coerce_to and therefore evaluated once per comparison:
           a < (b or c) in d   behaves like   (a < (b or c)) and ((b or c) in d)."""
    if isinstance(x, list):
        return [front_end(y, rw) for y in x]
    if not isinstance(x, tuple):
        return x
    x = tuple(front_end(y, rw) for y in x)
    if rw[0] and x and x[0] == "un" and x[1] == "not" and x[2][0] == "cmp" and len(x[2][1]) >= 2 \
            and x[2][1][0] in ("in", "notin"):
        c = x[2]
        x = ("cmp", [("notin" if c[1][0] == "in" else "in")] + list(c[1][1:]), c[2])
    if rw[1] and x and x[0] == "cmp":
        ops, es = x[1], x[2]
        for i in range(1, len(ops)):
            if ops[i] in ("in", "notin") and es[i][0] in ("and", "or"):
                left = ("cmp", list(ops[:i]), list(es[:i + 1]))
                right = front_end(("cmp", list(ops[i:]), list(es[i:])), [False, True])
                return ("and", left, right)
    return x


def dedup_bool(log):
    """a truth test repeated on the same value with nothing in between is CPython-version specific
    (jump threading of nested and/or/not up to 3.11, none in 3.12): not part of the property"""
    out = []
    for e in log:
        if out and e == out[-1] and e.startswith("bool("):
            continue
        out.append(e)
    return out


def parse_model(line):
    parts = [p.strip() for p in line.split("|")]
    if line.startswith("!ERR") or len(parts) < 3:
        return None
    return [parts[0].split() if parts[0] else [], parts[1], parts[2], len(parts) > 3]


def stratum_of(s):
    if s[0] == "assign":
        if len(s[1]) == 1 and s[1][0] == ("name", "r"):
            e = s[2]
            if e[0] == "ccall":
                nkw = sum(1 for a in e[3] if a[0] == "kw")
                return "ccall/%s/pos%d+kw%d" % (e[1], len(e[3]) - nkw, nkw)
            return "expr/" + (e[1] if e[0] in ("disp",) else e[0])
        kinds = "+".join(sorted(set(t[0] for t in s[1])))
        return "assign%d/%s" % (min(len(s[1]), 3), kinds)
    if s[0] == "aug":
        return "aug/" + s[1][0]
    return "del/" + s[1][0]


def model_lines(stmts, flags, rw=None):
    rw = asis_rewrites() if rw is None else rw
    return ["run %s %s" % (" ".join(str(f) for f in flags), " ".join(t_stmt(front_end(s, rw))))
            for s in stmts]


def classify_all(model, items):
    """items: [(statement, model output as is)]; finding class of a statement = the first modelled deviation
    whose repair changes the model's trace (all variants of all statements in one model batch)"""
    flags = asis_flags()
    rw = asis_rewrites()
    lines, plan = [], []
    for s, base_out in items:
        var = []
        for i, name in enumerate(REWRITE_CLASSES):
            if rw[i]:
                rw2 = list(rw); rw2[i] = False
                var.append((name, len(lines))); lines += model_lines([s], flags, rw2)
        for idx, name in FLAG_CLASSES:
            if flags[idx]:
                continue
            f2 = list(flags); f2[idx] = 1
            var.append((name, len(lines))); lines += model_lines([s], f2)
        plan.append(var)
    out = model.batch(lines)
    res = []
    for (s, base_out), var in zip(items, plan):
        k = "order_differs_from_cpython"
        for name, li in var:
            if out[li] != base_out:
                k = name
                break
        res.append(k)
    return res


def check_stmts(ctx, stmts, tag, front_modules=()):
    """front_modules: further <name>.pyx files (already written) for the front-end worker that runs while
    the modules build; returns the worker's result"""
    model = ctx.model("evalorder")
    flags = asis_flags()
    import time
    t_0 = time.time()
    all_stmts = stmts
    raw_idx = set(i for i, s in enumerate(all_stmts) if has_kind(s, ("raw",)))
    dummy = ("assign", [("name", "r")], ("none",))
    stmts = [(dummy if i in raw_idx else s) for i, s in enumerate(all_stmts)]      # model queries only
    m_asis = model.batch(model_lines(stmts, flags))
    m_ref = model.batch(["ref " + " ".join(t_stmt(s)) for s in stmts])
    f_m = list(flags); f_m[1] = 1
    m_mcall = model.batch(model_lines(stmts, f_m))          # variant: method looked up before the arguments
    f_c = list(flags); f_c[4] = f_c[5] = f_c[6] = 1
    m_ccrep = model.batch(model_lines(stmts, f_c))          # variant: C-call mapping repaired
    # C calls the model of the compiler rejects (compile error): left out of the compiled modules; the real
    # compiler front end is asked about them (one module, the error lines are attributed to the functions)
    rej = [i for i, ma in enumerate(m_asis) if ma.startswith("REJECT")]
    os.makedirs(ctx.workdir, exist_ok=True)
    rej_name = tag + "_rej"
    rej_range = {}
    if rej:
        L = ["# cython: language_level=3", "from c20rt import O, T, F, U, D, I, ev, LOG", ""] + CC.PRELUDE_CY.split("\n")
        for i in rej:
            lo = len(L) + 1
            L += r_func("c%d" % i, stmts[i]).split("\n")
            rej_range[i] = (lo, len(L))
        with open(os.path.join(ctx.workdir, rej_name + ".pyx"), "w") as f:
            f.write("\n".join(L) + "\n")
    import threading
    front = {}
    def run_front():
        t_f = time.time()
        try:
            front["res"] = CC.front_run(ctx.workdir, list(front_modules) + ([rej_name] if rej else []))
        except BaseException as e:
            front["exc"] = e
        if os.environ.get("C20_DEBUG"):
            print("TIMING front-end worker %.1fs" % (time.time() - t_f), file=sys.stderr)
    th = threading.Thread(target=run_front)
    th.start()
    stmts = all_stmts
    try:
        # quick: one build phase, seven modules in parallel (the start-up of the compiler from .py sources and
        # the C compiler run are on the critical path of every module)
        nchunk = 100 if ctx.tier != "quick" else max(40, -(-len(stmts) // 7))
        impl, orac = build_and_run(ctx.workdir, stmts, tag=tag, jobs=(7 if ctx.tier == "quick" else 6), chunk=nchunk, skip=rej)
        if os.environ.get("C20_DEBUG"):
            print("TIMING build_and_run done at %.1fs" % (time.time() - t_0), file=sys.stderr)
    finally:
        th.join()
    if "exc" in front:
        raise front["exc"]
    rej_errs = front["res"].get(rej_name + "#err", [])
    rej_recs = front["res"].get(rej_name, {})
    rej_res = {}
    for i in rej:
        lo, hi = rej_range[i]
        msgs = [m for ln, m in rej_errs if lo <= ln <= hi]
        # the mapping passed fewer arguments on than the call supplies (inside the keyword arguments of a Python
        # call the resulting error is not reported at once: the compiler crashes later in code generation)
        cut = any(rc.get("res") == "ok" and len(rc["args"]) < len(rc["simple"])
                  for ln, recs in rej_recs.items() if lo <= int(ln) <= hi for rc in recs)
        rej_res[i] = {"ok": not msgs and not cut, "err": " / ".join(msgs), "cut": cut}
    t_1 = time.time()
    pending = []
    nskip = 0
    ncrash = []
    nalt = []
    nrej = []
    for i, (s, a, o, ma, mr) in enumerate(zip(stmts, impl, orac, m_asis, m_ref)):
        src = r_stmt(s)
        inp = {"stmt": src, "ast": s}
        if o[1].startswith("EXC"):
            nskip += 1          # CPython itself rejects the generated statement: not a case
            continue
        has_cc = has_kind(s, ("ccall",))
        if i in raw_idx:
            judge_raw(ctx, s[2], a, o)
            continue
        if i in rej_res:
            # valid for CPython, rejected by the model of the compiler: the compiler must reject it too, and
            # the repaired model must accept it with the reference order (nothing is executed: no order to
            # compare; reported as a note, see proposed_fixes/C20-ccall_arguments_cut_after_leading_temp)
            ctx.case("ccall-rejected", inp, sig=src)
            rr = rej_res[i]
            if rr["ok"] or not (rr["cut"] or "wrong number of arguments" in rr["err"] or "missing argument" in rr["err"]):
                ctx.corr_break("model-rejects-vs-compiler", inp, rr, ma)
            alt = parse_model(m_ccrep[i])
            if alt is None or alt[1] == "REJECT":
                ctx.corr_break("rejected-call-repaired-model", inp, alt, mr)
            nrej.append(src)
            continue
        ctx.case(stratum_of(s), inp, sig=src)
        if a[0] is None and ("Compiler crash" in a[1] or "cython-error" in a[1]) and not has_cc:
            # the compiler rejects / crashes on this (valid) statement: nothing is executed, no order to compare
            ncrash.append(src)
            if os.environ.get("C20_DEBUG"):
                print("BUILD", src, "\n".join(l for l in a[1].splitlines() if "arning" not in l)[-800:], file=sys.stderr)
            continue
        if a[0] is None:
            if os.environ.get("C20_DEBUG"):
                print("BUILD", src, "\n".join(l for l in a[1].splitlines() if "arning" not in l)[-1500:], file=sys.stderr)
            ctx.corr_break("build", inp, a[1][:600], "module builds")
            continue
        pa, pr = parse_model(ma), parse_model(mr)
        if pa is None or pr is None or pa[3]:
            ctx.corr_break("model-run", inp, a, [ma, mr])
            continue
        # (1) the reference semantics is CPython's order (modulo repeated adjacent truth tests)
        if dedup_bool(pr[0]) != dedup_bool(o[0]) or pr[1] != o[1]:
            ctx.corr_break("reference-vs-cpython", inp, o, pr[:2])
        # (2) tie: the model of the generated code reproduces the compiled module's log exactly
        tie = (pa[0] == a[0] and pa[1] == a[1])
        if not tie and not flags[1]:
            # PyMethodCallNode does not take the PyObject_VectorcallMethod shortcut for every method call
            # (the conditions are not modelled): accept the model variant that looks the method up first
            alt = parse_model(m_mcall[i])
            if alt is not None and alt[0] == a[0] and alt[1] == a[1]:
                tie = True
                nalt.append(src)
                ma = "(method looked up first) " + ma
        if not tie:
            if os.environ.get("C20_DEBUG"):
                print("TIE", src, "\n  cy", " ".join(a[0]), "=>", a[1], "\n  md", " ".join(pa[0]), "=>", pa[1], file=sys.stderr)
            ctx.corr_break("gen-model-vs-compiled", inp, a, pa[:2])
        # (3) property oracle: compiled module vs CPython
        if dedup_bool(a[0]) != dedup_bool(o[0]) or a[1] != o[1]:
            if tie:
                pending.append((s, inp, a, o, ma, m_asis[i]))
            else:
                ctx.fail("order_differs_from_cpython", inp, a, o, note="model(as is): %s" % ma[:300])
        else:
            # (4) every leaf at most once (if the logs agree this can only fail when CPython does the same)
            lv = [e for e in a[0] if e.startswith("L") and e[1:].isdigit()]
            if len(lv) != len(set(lv)):
                ctx.fail("leaf_evaluated_twice", inp, a, o)
    for (s, inp, a, o, ma, base), klass in zip(pending, classify_all(model, [(p[0], p[5]) for p in pending])):
        ctx.fail(klass, inp, a, o, note="model(as is): %s" % ma[:300])
    if os.environ.get("C20_DEBUG"):
        print("TIMING %s: model+build+run %.1fs, judge %.1fs (%d statements)" % (tag, t_1 - t_0, time.time() - t_1, len(stmts)), file=sys.stderr)
    if nalt:
        ctx.note("%s: %d statements whose method calls were compiled without the vectorcall-method shortcut "
                 "(model variant fx_mcall matched), e.g. %s" % (tag, len(nalt), nalt[0][:200]))
    if ncrash:
        ctx.note("%s: the compiler fails on %d generated statements (not evaluation-order cases), e.g. %s"
                 % (tag, len(ncrash), ncrash[0][:200]))
    if nrej:
        ctx.note("%s: %d valid calls of C functions with out-of-order keyword arguments are rejected at compile time "
                 "('Call with wrong number of arguments': map_to_simple_call_node cuts the argument list at the "
                 "first temp when a non-simple argument precedes it; model and compiler agree), e.g. %s"
                 % (tag, len(nrej), nrej[0][:200]))
    if nskip:
        ctx.note("%s: %d generated statements rejected by CPython itself (skipped)" % (tag, nskip))
    return front["res"]


# --------------------------------------------------------------------------------------
# front-end tie of GeneralCallNode.map_to_simple_call_node (no C compiler involved)
def tie_class(fname, npos, perm, kinds):
    """finding class of a call shape, from the input only"""
    P = CC.CALLEES[fname]["params"]
    m = npos + len(perm)
    pre = 0
    while pre < len(perm) and perm[pre] == P[npos + pre]:
        pre += 1
    k = npos + pre
    believed = [kd in CC.SIMPLE or kd in CC.FALSE_SIMPLE for kd in kinds]
    has_temp = any(not believed[p] for p in range(k, m))
    if has_temp and any(not believed[p] for p in range(k)) and not CCKEEP_FIXED:
        return "ccall_arguments_cut_after_leading_temp"
    if pre < len(perm) and any(kd in CC.FALSE_SIMPLE for kd in kinds) and not CCSIMPLE_FIXED:
        return "ccall_argument_taken_for_simple_before_analysis"
    return "ccall_temps_not_in_call_order"


GAPS = [("co", "co(T(1), c=T(2))", "ccmap 1 0 1 4 2 0", "none"), ("co", "co(T(1), d=T(2), b=T(3))", "ccmap 1 0 1 4 3,1 00", "none"),
        ("pf", "pf(T(1), c=T(2))", "ccmap 1 0 1 3 2 0", "self"),
        ("pf", "pf(T(1), T(2))", "ccmap 1 0 2 3 - 00", "nocall"), ("cf", "cf(T(1), T(2), T(3), T(4))", "ccmap 1 0 4 4 - 0000", "nocall")]


def prepare_ccmap(ctx):
    """writes the tie modules (one call per source line; 40 calls per function, 400 per module)"""
    quick = ctx.tier == "quick"
    g = Gen(ctx.rng)
    cases = CC.tie_cases(g, quick)
    mods, where, all_asts = [], [], []
    per_mod = 400
    hdr = ["# cython: language_level=3", "from c20rt import O, T, F, U, D, I, ev, LOG", ""] + CC.PRELUDE_CY.split("\n")
    os.makedirs(ctx.workdir, exist_ok=True)
    for mi in range(0, len(cases), per_mod):
        name = "c20tie_%d" % (mi // per_mod)
        L = list(hdr)
        for j, (fname, npos, perm, kinds) in enumerate(cases[mi:mi + per_mod]):
            if j % 40 == 0:
                L.append("def t%d(x, y, z):" % (j // 40))
            g.k = 0
            call = CC.mk_call(g, fname, npos, perm, kinds, "name")
            L.append("    r = " + r_expr(call))
            where.append((name, len(L)))
            all_asts.append(call)
        mods.append(name)
        with open(os.path.join(ctx.workdir, name + ".pyx"), "w") as f:
            f.write("\n".join(L) + "\n")
    # calls with a gap (a declared parameter before a given keyword is omitted): compile error for cdef
    # functions ("C function call is missing argument"), Python call of the wrapper for cpdef functions
    L = list(hdr) + ["def t0(x, y, z):"]
    glines = []
    for x in GAPS:
        L.append("    r = " + x[1]); glines.append(len(L))
    with open(os.path.join(ctx.workdir, "c20tie_gap.pyx"), "w") as f:
        f.write("\n".join(L) + "\n")
    mods.append("c20tie_gap")
    return dict(cases=cases, where=where, asts=all_asts, modules=mods, glines=glines)


def judge_ccmap(ctx, prep, real):
    model = ctx.model("evalorder")
    cases, where, all_asts = prep["cases"], prep["where"], prep["asts"]
    if real.get("crash"):
        ctx.note("front-end tie: compiler crashed in %s" % real["crash"][:2])
    bs = model.batch(["bsimple " + " ".join(t_expr(a[1] if a[0] == "pos" else a[2])) for call in all_asts for a in call[3]])
    pos = 0
    lines = []
    bits_of = []
    for call in all_asts:
        n = len(call[3])
        bits_of.append([b.split() for b in bs[pos:pos + n]])
        pos += n
    keep = 1 if CCKEEP_FIXED else 0
    for (fname, npos, perm, kinds), bits in zip(cases, bits_of):
        P = CC.CALLEES[fname]["params"]
        use = [(b[1] if CCSIMPLE_FIXED else b[0]) for b in bits]
        lines.append("ccmap 1 %d %d %d %s %s" % (keep, npos, len(P), ",".join(str(P.index(x)) for x in perm) or "-",
                                                  "".join(use) or "-"))
    mres = model.batch(lines)
    for idx, ((fname, npos, perm, kinds), (mname, line), bits, mr) in enumerate(zip(cases, where, bits_of, mres)):
        call = all_asts[idx]
        src = r_expr(call)
        inp = {"call": src, "callee": fname, "npos": npos, "keywords": perm, "kinds": kinds}
        recs = real.get(mname, {}).get(str(line))
        ctx.case("ccmap/%s/pos%d+kw%d" % (fname, npos, len(perm)), inp, sig=src)
        if not recs or len(recs) != 1:
            ctx.corr_break("ccmap-no-record", inp, recs, mr)
            continue
        rec = recs[0]
        # (a) the is_simple() verdicts before type analysis = bsimple of the model
        want_bits = [(b[1] if CCSIMPLE_FIXED else b[0]) for b in bits]
        if not CCSIMPLE_FIXED and [str(x) for x in rec["simple"]] != want_bits:
            ctx.corr_break("bsimple-model-vs-real", inp, rec["simple"], want_bits)
        # (b) temps and argument list = ccmap of the model
        if rec["res"] == "ok":
            got = "OK %s | %s" % (",".join(map(str, rec["temps"])), ",".join(map(str, rec["args"])))
        else:
            got = {"none": "ERR/GAP", "self": "GAP"}[rec["res"]]
        if not (got == mr or (got == "ERR/GAP" and mr in ("ERR", "GAP"))):
            ctx.corr_break("ccmap-model-vs-real", inp, got, mr)
        # (c) the property: the SimpleCallNode receives the binding the call denotes and the evaluation order
        #     (temps, then the arguments left in place) visits the really non-simple arguments in call order,
        #     every argument exactly once
        if rec["res"] != "ok":
            ctx.fail("ccall_valid_call_not_mapped", inp, rec, "mapped")
            continue
        want = CC.expected_binding(fname, npos, perm)
        order = rec["temps"] + [p for p in rec["args"] if p not in rec["temps"]]
        real_ns = [p for p in order if kinds[p] not in CC.SIMPLE] if all(0 <= p < len(kinds) for p in order) else None
        ok = (rec["args"] == want and len(set(order)) == len(order) and
              real_ns == [p for p in range(len(kinds)) if kinds[p] not in CC.SIMPLE])
        if not ok:
            ctx.fail(tie_class(fname, npos, perm, kinds), inp, {"temps": rec["temps"], "args": rec["args"]},
                     {"args": want, "non-simple arguments evaluated in call order": True},
                     note="model: %s" % mr)
    ctx.count("ccmap/gap-or-positional", len(GAPS), distinct_sigs=[x[1] for x in GAPS])
    gm = model.batch([x[2] for x in GAPS])
    rg = real.get("c20tie_gap", {})
    for x, ln, mr in zip(GAPS, prep["glines"], gm):
        recs = rg.get(str(ln))
        if x[3] == "nocall":
            # purely positional calls are SimpleCallNodes from the start: the mapping is not involved
            if recs or not mr.startswith("OK  | "):
                ctx.corr_break("ccmap-positional", {"call": x[1]}, recs, mr)
        elif not recs or recs[0]["res"] != x[3] or mr != "GAP":
            ctx.corr_break("ccmap-gap", {"call": x[1]}, recs, mr)


# --------------------------------------------------------------------------------------
# optimised builtin calls, builtin-type methods on typed receivers, inline C arguments: the same source
# compiled and executed by CPython, logs compared (two-way; the model has no builtin semantics)
BI_PRELUDE_COMMON = """
def TY(k):
    LOG.append('L%d' % k); return (int, str, float, list)[k % 4]
def Ls(k):
    LOG.append('L%d' % k); return [k, k + 1]
def St(k):
    LOG.append('L%d' % k); return 'ab%dab' % k
class NUL(object):
    def write(self, s): LOG.append('w' + s.strip()[:12])
nul = NUL()
"""
BI_PRELUDE_CY = BI_PRELUDE_COMMON + """
cdef dict as_dict(o): return <dict>o
cdef list as_list(o): return <list>o
cdef str as_str(o): return <str>o
cdef long h(long k) noexcept:
    LOG.append('h%d' % k); return k
cdef long he(long k) except? -1:
    LOG.append('h%d' % k); return k
cdef long ci(long a, long b, long c):
    return a * 100 + b * 10 + c
"""
BI_PRELUDE_PY = BI_PRELUDE_COMMON + """
def as_dict(o): return o
as_list = as_str = as_dict
def h(k):
    LOG.append('h%d' % k); return k
he = h
def ci(a, b, c):
    return a * 100 + b * 10 + c
"""
# {A} {B} {C} {D}: argument slots, filled with logging sub-expressions of the right value type
#   o: any object   i: int   s: str   t: type   l: list   d: dict
BUILTINS = [
    ("getattr({o}, 'a', {o})", "getattr3"), ("getattr({o}, {s}, {o})", "getattr3"), ("getattr({o}, {s})", "getattr2"),
    ("setattr({o}, {s}, {o})", "setattr"), ("hasattr({o}, {s})", "hasattr"),
    ("isinstance({o}, ({t}, {t}))", "isinstance-tuple"), ("isinstance({o}, {t})", "isinstance"),
    ("isinstance({o}, (int, {t}, str))", "isinstance-tuple"), ("issubclass({t}, ({t}, {t}))", "issubclass"),
    ("as_dict({d}).get({o}, {o})", "dict.get"), ("as_dict({d}).get({o})", "dict.get"),
    ("as_dict({d}).setdefault({o}, {o})", "dict.setdefault"), ("as_dict({d}).pop({o}, {o})", "dict.pop"),
    ("as_list({l}).insert({i}, {o})", "list.insert"), ("as_list({l}).append({o})", "list.append"),
    ("as_list({l}).extend([{o}, {o}, {o}])", "list.extend"), ("as_list({l}).pop({i} - {i})", "list.pop"),
    ("as_list({l}).extend([{o} + {o}, {o}, -{o}])", "list.extend-mixed"), ("as_list({l}).extend(({o}, {o}.a, {o}))", "list.extend-mixed"),
    ("set([{o}.a, {o}, {o} + {o}])", "set-mixed"),
    ("as_str({s}).startswith({s}, {i}, {i})", "str.startswith"), ("as_str({s}).endswith({s}, {i})", "str.endswith"),
    ("as_str({s}).find({s}, {i}, {i})", "str.find"), ("as_str({s}).replace({s}, {s}, {i})", "str.replace"),
    ("as_str({s}).split({s}, {i})", "str.split"), ("as_str({s}).join([{s}, {s}])", "str.join"),
    ("as_str({s}).encode({s}[0:0] + 'utf8')", "str.encode"),
    ("print({o}, {o}, file=nul)", "print"), ("print({o}, {o}, sep={s}, file=nul)", "print"),
    ("abs({i})", "abs"), ("divmod({i}, {i})", "divmod"), ("pow({i}, {i}, {i})", "pow"), ("pow({i}, {i})", "pow"),
    ("set([{o}, {o}, {o}])", "set"), ("sum([{i}, {i}], {i})", "sum"), ("dict(ka={o}, kb={o})", "dict"),
    ("slice({o}, {o}, {o})", "slice"), ("tuple([{o}, {o}])", "tuple"), ("list(({o}, {o}))", "list"),
    ("sorted([{i}, {i}], reverse={o})", "sorted"), ("int({s}[2:3], {i} + 8)", "int"), ("str({o})", "str"),
    ("len([{o}, {o}])", "len"), ("next(iter([{o}]), {o})", "next"), ("min({i}, {i}, {i})", "min"),
    ("max({i}, {i})", "max"), ("bool({o})", "bool"), ("type({o})", "type"), ("callable({o})", "callable"),
    ("[{o}, {o}][{i} - {i}]", "list-index"), ("({o}, {o})[{i} - {i}:{i}]", "tuple-slice"),
    ("{{{o}: {o}, {o}: {o}}}", "dict-display"), ("f'{{{o}}}{{{o}!r}}'", "fstring"),
    ("ci({i}, {i}, {i})", "cfunc-int"), ("ci(c={i}, b={i}, a={i})", "cfunc-int-kw"), ("ci(he({i}), {i}, he({i}))", "cfunc-int"),
    ("ci(b=he({i}), a={i}, c=he({i}))", "cfunc-int-kw"),
]
# arguments evaluated inline in the C call expression (a noexcept C function call is no temp): after the
# temps, in the C compiler's order.  Cython warns (level 0): "Argument evaluation order in C function call
# is undefined and may not be as expected"
BUILTINS_INLINE = [
    ("ci(h({i}), {i}, h({i}))", "inline"), ("ci({i}, h({i}), {i})", "inline"), ("ci({i} + 1, h({i}), {i})", "inline"),
]


def fill(g, tmpl, rich):
    """rich: and/or/conditional sub-expressions in the slots, else plain leaves"""
    r = g.rng
    def leafsrc(kind):
        g.k += 1
        return {"o": "T(%d)", "i": "I(%d)", "s": "St(%d)", "t": "TY(%d)", "l": "Ls(%d)", "d": "D(%d)"}[kind] % g.k
    def slot(kind):
        if not rich or r.random() < 0.4:
            return leafsrc(kind)
        c = r.random()
        a, b = leafsrc(kind), leafsrc(kind)
        if c < 0.35:
            return "(%s or %s)" % (a, b)
        if c < 0.7:
            return "(%s and %s)" % (a, b)
        g.k += 1
        return "(%s if %s(%d) else %s)" % (a, r.choice("TF"), g.k, b)
    out, i = "", 0
    while i < len(tmpl):
        if tmpl[i] == "{" and i + 2 < len(tmpl) and tmpl[i + 2] == "}" and tmpl[i + 1] in "oistld":
            out += slot(tmpl[i + 1]); i += 3
        elif tmpl[i:i + 2] in ("{{", "}}"):
            out += tmpl[i]; i += 2
        else:
            out += tmpl[i]; i += 1
    return out


def builtin_statements(g, quick):
    """r = <builtin call>: ('raw', source, template name); quick: one filling per template (plain and rich
    alternate), thorough: the plain one and six rich ones"""
    cases = []
    for ti, (tmpl, name) in enumerate(BUILTINS + BUILTINS_INLINE):
        if quick:
            g.k = 0
            cases.append((fill(g, tmpl, ti % 2 == 1 or name in ("list.extend", "set")), name))
        else:
            g.k = 0
            cases.append((fill(g, tmpl, False), name))
            for _ in range(6):
                g.k = 0
                cases.append((fill(g, tmpl, True), name))
    seen, out = set(), []
    for src, name in cases:
        if src not in seen:
            seen.add(src)
            out.append(("assign", [("name", "r")], ("raw", src, name)))
    return out


def judge_raw(ctx, e, a, o):
    """two-way: compiled module vs CPython (the model has no builtin semantics)"""
    src, name = e[1], e[2]
    inp = {"expr": src}
    ctx.case("builtin/" + name, inp, sig=src)
    if a[0] is None:
        ctx.corr_break("builtin-build", inp, a[1][:600], "module builds")
        return
    same_val = (a[1] == o[1]) or ("?<" in a[1] and "?<" in o[1])
    if dedup_bool(a[0]) != dedup_bool(o[0]) or not same_val:
        klass = "optimised_builtin_call_order_differs"
        if name == "inline":
            klass = "c_call_inline_c_argument_order_unspecified"
        elif name in ("list.extend-mixed", "set-mixed") or (
                name in ("list.extend", "set") and any(tok in src for tok in (" or ", " and ", " if "))):
            # the literal's items: calls go into LetRefNode temps, other nodes that end up in temps
            # (operators, attribute lookups, and/or, conditional expressions) count as simple, stay in place
            klass = "builtin_literal_item_in_temp_taken_for_simple"
        elif name == "cfunc-int-kw" and any(tok in src for tok in (" or ", " and ", " if ")):
            klass = "ccall_argument_taken_for_simple_before_analysis"
        ctx.fail(klass, inp, a, o)
    else:
        lv = [x for x in a[0] if x.startswith("L") and x[1:].isdigit()]
        if len(lv) != len(set(lv)):
            ctx.fail("leaf_evaluated_twice", inp, a, o)


def gen_random(rng, count, depth):
    g = Gen(rng)
    out, seen = [], set()
    while len(out) < count:
        g.k = 0
        s = g.stmt(depth)
        src = r_stmt(s)
        if src in seen or len(leaves_of(s)) < 2 or len(src) > 900:
            continue
        seen.add(src)
        out.append(s)
    return out


def run(ctx):
    quick = ctx.tier == "quick"
    small = enum_small(ctx.rng, quick)
    if quick:
        # the compiler under test runs from .py sources (~0.25 s per function): keep two thirds of the enumeration
        small = [s for s in small if ctx.rng.random() < 0.66]
    # calls the compiler maps to C-level argument lists: every shape of positional / keyword arguments
    gcc_ = Gen(ctx.rng); gcc_.k = 500
    small = small + CC.systematic_calls(gcc_, quick)
    if not quick:
        ctx.extra.setdefault("exhaustive_domains", []).append(
            "call argument-kind patterns (positional/keyword/*/**) of length <= 3, plain and method calls: all %d"
            % (2 * sum(1 for n in range(4) for p in itertools.product("pskd", repeat=n) if valid_args(p))))
        ctx.extra["exhaustive_domains"].append(
            "C function calls: every (positional count, keyword permutation) without gap for the callees %s, "
            "each with all-non-simple arguments (compiled) and with every non-simple/simple pattern (front-end tie): %d shapes"
            % (", ".join(sorted(CC.CALLEES)), sum(len(list(CC.call_shapes(f))) for f in CC.CALLEES)))
    nrand = 75 if quick else 2000
    rnd = gen_random(ctx.rng, nrand // 3, 2) + gen_random(ctx.rng, nrand // 3, 3) + gen_random(ctx.rng, nrand - 2 * (nrand // 3), 4)
    prep = prepare_ccmap(ctx)
    # optimised builtin calls, builtin-type methods, inline C arguments: two-way statements in the same modules
    gbi = Gen(ctx.rng)
    bi = builtin_statements(gbi, quick)
    if quick:
        # one build phase (every compiler process pays the start-up of the compiler from .py sources)
        real = check_stmts(ctx, small + bi + rnd, "c20q", front_modules=prep["modules"])
    else:
        real = check_stmts(ctx, small + bi, "c20e", front_modules=prep["modules"])
        check_stmts(ctx, rnd, "c20r")
    judge_ccmap(ctx, prep, real)
    if os.environ.get("C20_DEBUG"):
        from collections import Counter
        print("FAIL CLASSES", Counter(f["class"] for f in ctx.prop_failures), file=sys.stderr)
        print("CORR PAIRS", Counter(b["pair"] for b in ctx.corr_breaks), file=sys.stderr)
        seen = set()
        for f in ctx.prop_failures:
            if f["class"] not in seen:
                seen.add(f["class"]); print("FAIL", f["class"], json.dumps(f["input"])[:400], "\n   obs", str(f["observed"])[:500], "\n   exp", str(f["expected"])[:500], file=sys.stderr)
        seen = set()
        for b in ctx.corr_breaks:
            if b["pair"] not in seen:
                seen.add(b["pair"]); print("CORR", b["pair"], json.dumps(b["input"])[:400], "\n   impl", str(b["impl"])[:600], "\n   model", str(b["model"])[:600], file=sys.stderr)


def replay(ctx, obj):
    def tup(x):
        return tuple(tup(y) for y in x) if isinstance(x, list) else x
    if "ast" not in obj["input"]:
        # front-end tie case ({"call": ...}) or builtin call ({"expr": ...}): compile the expression alone
        src = obj["input"].get("call") or obj["input"].get("expr")
        print("expression:", src)
        hdr = "# cython: language_level=3\nfrom c20rt import O, T, F, U, D, I, ev, LOG\n"
        body = "def c0(x, y, z):\n    return %s\n" % src
        os.makedirs(ctx.workdir, exist_ok=True)
        with open(os.path.join(ctx.workdir, "c20rt.py"), "w") as f:
            f.write(RUNTIME)
        with open(os.path.join(ctx.workdir, "c20rp_py.py"), "w") as f:
            f.write(hdr + CC.PRELUDE_PY + BI_PRELUDE_PY + body)
        try:
            cybuild.build("c20rp", hdr + CC.PRELUDE_CY + BI_PRELUDE_CY + body, ctx.workdir, cflags=["-O0"])
            res = run_all(ctx.workdir, [["c20rp_py", "c0"], ["c20rp", "c0"]])
            print("compiled :", res.get(("c20rp", "c0")))
            print("CPython  :", res.get(("c20rp_py", "c0")))
        except cybuild.BuildError as e:
            print("compiler :", str(e)[-600:])
        return
    s = tup(obj["input"]["ast"])
    # lists inside the AST (argument lists, operator lists) were tuples-of-lists originally: re-list them
    def fix(x):
        if isinstance(x, tuple) and x and isinstance(x[0], str):
            return tuple(fix(y) for y in x)
        if isinstance(x, tuple):
            return [fix(y) for y in x]
        return x
    s = fix(s)
    impl, orac = build_and_run(ctx.workdir, [s], tag="c20replay")
    print("statement:", r_stmt(s))
    print("compiled :", impl[0])
    print("CPython  :", orac[0])
