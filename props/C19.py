"""C19 - Comparisons and membership tests match CPython (DESIGN 7/C19)."""
import json, os, re
import cybuild

TITLE = "Comparisons and membership tests match CPython"
EXTRACTS = ["Cmp", "CmpInt", "CmpFloat", "CmpFold"]
RULE = ("five generators. (1) cascades of 1-4 comparison links whose operands are logging calls (Python "
        "objects, C int / C double calls, instrumented objects whose rich comparisons return objects with a "
        "logging/raising __bool__) over all ten comparison operators; (2) `in`/`not in` tests against tuple/"
        "list/set displays of 0-4 members (logging calls, names, attributes, literals, starred, unhashable) "
        "over a mixed-type value pool (1, 1.0, True, nan, str, bytes, tuples, []); (3) if/elif chains, "
        "boolean expressions and conditional expressions over C int / enum / Py_UCS4 / char subjects built "
        "from ==, !=, in/not in literal tuples and string literals, or/and, with overlapping and duplicate "
        "labels, executed on every subject value of a small range; (4) pairs of Python ints for the int-int "
        "branch of PyObjectCompare, enumerated from the branch structure of the helper: for every digit count "
        "(0..5 and 7 quick, up to 40 thorough), both signs and three base patterns (random / 1 0..0 / all digits "
        "maximal) every single digit position changed (+-1, to 0, to 2^30-1, random), two positions changed in "
        "opposite directions, sign flips, every pair of different digit counts at the adjacent values "
        "2^(30n)-1 | 2^(30n), zero, equal values held in distinct objects, one object passed twice, an all-"
        "pairs table of boundary values (2^30, 2^60, 2^63, 2^64 +-1 ...), each pair run through all six "
        "operators x {object result, C truth result} x operand typings {object, int}^2, plus 3-operand chains "
        "and `in`/`not in` 2-tuples, in two builds (PyLong internals on / off). Distinct by (source text of the "
        "function, input); non-trivial = at least one comparison is executed. (5) PyObjectCompare on an exact float "
        "and an exact int, both orders, plus float-float, in the same two builds; pairs by class: int sign x digit count "
        "0,1,2,3,4+ (min / max / random digits) against floats on both sides of every branch constant of the helper (0, "
        "+-2^30 = one digit, +-2^53 = exact-double range and the non-internals clamp, +-2^63 / 2^64 = long, 1e30, DBL_MAX, "
        "5e-324, +-inf, nan, +-0.0), boundary floats x boundary ints (2^e +- 0,1,2 and the neighbouring doubles, e in "
        "29..1024), every int against float(int) and its two neighbouring doubles, every float against int(float) +- 1, "
        "random pairs of nearby magnitude; six operators x typings (object/object, float/int, float/object, object/int, "
        "int/float, int/object, object/float) x {expression, if-statement}; three-way: compiled helper / extracted model of "
        "the build's variant / exact integer cross-multiplication (CPython's own operators must agree with the latter). "
        "(6) constant folding of chains (ConstantFolding.visit_PrimaryCmpNode): every pattern of link kinds {constant-"
        "true, constant-false, not constant}^n for n = 1..4 links (all 120 thorough; all of n <= 3 plus a sample of n = 4 "
        "quick), each realised with operands that are logging calls, names, literal constants (int, float, bool, str, "
        "bytes, None, tuples, (), list) or instrumented objects whose rich comparisons log, all ten operators, literal-"
        "literal links that raise at compile time (None < 1) or are not portable ('a' == b'a'), in return / if / not "
        "context, each function run on several value assignments (true, false and raising links, raising operands); "
        "compared four ways: folded node tree dumped after the real ConstantFolding pass vs the model's node list, "
        "compiled module vs the model's evaluation, compiled module vs CPython, model reference vs CPython (value, "
        "exception, log of operand evaluations and comparison calls)")
EXPLANATION = ("theorems: the temp-machine code emitted for e0 op1 e1 ... opn en equals the Python reference "
               "(value, exception and full event trace: operand evaluations, comparison calls, truth tests) for "
               "ALL cascades; FlattenInListTransform output evaluates like CPython's membership test for all "
               "tests (operand order included) under explicit oracle hypotheses; SwitchTransform: for ALL "
               "if/elif chains and boolean expressions the rewritten statement/expression executes the same "
               "branch with the same trace and its case labels are pairwise distinct (derived from "
               "has_duplicate_values). Each theorem is proved for the repaired variant and REFUTED for the code "
               "as it is where a finding applies. PyObjectCompare on two exact ints (__Pyx_PyObject_CompareIntInt<Op>, "
               "__Pyx_PyLong_CompareSignAndSize, the identity shortcut): for ALL operators, ALL pairs of well-formed "
               "CPython ints of any digit count and every configuration with cfg_ok the model of the C text returns "
               "the comparison of the values without signed overflow (by induction on the digit index), tied to the "
               "compiled helper on the enumerated pairs and to memory by reading lv_tag/ob_digit. "
               "__Pyx_PyObject_CompareFloatInt<Op> / CompareIntFloat<Op>: for EVERY double (nan, infinities, every finite "
               "dyadic rational), EVERY well-formed int and all six operators the model of the C text returns the exact order "
               "of the two values (= Qcompare of the rationals), with CYTHON_USE_PYLONG_INTERNALS on and off (LP64) and never "
               "converts an int to double inexactly; hence the variants agree. Refuted for a 32-bit long without internals "
               "(2.0**45 < 2**40 is True there: model only, not reproducible on this LP64 machine). partial: the other "
               "object comparison helpers (str, bytes, UnicodeEquals, UnicodeEqualsUCS4, dict/set/str "
               "containment) and C/Python coercions are differential only (compiled module vs CPython); user-defined __eq__ inside flattened `in` "
               "tests (operand orientation) is outside the model. Constant folding of comparison chains: for EVERY chain, "
               "every assignment of constant/non-constant operands, every semantics of the non-constant operands and every "
               "compile-time oracle that agrees with the run-time comparison of the constants, the folded chain (constant-true "
               "links dropped, cut at a constant-false link, partial cascades joined by and) has the same value, exception and "
               "observable trace as the unfolded chain when comparison results are True/False; the variant that drops the "
               "partial cascades left of a constant-false link is refuted; for arbitrary result objects the statement is "
               "refuted (two findings: untested result before a constant-true tail, double truth test).")
TRUSTED = ["CPython 3.12 executing the same (or the de-typed) source text as the property oracle",
           "leaf oracles of the model (==, is, hash, rich comparison results, truth values) are tabulated from "
           "CPython on the leaf values",
           "gcc as a conforming C compiler; a C switch with pairwise distinct labels jumps to the unique match",
           "tree dumps taken by a pipeline hook after FlattenInListTransform / SwitchTransform (pyload sources)",
           "CPython's own int comparison (long_richcompare) on the same values as the oracle of the int-int helper; "
           "PyLong_AsLongLongAndOverflow and PyObject_RichCompare are modelled by their documented contract",
           "float-int helpers: PyFloat_AS_DOUBLE / PyFloat_AsDouble of an exact float cannot fail (the !CYTHON_ASSUME_SAFE_MACROS "
           "error exit is not modelled); PyLong_AsLongAndOverflow and the final PyObject_RichCompare(float, int) by contract "
           "(CPython's float_richcompare is exact); C double comparisons are IEEE comparisons of the represented rationals"]
ASSUMPTIONS = ["flattened `in` tests compare built-in values: == is total, symmetric and reflexive on identical "
               "objects (NaN excluded: finding), comparisons have no side effects",
               "switch subjects are side-effect free C integers or evaluated once"]

# model variant flags: flip to "1" after the corresponding proposed fix is applied to /repo
FX = {"lhs_outer": os.environ.get("C19_FX_LHS", "1"),       # proposed_fixes/C19-flatten_lhs_evaluated_after_members
      "fix_and": os.environ.get("C19_FX_AND", "1"),         # proposed_fixes/C19-switch_and_of_eq_treated_as_or
      "chk_truth": os.environ.get("C19_FX_TRUTH", "1"),     # proposed_fixes/C19-cascade_truth_error_ignored
      "tail_fix": os.environ.get("C19_FX_TAIL", "0"),       # proposed_fixes/C19-constfold_true_tail_result_untested
      "emptydict_fix": os.environ.get("C19_FX_EDICT", "1")}  # proposed_fixes/C19-constfold_unhashable_in_empty_dict

# ------------------------------------------------------------------------------------------------
# tree dump worker (runs the real transforms; pipeline cut after SwitchTransform)
# ------------------------------------------------------------------------------------------------
TREEWORKER = r'''
import sys, json, os
import pyload; pyload.install()
from Cython.Compiler import Main, Pipeline, Options, Errors, ExprNodes, Nodes, UtilNodes, Optimize
from Cython.Compiler.Visitor import TreeVisitor
pyload.assert_sources()

def dump_expr(n, refs):
    E = ExprNodes
    if n is None:
        return None
    if isinstance(n, UtilNodes.EvalWithTempExprNode):
        rid = refs.setdefault(id(n.lazy_temp), len(refs))
        return ["let", rid, dump_expr(n.temp_expression, refs), dump_expr(n.subexpression, refs)]
    if isinstance(n, UtilNodes.ResultRefNode):
        if id(n) in refs:
            return ["ref", refs[id(n)]]
        return ["resultref"]
    if isinstance(n, UtilNodes.TempResultFromStatNode):
        return ["stat_expr", dump_stat(n.body, refs)]
    if isinstance(n, E.PrimaryCmpNode):
        if n.cascade is not None:
            return ["cascade"]
        return ["cmp", n.operator, dump_expr(n.operand1, refs), dump_expr(n.operand2, refs)]
    if isinstance(n, E.BoolBinopNode):
        return [n.operator, dump_expr(n.operand1, refs), dump_expr(n.operand2, refs)]
    if isinstance(n, E.BoolBinopResultNode):
        return ["co", dump_expr(n.arg, refs)]
    if isinstance(n, E.TypecastNode):
        return ["co", dump_expr(n.operand, refs)]
    if isinstance(n, E.CoercionNode):
        return ["co", dump_expr(n.arg, refs)]
    if isinstance(n, E.BoolNode):
        return ["bool", bool(n.value)]
    if isinstance(n, E.IntNode):
        return ["int", str(n.constant_result)]
    if isinstance(n, E.CharNode):
        cr = n.constant_result
        if isinstance(cr, (bytes, str)):
            return ["char", "bytes", ord(cr)]
        return ["char", "int", int(cr)]
    if isinstance(n, E.UnicodeNode):
        return ["ustr", str(n.value)]
    if isinstance(n, E.BytesNode):
        return ["bstr", n.value.decode('latin1') if isinstance(n.value, bytes) else str(n.value)]
    if isinstance(n, E.NameNode):
        return ["name", n.name]
    if isinstance(n, E.AttributeNode):
        return ["attr", dump_expr(n.obj, refs), n.attribute]
    if isinstance(n, E.SimpleCallNode):
        return ["call", dump_expr(n.function, refs)] + [dump_expr(a, refs) for a in (n.args or [])]
    if isinstance(n, E.PythonCapiCallNode):
        return ["capicall"]
    if isinstance(n, (E.TupleNode, E.ListNode, E.SetNode)):
        return [type(n).__name__] + [dump_expr(a, refs) for a in n.args]
    if isinstance(n, E.CondExprNode):
        return ["condexpr", dump_expr(n.condition, refs), dump_expr(n.true_val, refs), dump_expr(n.false_val, refs)]
    if isinstance(n, E.FloatNode):
        return ["float", str(n.value)]
    if isinstance(n, E.NoneNode):
        return ["none"]
    return ["?" + type(n).__name__]

def dump_stat(s, refs):
    N = Nodes
    if s is None:
        return None
    if isinstance(s, N.StatListNode):
        r = [dump_stat(x, refs) for x in s.stats]
        return r[0] if len(r) == 1 else ["block"] + r
    if isinstance(s, N.ReturnStatNode):
        return ["return", dump_expr(s.value, refs)]
    if isinstance(s, N.SingleAssignmentNode):
        return ["assign", dump_expr(s.lhs, refs), dump_expr(s.rhs, refs)]
    if isinstance(s, N.IfStatNode):
        return ["if", [[dump_expr(c.condition, refs), dump_stat(c.body, refs)] for c in s.if_clauses],
                dump_stat(s.else_clause, refs)]
    if isinstance(s, N.SwitchStatNode):
        return ["switch", dump_expr(s.test, refs),
                [[[dump_expr(c, refs) for c in case.conditions], dump_stat(case.body, refs)] for case in s.cases],
                dump_stat(s.else_clause, refs)]
    if isinstance(s, N.ExprStatNode):
        return ["expr", dump_expr(s.expr, refs)]
    return ["?" + type(s).__name__]

def cf_operand(n):
    E = ExprNodes
    if (isinstance(n, E.SimpleCallNode) and isinstance(n.function, E.NameNode) and len(n.args or []) >= 2
            and isinstance(n.args[1], E.IntNode)):
        return "c%s" % n.args[1].value
    if isinstance(n, E.NameNode):
        return "n" + str(n.name)
    return "@%d" % n.pos[2]

def cf_node(n):
    E = ExprNodes
    if isinstance(n, E.BoolBinopNode):
        return (cf_node(n.operand1) + cf_node(n.operand2)) if n.operator == 'and' else [["?or"]]
    if isinstance(n, E.BoolNode):
        return [["bool", bool(n.value)]]
    if isinstance(n, E.NotNode):
        return [["not", cf_node(n.operand)]]
    if isinstance(n, E.PrimaryCmpNode):
        links = []; c = n
        while c is not None:
            links.append([c.operator, cf_operand(c.operand2)]); c = c.cascade
        return [["casc", cf_operand(n.operand1), links]]
    return [["?" + type(n).__name__]]

class CFDumper(TreeVisitor):
    def __init__(self, out):
        TreeVisitor.__init__(self); self.out = out
    def visit_FuncDefNode(self, node):
        name = str(getattr(node, 'name', '?'))
        if name.startswith('t_cf'):
            st = node.body
            while isinstance(st, Nodes.StatListNode) and st.stats:
                st = st.stats[0]
            self.out[name] = cf_node(st.value) if isinstance(st, Nodes.ReturnStatNode) else [["?" + type(st).__name__]]
        return None
    def visit_Node(self, node):
        self.visitchildren(node)

class FuncDumper(TreeVisitor):
    def __init__(self, out):
        TreeVisitor.__init__(self); self.out = out
    def visit_FuncDefNode(self, node):
        name = node.entry.name if getattr(node, 'entry', None) else getattr(node, 'name', '?')
        if str(name).startswith('t_'):
            self.out[str(name)] = dump_stat(node.body, {})
        return None
    def visit_Node(self, node):
        self.visitchildren(node)

def run(source, path):
    Errors.init_thread()
    opts = Options.CompilationOptions(Options.default_options, language_level=3)
    ctx = Main.Context.from_options(opts)
    with open(path, 'w') as f:
        f.write(source)
    src = Main.CompilationSource(Main.FileSourceDescriptor(path, path),
                                 os.path.splitext(os.path.basename(path))[0], os.getcwd())
    result = Main.create_default_resultobj(src, opts)
    stages = Pipeline.create_pyx_pipeline(ctx, opts, result)
    out = {"flatten": {}, "switch": {}, "cf": {}}
    new = []
    for st in stages:
        new.append(st)
        if isinstance(st, Optimize.ConstantFolding) and os.path.basename(path).startswith("c19_cf"):
            def hook0(tree, out=out):
                CFDumper(out["cf"]).visit(tree); return tree
            new.append(hook0)
            break
        if isinstance(st, Optimize.FlattenInListTransform):
            def hook(tree, out=out):
                FuncDumper(out["flatten"]).visit(tree); return tree
            new.append(hook)
        if isinstance(st, Optimize.SwitchTransform):
            def hook2(tree, out=out):
                FuncDumper(out["switch"]).visit(tree); return tree
            new.append(hook2)
            break
    err, tree = Pipeline.run_pipeline(new, src)
    if err is not None:
        out["error"] = repr(err)[:2000]
    return out

spec = json.load(sys.stdin)
res = {}
for name, source in spec["sources"].items():
    res[name] = run(source, os.path.join(spec["dir"], name + "_tree.pyx"))
print(json.dumps(res))
'''

# ------------------------------------------------------------------------------------------------
# run-time driver: executes the cases against the compiled module (mode cy) or CPython (mode py)
# ------------------------------------------------------------------------------------------------
DRIVER = r'''
import sys, json, signal
spec = json.load(sys.stdin)
mode = spec["mode"]
nan = float("nan")
POOL = %(POOL)s
ns = {}
for modname, text in spec["modules"]:
    if mode == "cy":
        m = __import__(modname)
        ns[modname] = m.__dict__
    else:
        d = {"__name__": modname}
        exec(compile(text, modname + "_py", "exec"), d)
        ns[modname] = d

def enc(v, d):
    if isinstance(v, d["R"]):
        return ["R", v.rid]
    for i, p in enumerate(POOL):
        if v is p:
            return ["P", i]
    return ["V", type(v).__name__, repr(v)]

def encexc(e):
    return ["X", type(e).__name__, [a if isinstance(a, (int, str)) else repr(a) for a in e.args][:1]]

def mk(a, d, LOG):
    if isinstance(a, list):
        if a[0] == "p":
            return d["RAISE"] if a[1] < 0 else POOL[a[1]]
        if a[0] == "vals":
            return [mk(x, d, LOG) for x in a[1]]
        if a[0] == "P":
            return d["P"](LOG, [mk(x, d, LOG) for x in a[1]])
        if a[0] == "W":
            return d["W"](LOG, a[1], a[2])
        if a[0] == "B":
            return d["B"](LOG, a[1], a[2])
        if a[0] == "log":
            return LOG
        if a[0] == "raw":
            return a[1]
    return a

out = []
for modname, fn, args in spec["cases"]:
    d = ns[modname]
    LOG = []
    try:
        signal.alarm(10)
        r = d[fn](*[mk(a, d, LOG) for a in args])
        res = enc(r, d)
    except Exception as e:
        res = encexc(e)
    finally:
        signal.alarm(0)
    out.append([res, [list(x) if isinstance(x, tuple) else x for x in LOG]])
print(json.dumps(out))
'''

POOL_SRC = "[1, 1.0, True, 0, 0.0, False, 'a', b'a', None, nan, (1, 2), 2, 'ab', [], 257, -1, 1.5, 'b', (1, 2.0), 97, [1]]"
POOL_LIT = ["1", "1.0", "True", "0", "0.0", "False", "'a'", "b'a'", "None", None, "(1, 2)", "2", "'ab'", "[]",
            "257", "-1", "1.5", "'b'", "(1, 2.0)", "97", None]
ULIST_I = 20
nan = float("nan")
POOL = eval(POOL_SRC)
UNHASH = [i for i, v in enumerate(POOL) if isinstance(v, list)]
NAN_I = 9

PRELUDE = '''
RAISE = object()
def f(LOG, i, v):
    LOG.append(i)
    if v is RAISE:
        raise ValueError(i)
    return v
class P:
    def __init__(self, LOG, vals):
        self.__dict__['L'] = LOG
        self.__dict__['vals'] = vals
    def __getattr__(self, name):
        i = int(name[1:])
        self.L.append(i)
        v = self.vals[i]
        if v is RAISE:
            raise ValueError(i)
        return v
class R:
    def __init__(self, LOG, rid, t):
        self.L = LOG; self.rid = rid; self.t = t
    def __bool__(self):
        self.L.append(('t', self.rid))
        if self.t == 'x':
            raise KeyError(self.rid)
        return self.t == 't'
class W:
    def __init__(self, LOG, wid, res):
        self.L = LOG; self.wid = wid; self.res = res
    def _cmp(self, opn, other):
        self.L.append(('c', opn, self.wid, getattr(other, 'wid', -1)))
        if self.res is None:
            raise IndexError(self.wid)
        return R(self.L, self.res[0], self.res[1])
    def __lt__(self, o): return self._cmp(0, o)
    def __le__(self, o): return self._cmp(1, o)
    def __eq__(self, o): return self._cmp(2, o)
    def __ne__(self, o): return self._cmp(3, o)
    def __gt__(self, o): return self._cmp(4, o)
    def __ge__(self, o): return self._cmp(5, o)
    __hash__ = None
'''
CY_HELPERS = '''
cdef int ci(list LOG, int k, int v) except? -9:
    LOG.append(k)
    return v
cdef double cd(list LOG, int k, double v) except? -9.0:
    LOG.append(k)
    return v
cdef Py_UCS4 cu(list LOG, int k, Py_UCS4 v) except? 0xFFFF:
    LOG.append(k)
    return v
cdef bint bo(list LOG, int k, int v) except? -9:
    LOG.append(k)
    return v != 0
cdef enum Color:
    RED = 1
    GREEN = 2
    BLUE = 1
    PINK = 5
'''
PY_HELPERS = '''
def ci(LOG, k, v):
    LOG.append(k)
    return v
def cd(LOG, k, v):
    LOG.append(k)
    return float(v)
def cu(LOG, k, v):
    LOG.append(k)
    return v
def bo(LOG, k, v):
    LOG.append(k)
    return v != 0
RED = 1
GREEN = 2
BLUE = 1
PINK = 5
'''
OPS = ["<", "<=", "==", "!=", ">", ">=", "is", "is not", "in", "not in"]


def run_driver(ctx, mode, modules, cases, tag):
    spec = {"mode": mode, "modules": modules, "cases": cases}
    r = cybuild.run_script(DRIVER % {"POOL": POOL_SRC}, ctx.workdir, spec, timeout=900, name="drv_%s_%s.py" % (tag, mode))
    if r["json"] is None or len(r["json"]) != len(cases):
        raise RuntimeError("driver %s/%s failed rc=%s: %s" % (tag, mode, r["rc"], (r["err"] or r["out"])[-1500:]))
    return r["json"]


def run_both(ctx, mods_cy, mods_py, cases, tag):
    import concurrent.futures as cf
    with cf.ThreadPoolExecutor(max_workers=2) as ex:
        a = ex.submit(run_driver, ctx, "cy", mods_cy, cases, tag)
        b = ex.submit(run_driver, ctx, "py", mods_py, cases, tag)
        return a.result(), b.result()


def canon_res(res):
    """implementation/oracle result -> comparable tuple"""
    return tuple(json.loads(json.dumps(res), object_hook=None)) if not isinstance(res, list) else _tup(res)


def _tup(x):
    return tuple(_tup(y) for y in x) if isinstance(x, list) else x


# ------------------------------------------------------------------------------------------------
# part 2: FlattenInListTransform
# ------------------------------------------------------------------------------------------------
class InCase:
    """x in/not in container; members: dicts(kind=call|name|attr|lit|star|ulist, vi=pool index or -1 (raise))"""
    def __init__(self, name, neg, kind, lhs, members):
        self.name, self.neg, self.kind, self.lhs, self.members = name, neg, kind, lhs, members

    def expr_text(self, m, i):
        k = m["kind"]
        if k == "call":
            return "f(LOG, %d, vals[%d])" % (i, i)
        if k == "name":
            return "n%d" % i
        if k == "attr":
            return "o.a%d" % i
        if k == "lit":
            return POOL_LIT[m["vi"]]
        if k == "star":
            return "*vals[%d]" % i
        if k == "ulist":
            return "[n%d]" % i
        raise ValueError(k)

    def source(self):
        ms = [self.expr_text(m, i + 1) for i, m in enumerate(self.members)]
        if self.kind == "t":
            cont = "(" + ", ".join(ms) + ("," if len(ms) == 1 else "") + ")"
        elif self.kind == "l":
            cont = "[" + ", ".join(ms) + "]"
        else:
            cont = "{" + ", ".join(ms) + "}"
        return ("def %s(LOG, vals, o, n0, n1, n2, n3, n4):\n    return %s %s %s\n"
                % (self.name, self.expr_text(self.lhs, 0), "not in" if self.neg else "in", cont))

    def args(self):
        allm = [self.lhs] + self.members
        vals = [["p", m["vi"]] if m["kind"] != "star" else ["vals", [["p", m["vi"]]]] for m in allm]
        vals += [["p", 0]] * (5 - len(vals))
        names = []
        for m in (allm + [{"kind": "x", "vi": 0}] * 5)[:5]:
            names.append(["p", 0 if m["kind"] == "ulist" else m["vi"]])
        return [["log"], ["vals", vals], ["P", vals]] + names

    # model encoding
    @staticmethod
    def op_tok(m, i):
        simple = m["kind"] in ("name", "attr", "lit", "ulist")
        log = m["kind"] in ("call", "attr")
        res = ("x%d" % (100 + i)) if m["vi"] < 0 else ("v%d" % m["vi"])
        return simple, "%d:%d:%s" % (i, 1 if log else 0, res)

    def model_args(self):
        ls, lt = self.op_tok(self.lhs, 0)
        ms = []
        for i, m in enumerate(self.members):
            s, t = self.op_tok(m, i + 1)
            ms.append("%d,%d,%d,%s" % (s, m["kind"] == "star", m["kind"] == "ulist", t))
        used = sorted({m["vi"] for m in [self.lhs] + self.members if m["vi"] >= 0})
        same = ";".join("%d,%d" % (a, a) for a in used) or "-"
        eq = ";".join("%d,%d" % (a, b) for a in used for b in used if _eq(POOL[a], POOL[b])) or "-"
        uh = ";".join(str(a) for a in used if a in UNHASH) or "-"
        return "%d %s %d %s %s %s %s %s" % (self.neg, lt, ls, self.kind, ";".join(ms) or "-", same, eq, uh)

    def classify(self, order_only):
        """finding class of a disagreement with CPython, from the input alone (first match).
        order_only: the model with the left operand's temp outermost agrees with the reference on this
        input, i.e. the only defect that matters here is the evaluation order (F25)"""
        ms = self.members
        if not ms and self.lhs["kind"] == "attr":
            return "flatten_simple_member_evaluated_lazily"
        if order_only and FX["lhs_outer"] != "1" and any(m["kind"] in ("call", "ulist") for m in ms):
            return "flatten_lhs_evaluated_after_members"
        if any(m["kind"] in ("star",) for m in ms) or not ms:
            return "in_literal_wrong_result"
        if self.kind == "s" and any(m["kind"] == "ulist" for m in ms):
            return "in_literal_wrong_result"
        vis = [m["vi"] for m in [self.lhs] + ms]
        if self.kind == "s" and any(v in UNHASH for v in vis):
            return "in_set_literal_never_hashed"
        if self.lhs["vi"] == NAN_I and any(m["vi"] == NAN_I for m in ms):
            return "in_literal_identity_shortcut_lost"
        if any(m["kind"] == "attr" or (m["kind"] == "name" and m["vi"] < 0) for m in ms):
            return "flatten_simple_member_evaluated_lazily"
        if FX["lhs_outer"] != "1" and any(m["kind"] == "call" for m in ms):
            return "flatten_lhs_evaluated_after_members"
        return "in_literal_wrong_result"


def _eq(a, b):
    try:
        return bool(a == b)
    except Exception:
        return False


def gen_in_cases(rng, n, prefix):
    cases = []
    groups = [[0, 1, 2, 19], [3, 4, 5], [6, 7, 17, 12], [8, 9], [10, 18, 13], [11, 14, 15, 16]]
    for k in range(n):
        neg = rng.random() < 0.4
        kind = rng.choice("ttls")
        g = rng.choice(groups) + rng.choice(groups)
        def pick(allow_raise=True):
            if allow_raise and rng.random() < 0.07:
                return -1
            return rng.choice(g) if rng.random() < 0.8 else rng.randrange(len(POOL))
        lk = rng.choice(["call", "call", "call", "name", "attr"])
        lhs = {"kind": lk, "vi": pick(lk != "name")}
        nm = rng.choice([0, 1, 2, 2, 3, 3, 4])
        if nm == 0 and kind == "s":
            kind = "t"          # {} is a dict display
        members = []
        for i in range(nm):
            mk = rng.choice(["call", "call", "call", "name", "lit", "lit", "attr"] + (["star", "ulist"] if rng.random() < 0.1 else []))
            vi = pick(mk in ("call", "attr"))
            if mk == "lit" and (vi < 0 or POOL_LIT[vi] is None or (kind == "s" and vi in UNHASH)):
                vi = rng.choice([0, 1, 2, 6, 11])
            if mk == "lit" and vi in UNHASH:
                mk = "name"
            if mk == "star" and vi < 0:
                vi = 0
            if mk == "ulist":
                vi = ULIST_I        # the display [n_i] with n_i = 1
            members.append({"kind": mk, "vi": vi})
        cases.append(InCase("t_%s%d" % (prefix, k), neg, kind, lhs, members))
    # directed cases: F25 shape, duplicates, mixed types, nan identity, unhashable in set, lazy attribute
    def C(kind, vi):
        return {"kind": kind, "vi": vi}
    directed = [
        (False, "t", C("call", 0), [C("call", 11), C("call", 14), C("call", 0)]),
        (True, "t", C("call", 0), [C("call", 11), C("call", 14), C("call", 0)]),
        (False, "l", C("call", 0), [C("lit", 1), C("lit", 0), C("lit", 2), C("lit", 0)]),
        (False, "t", C("call", 2), [C("lit", 1), C("lit", 6)]),
        (False, "s", C("call", 1), [C("lit", 0), C("lit", 2), C("call", 1)]),
        (False, "t", C("call", NAN_I), [C("name", NAN_I), C("lit", 0)]),
        (True, "l", C("call", NAN_I), [C("call", NAN_I)]),
        (False, "s", C("call", 13), [C("lit", 0), C("lit", 11)]),
        (False, "s", C("call", 0), [C("name", 13), C("lit", 11)]),
        (False, "t", C("call", 0), [C("attr", 0), C("attr", 11)]),
        (False, "t", C("call", 0), [C("lit", 0), C("attr", -1)]),
        (False, "t", C("call", -1), [C("call", 0)]),
        (False, "t", C("call", 0), [C("call", -1), C("call", 0)]),
        (False, "t", C("name", 0), []),
        (True, "t", C("call", 0), []),
        (False, "t", C("call", 0), [C("star", 0), C("lit", 0)]),
        (False, "s", C("call", 0), [C("ulist", ULIST_I), C("lit", 0)]),
        (False, "t", C("call", ULIST_I), [C("ulist", ULIST_I), C("call", 0)]),
        (False, "t", C("call", 10), [C("lit", 18), C("call", 10)]),
        (False, "t", C("call", 7), [C("lit", 6), C("lit", 19)]),
    ]
    for j, (neg, kind, lhs, ms) in enumerate(directed):
        cases.append(InCase("t_%sd%d" % (prefix, j), neg, kind, lhs, ms))
    return cases


def render_flat(dump, case):
    """real tree (after FlattenInListTransform) -> the model's structure string"""
    if dump[0] != "return":
        return "?" + json.dumps(dump)[:80]
    ids = [m_i + 1 for m_i in range(len(case.members))]
    state = {"k": 0, "refs": {}}

    def opid(n):
        if n[0] == "call" and n[1] == ["name", "f"]:
            return int(n[3][1])
        if n[0] == "name" and re.fullmatch(r"n\d", n[1]):
            return int(n[1][1:])
        if n[0] == "attr" and re.fullmatch(r"a\d", n[2]):
            return int(n[2][1:])
        return None

    def atom(n, pos):
        if n[0] == "ref":
            return "ref(%s)" % state["refs"].get(n[1], "?")
        i = opid(n)
        if i is None:
            i = pos
        return "inl(%s)" % i

    def rf(n):
        if n[0] == "let":
            i = opid(n[2])
            state["refs"][n[1]] = i
            return "let(%s,%s)" % (i, rf(n[3]))
        if n[0] in ("or", "and"):
            return "%s(%s,%s)" % (n[0], rf(n[1]), rf(n[2]))
        if n[0] == "co":
            return rf(n[1])
        if n[0] == "bool":
            return "true" if n[1] else "false"
        if n[0] == "cmp" and n[1] in ("==", "!="):
            pos = ids[state["k"]] if state["k"] < len(ids) else "?"
            state["k"] += 1
            return "%s(%s,%s)" % ("eq" if n[1] == "==" else "ne", atom(n[2], 0), atom(n[3], pos))
        if n[0] == "cmp" and n[1] in ("in", "not_in"):
            return "generic"
        return "?" + n[0]
    return rf(dump[1])


def part_flatten(ctx, model, quick):
    n = 60 if quick else 400
    cases = gen_in_cases(ctx.rng, n, "i")
    src = "# cython: language_level=3\n" + PRELUDE + "\n".join(c.source() for c in cases)
    return cases, src


def check_flatten(ctx, model, cases, trees, cy, py):
    fl = trees.get("flatten", {})
    q = []
    for c in cases:
        a = c.model_args()
        q += ["flat struct %s %s" % (FX["lhs_outer"], a), "flat run %s %s" % (FX["lhs_outer"], a),
              "flat ref %s %s" % (FX["lhs_outer"], a), "flat run 1 %s" % a]
    mres = model.batch(q)
    for i, c in enumerate(cases):
        mstruct, mrun, mref, mrun_fixed = mres[4 * i:4 * i + 4]
        inp = {"part": "in_literal", "func": c.name, "source": c.source(), "args": c.args()}
        nm = sum(1 for m in c.members if m["kind"] == "call")
        ctx.case("in/%s/%s/%d-members/%d-temps" % ("not_in" if c.neg else "in", c.kind, len(c.members), nm), inp,
                 sig=(c.source(), json.dumps(c.args())))
        # structural tie
        real = render_flat(fl[c.name], c) if c.name in fl else "?missing"
        if real != mstruct:
            ctx.corr_break("flatten:structure", inp, real, mstruct)
        # behaviour: implementation vs model vs CPython
        got = flat_obs(cy[c.name])
        exp = flat_obs(py[c.name])
        if got != mrun:
            ctx.corr_break("flatten:run", inp, got, mrun)
        if exp != mref:
            # the model of CPython disagrees with CPython: the tie of the reference is broken
            ctx.corr_break("flatten:reference-model", inp, exp, mref)
        if got != exp:
            # a known class only explains a failure that the model of the code as it is predicts
            klass = c.classify(mrun_fixed == mref) if got == mrun else "in_literal_wrong_result"
            ctx.fail(klass, inp, got, exp, note="model(as is)=%s model(CPython)=%s" % (mrun, mref))


def flat_obs(r):
    res, log = r
    tr = ",".join("o%d" % e for e in log) or "-"
    if res[0] == "P":
        v = POOL[res[1]]
        out = "B1" if v is True else ("B0" if v is False else "?%r" % (v,))
    elif res[0] == "X":
        if res[1] == "ValueError":
            out = "X%d" % (100 + int(res[2][0]))
        elif res[1] == "TypeError":
            out = "X900"
        else:
            out = "?" + res[1]
    else:
        out = "?" + json.dumps(res)
    return "%s | %s" % (tr, out)


# ------------------------------------------------------------------------------------------------
# part 3: SwitchTransform
# ------------------------------------------------------------------------------------------------
VARS = {"x": (1, "i"), "y": (2, "i"), "o": (3, "o"), "c": (4, "i"), "b": (5, "i"), "e": (6, "e"), "d": (7, "c")}
ENUMS = {"RED": (11, 1), "GREEN": (12, 2), "BLUE": (13, 1), "PINK": (14, 5)}
CHARS = "abcdz"


class Cond:
    """cy: Cython text, py: Python text, tok: model tokens (list), subj: set of variables read"""
    def __init__(self, cy, py, tok):
        self.cy, self.py, self.tok = cy, py, tok


def vtok(v):
    return "V%d:0:%s" % VARS[v]


def ltok(val, ty="i"):
    return "Li%d:%d:%s" % (val, val, ty)


def gen_atom(rng, st):
    """one comparison-like condition; st carries the counter of logging calls"""
    r = rng.random()
    v = rng.choice(["x"] * 6 + ["y", "e"])
    if r < 0.30:
        L = rng.randrange(0, 7)
        op = rng.choice(["==", "==", "==", "!="])
        t = "e" if op == "==" else "n"
        if rng.random() < 0.2:
            return Cond("%d %s %s" % (L, op, v), "%d %s %s" % (L, op, v), ["cmp", t, "0", ltok(L), vtok(v)])
        return Cond("%s %s %d" % (v, op, L), "%s %s %d" % (v, op, L), ["cmp", t, "0", vtok(v), ltok(L)])
    if r < 0.40:
        en = rng.choice(sorted(ENUMS))
        nid, val = ENUMS[en]
        op = rng.choice(["==", "==", "!="])
        return Cond("%s %s %s" % (v, op, en), "%s %s %s" % (v, op, en),
                    ["cmp", "e" if op == "==" else "n", "0", vtok(v), "K%d:i%d:%d:e" % (nid, val, val)])
    if r < 0.60:
        k = rng.choice([1, 2, 2, 3])
        Ls = [rng.randrange(0, 7) for _ in range(k)]
        neg = rng.random() < 0.25
        br = rng.choice(["()", "[]", "{}"])
        txt = "%s %s %s%s%s%s" % (v, "not in" if neg else "in", br[0], ", ".join(map(str, Ls)),
                                  "," if (k == 1 and br == "()") else "", br[1])
        toks = []
        for i, L in enumerate(Ls):
            toks.append(["cmp", "n" if neg else "e", "0", vtok(v), ltok(L)])
        acc = toks[0]
        for t in toks[1:]:
            acc = ["and" if neg else "or"] + acc + t
        return Cond(txt, txt, ["wrap"] + acc)
    if r < 0.72:
        s = "".join(rng.choice(CHARS) for _ in range(rng.choice([0, 1, 2, 3, 4])))
        neg = rng.random() < 0.25
        if rng.random() < 0.6:
            if rng.random() < 0.25:
                st["k"] += 1
                k = st["k"]
                cy = "cu(LOG, %d, c) %s %r" % (k, "not in" if neg else "in", s)
                st["envo"][k] = "c"
                return Cond(cy, cy, ["instr", str(int(neg)), "0", "O%d:i" % k, ",".join(str(ord(ch)) for ch in s) or "-"])
            cy = "c %s %r" % ("not in" if neg else "in", s)
            return Cond(cy, cy, ["instr", str(int(neg)), "0", vtok("c"), ",".join(str(ord(ch)) for ch in s) or "-"])
        cy = "b %s b%r" % ("not in" if neg else "in", s)
        return Cond(cy, cy, ["instr", str(int(neg)), "1", vtok("b"), ",".join(str(ord(ch)) for ch in s) or "-"])
    if r < 0.80:
        L = rng.randrange(0, 7)
        return Cond("%s < %d" % (v, L), "%s < %d" % (v, L), ["cmp", "o", "0", vtok(v), ltok(L)])
    if r < 0.86:
        L = rng.randrange(0, 7)
        return Cond("o == %d" % L, "o == %d" % L, ["cmp", "e", "0", vtok("o"), ltok(L, "o")])
    if r < 0.90:
        L = rng.randrange(0, 7)
        return Cond("d == %d" % L, "d == %d" % L, ["cmp", "e", "0", vtok("d"), ltok(L, "c")])
    if r < 0.95:
        st["k"] += 1
        k = st["k"]
        L = rng.randrange(0, 7)
        st["envo"][k] = "x"
        return Cond("ci(LOG, %d, x) == %d" % (k, L), "ci(LOG, %d, x) == %d" % (k, L),
                    ["cmp", "e", "0", "O%d:i" % k, ltok(L)])
    st["k"] += 1
    k = st["k"]
    st["envb"][k] = "y"
    return Cond("bo(LOG, %d, y)" % k, "bo(LOG, %d, y)" % k, ["other", str(k)])


def gen_cond(rng, st, depth=0):
    r = rng.random()
    if depth < 2 and r < 0.35:
        a, b = gen_cond(rng, st, depth + 1), gen_cond(rng, st, depth + 1)
        op = rng.choice(["or", "or", "and"])
        return Cond("(%s %s %s)" % (a.cy, op, b.cy), "(%s %s %s)" % (a.py, op, b.py), [op] + a.tok + b.tok)
    return gen_atom(rng, st)


class SwCase:
    def __init__(self, name, kind, clauses, els, st):
        self.name, self.kind, self.clauses, self.els, self.st = name, kind, clauses, els, st

    def text(self, cy):
        head = ("def %s(LOG, int x, int y, o, Py_UCS4 c, char b, Color e, double d):\n" if cy
                else "def %s(LOG, x, y, o, c, b, e, d):\n") % self.name
        g = (lambda c: c.cy) if cy else (lambda c: c.py)
        if self.kind == "if":
            L = []
            for i, (c, body) in enumerate(self.clauses):
                L.append("    %s %s:\n        return %d\n" % ("if" if i == 0 else "elif", g(c), body))
            if self.els is not None:
                L.append("    else:\n        return %d\n" % self.els)
            L.append("    return -1\n")
            return head + "".join(L)
        if self.kind == "expr":
            return head + "    return %s\n" % g(self.clauses[0][0])
        return head + "    return 7 if %s else 8\n" % g(self.clauses[0][0])

    def model_cmd(self, which=None, env=None):
        toks = []
        if self.kind == "if":
            for c, body in self.clauses:
                toks += ["clause", str(body)] + c.tok
            els = "-" if self.els is None else str(self.els)
            if which is None:
                return "ifs %s %s %s" % (FX["fix_and"], els, " ".join(toks))
            return "runif %s %s %s %s %s" % (which, FX["fix_and"], env, els, " ".join(toks))
        toks = self.clauses[0][0].tok
        if which is None:
            return "expr %s %s" % (FX["fix_and"], " ".join(toks))
        return "runexpr %s %s %s %s" % (which, FX["fix_and"], env, " ".join(toks))

    def has_and_eq(self):
        return " and " in self.text(True)


def gen_sw_cases(rng, n, prefix):
    cases = []
    for k in range(n):
        st = {"k": 0, "envo": {}, "envb": {}}
        kind = rng.choice(["if", "if", "if", "expr", "condexpr"])
        if kind == "if":
            nc = rng.choice([1, 2, 2, 3, 3, 4])
            # most chains are switchable: same subject, simple atoms
            if rng.random() < 0.6:
                clauses = []
                for i in range(nc):
                    c = gen_switchable(rng, st)
                    clauses.append((c, 100 + i))
            else:
                clauses = [(gen_cond(rng, st), 100 + i) for i in range(nc)]
            els = 199 if rng.random() < 0.6 else None
        else:
            clauses = [((gen_switchable(rng, st, expr=True) if rng.random() < 0.5 else gen_cond(rng, st)), 0)]
            els = None
        cases.append(SwCase("t_%s%d" % (prefix, k), kind, clauses, els, st))
    return cases


def directed_sw_cases(prefix):
    def st():
        return {"k": 0, "envo": {}, "envb": {}}
    def cmpx(L, op="==", v="x"):
        return Cond("%s %s %d" % (v, op, L), "%s %s %d" % (v, op, L), ["cmp", "e" if op == "==" else "n", "0", vtok(v), ltok(L)])
    def en(name, op="==", v="x"):
        nid, val = ENUMS[name]
        return Cond("%s %s %s" % (v, op, name), "%s %s %s" % (v, op, name),
                    ["cmp", "e" if op == "==" else "n", "0", vtok(v), "K%d:i%d:%d:e" % (nid, val, val)])
    def J(op, a, b, par=False):
        f = "(%s %s %s)" if par else "%s %s %s"
        return Cond(f % (a.cy, op, b.cy), f % (a.py, op, b.py), [op] + a.tok + b.tok)
    def instr(v, s, neg=False, isb=False, call=None, stt=None):
        lit = ("b%r" % s) if isb else repr(s)
        subj, tok = v, vtok(v)
        if call:
            stt["k"] += 1
            subj, tok = "cu(LOG, %d, c)" % stt["k"], "O%d:i" % stt["k"]
            stt["envo"][stt["k"]] = "c"
        t = "%s %s %s" % (subj, "not in" if neg else "in", lit)
        return Cond(t, t, ["instr", str(int(neg)), str(int(isb)), tok, ",".join(str(ord(ch)) for ch in s) or "-"])
    out = []
    def add(kind, clauses, els=None, stt=None):
        out.append(SwCase("t_%s%d" % (prefix, len(out)), kind, clauses, els, stt or st()))
    a12 = J("and", cmpx(1), cmpx(2))
    add("expr", [(a12, 0)])
    add("condexpr", [(a12, 0)])
    add("if", [(a12, 100)], 199)
    add("if", [(cmpx(3), 100), (J("and", cmpx(1), cmpx(1)), 101)], 199)
    add("expr", [(J("and", J("or", cmpx(1), cmpx(2), True), J("or", cmpx(3), cmpx(4), True)), 0)])
    add("expr", [(J("and", cmpx(1, "!="), J("and", cmpx(2, "!="), cmpx(3, "!="))), 0)])
    add("expr", [(J("and", cmpx(1, "!="), cmpx(2)), 0)])
    add("expr", [(J("or", cmpx(1, "!="), cmpx(2, "!=")), 0)])
    add("expr", [(J("and", cmpx(1), J("and", cmpx(2), cmpx(3))), 0)])
    add("expr", [(J("and", instr("c", "ab"), instr("c", "bz")), 0)])
    add("expr", [(J("and", instr("c", "ab", True), instr("c", "bz", True)), 0)])
    add("expr", [(J("and", instr("c", "ab", True), instr("c", "bz")), 0)])
    add("if", [(instr("c", "ab"), 100), (instr("c", "zd"), 101)], 199)
    add("if", [(instr("c", "ab"), 100), (instr("c", "bz"), 101)], 199)
    add("if", [(instr("b", "ab", isb=True), 100), (instr("b", "zd", isb=True), 101)], None)
    add("if", [(instr("b", "abz", True, isb=True), 100)], 199)
    s1 = st()
    add("if", [(instr("c", "ab", call=True, stt=s1), 100)], 199, s1)
    s2 = st()
    add("if", [(instr("c", "ab", call=True, stt=s2), 100), (instr("c", "zd", call=True, stt=s2), 101)], 199, s2)
    s3 = st()
    add("expr", [(instr("c", "abz", True, call=True, stt=s3), 0)], None, s3)
    add("if", [(en("RED"), 100), (en("BLUE"), 101)], 199)
    add("if", [(en("RED"), 100), (en("GREEN"), 101), (cmpx(5), 102)], None)
    add("if", [(en("RED"), 100), (en("GREEN"), 101), (en("PINK"), 102), (cmpx(5), 103)], 199)
    add("if", [(en("RED", v="e"), 100), (en("GREEN", v="e"), 101)], 199)
    add("expr", [(J("or", en("RED", v="e"), en("PINK", v="e")), 0)])
    add("if", [(cmpx(1), 100), (cmpx(2, v="y"), 101)], 199)
    add("if", [(cmpx(1), 100), (cmpx(1), 101)], 199)
    add("if", [(cmpx(1), 100)], 199)
    add("if", [(J("or", cmpx(1), cmpx(2)), 100)], None)
    return out


def gen_switchable(rng, st, expr=False):
    """or-chains of == / in on x (mostly), sometimes and-chains of != or == (expression level)"""
    r = rng.random()
    mk = lambda L, op="==": Cond("x %s %d" % (op, L), "x %s %d" % (op, L), ["cmp", "e" if op == "==" else "n", "0", vtok("x"), ltok(L)])
    if r < 0.3:
        return mk(rng.randrange(0, 8))
    if r < 0.55 or not expr:
        parts = [mk(rng.randrange(0, 8)) for _ in range(rng.choice([2, 2, 3]))]
        if rng.random() < 0.4:
            Ls = [rng.randrange(0, 8) for _ in range(2)]
            toks = [["cmp", "e", "0", vtok("x"), ltok(L)] for L in Ls]
            parts.append(Cond("x in (%d, %d)" % tuple(Ls), "x in (%d, %d)" % tuple(Ls), ["wrap", "or"] + toks[0] + toks[1]))
        if rng.random() < 0.2:
            en = rng.choice(sorted(ENUMS)); nid, val = ENUMS[en]
            parts.append(Cond("x == %s" % en, "x == %s" % en, ["cmp", "e", "0", vtok("x"), "K%d:i%d:%d:e" % (nid, val, val)]))
        acc = parts[-1]
        for p in reversed(parts[:-1]):      # the parser nests `a or b or c` as or(a, or(b, c))
            acc = Cond("%s or %s" % (p.cy, acc.cy), "%s or %s" % (p.py, acc.py), ["or"] + p.tok + acc.tok)
        return acc
    op = rng.choice(["!=", "!=", "=="])
    parts = [mk(rng.randrange(0, 8), op) for _ in range(rng.choice([2, 3]))]
    if rng.random() < 0.3:
        parts.append(mk(rng.randrange(0, 8), rng.choice(["==", "!="])))
    acc = parts[-1]
    for p in reversed(parts[:-1]):
        acc = Cond("%s and %s" % (p.cy, acc.cy), "%s and %s" % (p.py, acc.py), ["and"] + p.tok + acc.tok)
    return acc


def render_switch(dump, case):
    """real tree (after SwitchTransform) -> the model's structure string"""
    refs = {}

    def strip(n):
        while n and n[0] in ("co",):
            n = n[1]
        return n

    def sop(n):
        n = strip(n)
        if n[0] == "ref":
            return sop(refs.get(n[1], ["?"]))
        if n[0] == "name":
            if n[1] in VARS:
                return "V%d" % VARS[n[1]][0]
            if n[1] in ENUMS:
                return "K%d" % ENUMS[n[1]][0]
        if n[0] == "int":
            return "Li%s=%s" % (n[1], n[1])
        if n[0] == "float":
            return "Li%d=%d" % (int(float(n[1])), int(float(n[1])))
        if n[0] == "call" and n[1][0] == "name" and n[1][1] in ("ci", "cu"):
            return "O%s" % strip(n[3])[1]
        return "?" + json.dumps(n)[:60]

    def lab(n):
        n = strip(n)
        if n[0] == "int":
            return "i%s=%s" % (n[1], n[1])
        if n[0] == "char":
            return ("c%d=%d" if n[1] == "bytes" else "i%d=%d") % (n[2], n[2])
        if n[0] == "name" and n[1] in ENUMS:
            return "i%d=%d" % (ENUMS[n[1]][1], ENUMS[n[1]][1])
        return "?" + json.dumps(n)[:60]

    def cond(n):
        n = strip(n)
        if n[0] == "let":
            refs[n[1]] = n[2]
            return cond(n[3])
        if n[0] in ("or", "and"):
            return "%s(%s,%s)" % (n[0], cond(n[1]), cond(n[2]))
        if n[0] == "cmp":
            if n[1] in ("in", "not_in"):
                return "%s(%s)" % ("instr" if n[1] == "in" else "notinstr", sop(n[2]))
            return "%s(%s,%s)" % ({"==": "eq", "!=": "ne"}.get(n[1], "lt"), sop(n[2]), sop(n[3]))
        if n[0] == "call" and n[1] == ["name", "bo"]:
            return "other(%s)" % strip(n[3])[1]
        if n[0] == "stat_expr":
            sw = n[1]
            if sw[0] != "switch" or len(sw[2]) != 1:
                return "?stat_expr"
            labels, body = sw[2][0]
            tv = strip(body[2])
            ni = (tv == ["bool", False]) or (tv == ["int", "8"])
            return "sw(%d;%s;%s)" % (ni, sop(sw[1]), ",".join(lab(l) for l in labels))
        if n[0] == "condexpr":
            return cond(n[1])
        return "?" + json.dumps(n)[:60]

    def body_id(s):
        if s is None:
            return "-"
        if s[0] == "return":
            return strip(s[1])[1]
        return "?"

    if case.kind == "if":
        s = dump[1] if dump[0] == "block" else dump
        if s[0] == "switch":
            return "switch(%s;%s;else:%s)" % (sop(s[1]), ";".join("%s:%s" % (",".join(lab(l) for l in ls), body_id(b))
                                                                      for ls, b in s[2]), body_id(s[3]))
        if s[0] == "if":
            return "if(%s;else:%s)" % (";".join("%s:%s" % (cond(c), body_id(b)) for c, b in s[1]), body_id(s[2]))
        return "?" + s[0]
    if dump[0] != "return":
        return "?" + dump[0]
    return cond(dump[1])


def sw_inputs(case, quick):
    xs = list(range(-1, 9))
    ys = [0, 3]
    cs = "abz"
    out = []
    txt = case.text(True)
    use_y = " y" in txt or "(y" in txt or ", y" in txt
    use_c = " c " in txt or "(c " in txt or ", c)" in txt
    use_b = " b " in txt or "(b " in txt
    for x in xs:
        for y in (ys if use_y else [0]):
            for c in (cs if (use_c or use_b) else "a"):
                out.append(dict(x=x, y=y, o=x, c=c, b=ord(c), e=(x if x in (1, 2, 5) else 1), d=float(x)))
    if " e " in txt or "(e " in txt:
        for ev in (1, 2, 5):
            out.append(dict(x=0, y=0, o=0, c="a", b=97, e=ev, d=0.0))
    return out


def sw_env(case, a):
    ev = "1=%d;2=%d;3=%d;4=%d;5=%d;6=%d;7=%d" % (a["x"], a["y"], a["o"], ord(a["c"]), a["b"], a["e"], int(a["d"]))
    val = lambda v: ord(a[v]) if v == "c" else int(a[v])
    eo = ";".join("%d=%d" % (k, val(v)) for k, v in sorted(case.st["envo"].items())) or "-"
    eb = ";".join("%d=%d" % (k, val(v)) for k, v in sorted(case.st["envb"].items())) or "-"
    return "%s %s %s" % (ev, eo, eb)


def sw_obs(r, case):
    res, log = r
    tr = ",".join("o%d" % e for e in log) or "-"
    if res[0] == "P":
        v = POOL[res[1]]
        if case.kind == "expr":
            out = "1" if v is True else ("0" if v is False else "?%r" % (v,))
        else:
            out = str(v)
    elif res[0] == "V" and res[1] == "int":
        out = res[2]
    else:
        out = "?" + json.dumps(res)
    if case.kind == "condexpr":
        out = {"7": "1", "8": "0"}.get(out, out)
    if case.kind == "if" and out == "-1":
        out = "-"
    return "%s | %s" % (tr, out)


def check_switch(ctx, model, cases, trees, cyres, pyres, inputs):
    sw = trees.get("switch", {})
    mstruct = model.batch([c.model_cmd() for c in cases])
    q = []
    for c in cases:
        for a in inputs[c.name]:
            env = sw_env(c, a)
            q += [c.model_cmd("xf", env), c.model_cmd("orig", env)]
    mrun = model.batch(q)
    qi = 0
    ri = 0
    for c, ms in zip(cases, mstruct):
        mstr, mvalid = [s.strip() for s in ms.rsplit("|", 1)] if "|" in ms else (ms, "?")
        real = render_switch(sw[c.name], c) if c.name in sw else "?missing"
        inp0 = {"part": "switch", "func": c.name, "source": c.text(True)}
        accepted = mstr.startswith("switch(") or "sw(" in mstr
        stratum = "switch/%s/%s" % (c.kind, "accepted" if accepted else "declined")
        if real != mstr:
            ctx.corr_break("switch:structure", inp0, real, mstr)
        if mvalid != "1":
            # the model says the generated C switch has duplicate case labels (gcc rejects it)
            ctx.fail("switch_duplicate_case_labels", inp0, mstr, "pairwise distinct labels")
        for a in inputs[c.name]:
            got = sw_obs(cyres[ri], c)
            exp = sw_obs(pyres[ri], c)
            ri += 1
            mx, mo = mrun[qi], mrun[qi + 1]
            qi += 2
            inp = dict(inp0, args=a)
            ctx.case(stratum, inp, sig=(c.text(True), json.dumps(a, sort_keys=True)))
            if got != mx:
                ctx.corr_break("switch:run", inp, got, mx)
            if exp != mo:
                ctx.corr_break("switch:reference-model", inp, exp, mo)
            if got != exp:
                klass = ("switch_and_of_eq_treated_as_or" if (FX["fix_and"] != "1" and c.has_and_eq() and got == mx)
                         else "switch_wrong_branch")
                ctx.fail(klass, inp, got, exp, note="model(as is)=%s model(original)=%s structure=%s" % (mx, mo, mstr))


# ------------------------------------------------------------------------------------------------
# part 1: cascades
# ------------------------------------------------------------------------------------------------
class CascCase:
    """flavour obj: operands f(LOG,i,vals[i]) over the pool; flavour c: C typed calls mixed in;
       flavour w: instrumented objects (comparison and truth events are logged)"""
    def __init__(self, name, flavour, operands, ops, wspec=None):
        self.name, self.flavour, self.operands, self.ops, self.wspec = name, flavour, operands, ops, wspec

    def text(self, cy):
        parts = []
        for i, o in enumerate(self.operands):
            if o["kind"] == "f" or not cy and False:
                parts.append("f(LOG, %d, vals[%d])" % (i, i))
            elif o["kind"] in ("ci", "cd"):
                parts.append("%s(LOG, %d, vals[%d])" % (o["kind"], i, i))
            elif o["kind"] == "lit":
                parts.append(POOL_LIT[o["vi"]])
        e = parts[0]
        for op, p in zip(self.ops, parts[1:]):
            e += " %s %s" % (OPS[op], p)
        return "def %s(LOG, vals):\n    return %s\n" % (self.name, e)

    def args(self):
        if self.flavour == "w":
            return [["log"], ["vals", [["W", i, self.wspec[i]] for i in range(len(self.operands))]]]
        return [["log"], ["vals", [["p", o["vi"]] for o in self.operands]]]

    def model_cmds(self):
        n = len(self.operands)
        if self.flavour == "w":
            opnd = ["%d:1:v%d" % (i, i) for i in range(n)]
            ct, tt = [], []
            for i, op in enumerate(self.ops):
                sp = self.wspec[i]
                if sp is None:
                    ct.append("%d,%d,%d,x%d" % (op, i, i + 1, 300 + i))
                else:
                    ct.append("%d,%d,%d,v%d" % (op, i, i + 1, 2000 + sp[0]))
                    tt.append("%d,%s" % (2000 + sp[0], sp[1] if sp[1] in "tf" else "x%d" % (400 + sp[0])))
        else:
            opnd = ["%d:%d:%s" % (i, 0 if o["kind"] == "lit" else 1, ("x%d" % (100 + i)) if o["vi"] < 0 else ("v%d" % o["vi"]))
                    for i, o in enumerate(self.operands)]
            ct, tt = [], ["2,t", "5,f"]
            for i, op in enumerate(self.ops):
                a, b = self.operands[i]["vi"], self.operands[i + 1]["vi"]
                if a < 0 or b < 0:
                    continue
                ct.append("%d,%d,%d,%s" % (op, a, b, py_cmp(op, self.operands[i], self.operands[i + 1])))
        links = ";".join("%d,%s" % (op, e) for op, e in zip(self.ops, opnd[1:]))
        rest = "%s %s %s %s" % (opnd[0], links, ";".join(dict.fromkeys(ct)) or "-", ";".join(dict.fromkeys(tt)) or "-")
        return "casc %s %s" % (FX["chk_truth"], rest), "cascref %s" % rest

    def truth_raises(self):
        return self.flavour == "w" and any(sp is not None and sp[1] == "x" for sp in self.wspec[:len(self.ops) - 1])


EXC_IDS = {"TypeError": 900}


def cval(o):
    v = POOL[o["vi"]]
    if o["kind"] == "ci":
        return int(v)
    if o["kind"] == "cd":
        return float(v)
    return v


def py_cmp(op, oa, ob):
    import operator as O
    a, b = cval(oa), cval(ob)
    fn = [O.lt, O.le, O.eq, O.ne, O.gt, O.ge, O.is_, O.is_not, lambda x, y: x in y, lambda x, y: x not in y][op]
    try:
        r = fn(a, b)
    except TypeError:
        return "x900"
    except ValueError:
        return "x901"
    if op in (6, 7):
        # identity of freshly created C-converted values is not defined by the model: avoided by the generator
        pass
    return "v2" if r else "v5"


def gen_casc_cases(rng, n, prefix):
    cases = []
    comparable = [[0, 1, 2, 3, 4, 5, 11, 14, 15, 16, 19], [6, 12, 17], [10, 18], [8, 9, 13, 7]]
    for k in range(n):
        nl = rng.choice([1, 2, 2, 3, 3, 4])
        fl = rng.choice(["obj", "obj", "c", "w", "w"])
        if fl == "w":
            ops = [rng.choice([0, 1, 2, 3, 4, 5]) for _ in range(nl)]
            wspec = []
            for i in range(nl + 1):
                r = rng.random()
                wspec.append(None if r < 0.1 else [i, "x" if r < 0.22 else ("f" if r < 0.45 else "t")])
            cases.append(CascCase("t_%s%d" % (prefix, k), "w", [{"kind": "f", "vi": 0}] * (nl + 1), ops, wspec))
            continue
        g = rng.choice(comparable) if rng.random() < 0.8 else list(range(len(POOL)))
        operands, ops = [], []
        for i in range(nl + 1):
            vi = -1 if rng.random() < 0.06 else rng.choice(g)
            kind = "f"
            if fl == "c" and vi >= 0 and isinstance(POOL[vi], (int, float)) and POOL[vi] == POOL[vi] and rng.random() < 0.6:
                kind = "ci" if (isinstance(POOL[vi], int) and rng.random() < 0.7) or POOL[vi] != int(POOL[vi]) and False else "cd"
                if kind == "ci" and not isinstance(POOL[vi], int):
                    kind = "cd"
            elif vi >= 0 and POOL_LIT[vi] is not None and vi not in (10, 18, 13) and rng.random() < 0.1 and i > 0:
                # (a literal tuple of C values as cascade operand becomes a ctuple that is never coerced:
                #  the generated C does not compile - reported, not part of the generated population)
                kind = "lit"
            operands.append({"kind": kind, "vi": vi})
        for i in range(nl):
            ckinds = {operands[i]["kind"], operands[i + 1]["kind"]}
            pool_ops = [0, 1, 2, 3, 4, 5]
            if not (ckinds & {"ci", "cd", "lit"}):
                pool_ops += [6, 7]
                if operands[i + 1]["vi"] in (10, 12, 18, 6, 13, 7):
                    pool_ops += [8, 9, 8]
            ops.append(rng.choice(pool_ops))
        cases.append(CascCase("t_%s%d" % (prefix, k), fl, operands, ops))
    return cases


def casc_obs(r, case, only_ops):
    res, log = r
    ev = []
    for e in log:
        if isinstance(e, list):
            if only_ops:
                continue
            ev.append("c%d/%d/%d" % (e[1], e[2], e[3]) if e[0] == "c" else "t%d" % (2000 + e[1]))
        else:
            ev.append("o%d" % e)
    if res[0] == "P":
        out = "V%d" % res[1]
    elif res[0] == "R":
        out = "V%d" % (2000 + res[1])
    elif res[0] == "X":
        a = res[2][0] if res[2] else None
        out = {"ValueError": lambda: ("X%d" % (100 + int(a))) if isinstance(a, int) else "X901", "IndexError": lambda: "X%d" % (300 + int(a)),
               "KeyError": lambda: "X%d" % (400 + int(a)), "TypeError": lambda: "X900"}.get(res[1], lambda: "?" + res[1])()
    else:
        out = "?" + json.dumps(res)
    return "%s | %s" % (",".join(ev) or "-", out)


def filt_ops(s):
    tr, out = s.split(" | ")
    ev = [e for e in tr.split(",") if e.startswith("o")]
    return "%s | %s" % (",".join(ev) or "-", out)


def check_cascade(ctx, model, cases, cy, py):
    q = []
    for c in cases:
        q += list(c.model_cmds())
    mres = model.batch(q)
    for i, c in enumerate(cases):
        mrun, mref = mres[2 * i], mres[2 * i + 1]
        only = c.flavour != "w"
        if only:
            mrun, mref = filt_ops(mrun), filt_ops(mref)
        got, exp = casc_obs(cy[c.name], c, only), casc_obs(py[c.name], c, only)
        inp = {"part": "cascade", "func": c.name, "source": c.text(True), "args": c.args()}
        ctx.case("cascade/%s/%d-links" % (c.flavour, len(c.ops)), inp, sig=(c.text(True), json.dumps(c.args())))
        if exp != mref:
            ctx.corr_break("cascade:reference-model", inp, exp, mref)
        if mrun.endswith("| U"):
            # the model says the emitted C goes on with a pending exception (unspecified behaviour):
            # only the trace up to that point is predicted
            if not got.split(" | ")[0].startswith(mrun.split(" | ")[0]):
                ctx.corr_break("cascade:run-prefix", inp, got, mrun)
        elif got != mrun:
            ctx.corr_break("cascade:run", inp, got, mrun)
        if got != exp:
            klass = ("cascade_truth_error_ignored" if (FX["chk_truth"] != "1" and c.truth_raises() and mrun.endswith("| U"))
                     else "cascade_wrong_result")
            ctx.fail(klass, inp, got, exp, note="model(as is)=%s" % mrun)


# ------------------------------------------------------------------------------------------------
# differential-only probes: str/bytes/dict/set containment helpers, identity classes
# ------------------------------------------------------------------------------------------------
DIFF_SRC = '''
def t_contains(LOG, a, b):
    return a in b, a not in b
def t_str_in(LOG, str a, str b):
    return a in b, a not in b
def t_bytes_in(LOG, bytes a, bytes b):
    return a in b
def t_dict_in(LOG, a, dict b):
    return a in b, a not in b
def t_set_in(LOG, a, set b):
    return a in b
def t_ucs4_in(LOG, Py_UCS4 c, str s):
    return c in s
def t_char_in_bytes(LOG, char c, bytes s):
    return c in s
def t_char_in_lit(LOG, char c):
    return c in b'ab\\xff', c not in b'xyz'
def t_ucs4_in_lit(LOG, Py_UCS4 c):
    return c in u'ab\\u20ac\\U0001F600', c not in u'a'
def t_str_eq(LOG, str a, str b):
    return a == b, a != b
def t_obj_eq_str(LOG, a, str b):
    return a == b, b == a, a != b
def t_bytes_eq(LOG, bytes a, bytes b):
    return a == b, a != b
def t_mixed(LOG, int i, double d, o):
    return i < d, d <= o, i == o, o != i, i < o < d, d > i >= o
'''
DIFF_PY = re.sub(r"\b(str|bytes|dict|set|Py_UCS4|char|int|double) (\w+)(?=[,)])", r"\2", DIFF_SRC)


def diff_cases():
    S = ["", "a", "ab", "b", "\u20ac", "a\u20acb", "\U0001F600", "ba", "abc", "\xe9"]
    B = [b"", b"a", b"ab", b"b", b"\xff", b"a\xffb"]
    cases = []
    for a in S:
        for b in S:
            cases += [("t_str_in", [a, b]), ("t_str_eq", [a, b]), ("t_obj_eq_str", [a, b]), ("t_contains", [a, b])]
        for b in [1, None, 1.5]:
            cases.append(("t_obj_eq_str", [b, a]))
    for a in B:
        for b in B:
            cases += [("t_bytes_in", [a.decode("latin1"), b.decode("latin1")]), ("t_bytes_eq", [a.decode("latin1"), b.decode("latin1")])]
    for ch in ["a", "b", "c", "\u20ac", "\U0001F600", "\xff", "x"]:
        cases += [("t_ucs4_in_lit", [ch])] + [("t_ucs4_in", [ch, s]) for s in S]
    for cv in [97, 98, 99, -1, 120, 127, -128, 0]:
        cases += [("t_char_in_lit", [cv])] + [("t_char_in_bytes", [cv, b.decode("latin1")]) for b in B]
    for i in [-1, 0, 1, 2]:
        for d in [-1.0, 0.0, 0.5, 1.0, 2.0]:
            for o in [0, 1, 1.0, 2, 0.5, "a", None]:
                cases.append(("t_mixed", [i, d, o]))
    return cases


DIFF_DRIVER = r'''
import sys, json
spec = json.load(sys.stdin)
if spec["mode"] == "cy":
    import c19_diff as m
    d = m.__dict__
else:
    d = {}
    exec(compile(spec["text"], "c19_diff_py", "exec"), d)
out = []
for fn, args in spec["cases"]:
    if fn in ("t_bytes_in", "t_bytes_eq"):
        args = [a.encode("latin1") for a in args]
    if fn == "t_char_in_bytes":
        args = [args[0], args[1].encode("latin1")]
    if spec["mode"] == "py" and fn in ("t_char_in_bytes", "t_char_in_lit"):
        args = [args[0] & 255] + args[1:]
    if fn == "t_dict_in":
        args = [args[0], dict.fromkeys(args[1])]
    if fn == "t_set_in":
        args = [args[0], set(args[1])]
    try:
        out.append(repr(d[fn]([], *args)))
    except Exception as e:
        out.append("X:" + type(e).__name__)
print(json.dumps(out))
'''


# ------------------------------------------------------------------------------------------------
# part 4: PyObjectCompare on two Python ints (Optimize.c __Pyx_PyObject_CompareIntInt<Op>)
# ------------------------------------------------------------------------------------------------
II_OPS = [("lt", "<"), ("le", "<="), ("eq", "=="), ("ne", "!="), ("gt", ">"), ("ge", ">=")]     # model order
II_TYPINGS = [("oo", "a, b"), ("ii", "a: int, b: int"), ("io", "a: int, b"), ("oi", "a, b: int")]
II_CHAINS = [(0, 1), (2, 3), (5, 4), (1, 2), (3, 0), (4, 5)]      # every operator as first and as second link
# part 5 (float against int): typed variants that exist besides oo / oi / io of II_TYPINGS
FI_TYPINGS = [("fi", "a: float, b: int"), ("fo", "a: float, b"), ("if", "a: int, b: float"), ("of", "a, b: float")]
II_BRANCH = {1: "sign", 2: "size", 3: "zero", 4: "one-digit", 5: "two-digit-join", 6: "digit-loop",
             7: "longlong", 8: "overflow-flags-differ", 9: "richcompare-fallback"}
SH = 30
BASE = 1 << SH


def ii_functions():
    """[(name, kind, info)] in the order the worker reports them; kind: pair | chain | mem"""
    fns = []
    for oi, (on, _) in enumerate(II_OPS):
        for tn, _ in II_TYPINGS:
            fns.append(("o_%s_%s" % (on, tn), "pair", oi))
            fns.append(("b_%s_%s" % (on, tn), "pair", oi))
    for k, (o1, o2) in enumerate(II_CHAINS):
        fns.append(("ch%d_oo" % k, "chain", (o1, o2)))
        fns.append(("ch%d_ii" % k, "chain", (o1, o2)))
    for tn in ("oo", "ii"):
        fns.append(("mem_in_" + tn, "mem", False))
        fns.append(("mem_ni_" + tn, "mem", True))
    return fns


def ii_source():
    L = ["# cython: language_level=3\n"]
    for on, sym in II_OPS:
        for tn, sig in II_TYPINGS:
            L.append("def o_%s_%s(%s):\n    return a %s b\n" % (on, tn, sig, sym))
            L.append("def b_%s_%s(%s):\n    if a %s b:\n        return 1\n    return 0\n" % (on, tn, sig, sym))
    for k, (o1, o2) in enumerate(II_CHAINS):
        L.append("def ch%d_oo(a, b, c):\n    return a %s b %s c\n" % (k, II_OPS[o1][1], II_OPS[o2][1]))
        L.append("def ch%d_ii(a: int, b: int, c: int):\n    return a %s b %s c\n" % (k, II_OPS[o1][1], II_OPS[o2][1]))
    for on, sym in II_OPS:
        for tn, sig in FI_TYPINGS:
            L.append("def o_%s_%s(%s):\n    return a %s b\n" % (on, tn, sig, sym))
            L.append("def b_%s_%s(%s):\n    if a %s b:\n        return 1\n    return 0\n" % (on, tn, sig, sym))
    L.append("def mem_in_oo(a, b, c):\n    return a in (b, c)\n")
    L.append("def mem_ni_oo(a, b, c):\n    return a not in (b, c)\n")
    L.append("def mem_in_ii(a: int, b: int, c: int):\n    return a in (b, c)\n")
    L.append("def mem_ni_ii(a: int, b: int, c: int):\n    return a not in (b, c)\n")
    return "".join(L)


II_WORKER = r'''
import sys, json, ctypes
spec = json.load(sys.stdin)
m = __import__(spec["module"])
pair_fns = [getattr(m, n) for n in spec["pair_fns"]]
tri_fns = [getattr(m, n) for n in spec["tri_fns"]]
vals = spec["values"]
def enc(r):
    if r is True or (type(r) is int and r == 1): return "1"
    if r is False or (type(r) is int and r == 0): return "0"
    return "?"
def call(f, *a):
    try:
        return enc(f(*a))
    except Exception as e:
        return "E"
out_pairs, out_tris, mem = [], [], []
for ia, ib, same in spec["pairs"]:
    a = int(vals[ia])
    b = a if same else int(vals[ib])
    out_pairs.append([1 if a is b else 0, "".join(call(f, a, b) for f in pair_fns)])
for ia, ib, ic in spec["triples"]:
    a, b, c = int(vals[ia]), int(vals[ib]), int(vals[ic])
    out_tris.append([[1 if a is b else 0, 1 if b is c else 0, 1 if a is c else 0],
                     "".join(call(f, a, b, c) for f in tri_fns)])
# representation tie: lv_tag and ob_digit of each operand as CPython laid them out (3.12 layout)
if sys.version_info[:2] >= (3, 12):
    for s in vals:
        v = int(s)
        tag = ctypes.c_size_t.from_address(id(v) + 16).value
        n = tag >> 3
        mem.append([tag, [ctypes.c_uint32.from_address(id(v) + 24 + 4 * i).value for i in range(n)]])
extra = []
for fn, a, b in spec["extra"]:
    cls = {"bool": bool, "sub": type("I", (int,), {})}
    conv = lambda x: cls[x[0]](x[1]) if isinstance(x, list) else x
    a, b = conv(a), conv(b)
    import operator
    def run1(f):
        try:
            return enc(f(a, b))
        except Exception as ex:
            return "E:" + type(ex).__name__
    extra.append([run1(getattr(m, fn)), run1(getattr(operator, fn.split("_")[1]))])
print(json.dumps({"pairs": out_pairs, "triples": out_tris, "mem": mem, "extra": extra}))
'''


def ii_val(ds, neg):
    v = 0
    for i, d in enumerate(ds):
        v += d << (SH * i)
    return -v if neg else v


def ii_base(rng, n, kind):
    if kind == "min":
        return [0] * (n - 1) + [1]
    if kind == "max":
        return [BASE - 1] * n
    ds = [rng.randrange(BASE) for _ in range(n)]
    ds[-1] = rng.randrange(1, BASE)
    return ds


def gen_int_pairs(rng, quick):
    """-> list of (a, b, same, family); families name the branch region the pair is aimed at"""
    P = []
    def add(a, b, fam, same=False, both=True):
        P.append((a, b, same, fam))
        if both and not same:
            P.append((b, a, False, fam))
    sizes = [1, 2, 3, 4, 5, 7] if quick else list(range(1, 13)) + [20, 40]
    reps = 1 if quick else 3
    # (1) same sign, same digit count, exactly one digit position differs: every position
    for n in sizes:
        for neg in (False, True):
            for kind in ("rand", "min", "max"):
                for _ in range(reps if kind == "rand" else 1):
                    A = ii_base(rng, n, kind)
                    for p in range(n):
                        lo = 1 if p == n - 1 else 0
                        cands = {A[p] + 1, A[p] - 1, lo, BASE - 1, rng.randrange(lo, BASE)}
                        for d in sorted(cands):
                            if d == A[p] or d < lo or d >= BASE:
                                continue
                            Bd = list(A); Bd[p] = d
                            add(ii_val(A, neg), ii_val(Bd, neg), "onepos/n=%d/p=%s" % (n, "top" if p == n - 1 else ("low" if p == 0 else "mid")))
    # (2) two positions differ in opposite directions: the higher one must decide
    for n in [s for s in sizes if s >= 2]:
        for neg in (False, True):
            A = ii_base(rng, n, "rand")
            A = [min(max(d, 1), BASE - 2) for d in A]
            pq = [(p, q) for p in range(n) for q in range(p + 1, n)]
            if len(pq) > 12:
                pq = rng.sample(pq, 12) + [(0, n - 1), (0, 1), (n - 2, n - 1)]
            for p, q in pq:
                Bd = list(A); Bd[q] = A[q] - 1; Bd[p] = A[p] + 1
                if Bd[-1] == 0:
                    continue
                add(ii_val(A, neg), ii_val(Bd, neg), "twopos/n=%d" % n)
    # (3) sign: same magnitude and different magnitudes
    for n in sizes:
        A, Bd = ii_base(rng, n, "rand"), ii_base(rng, n, "rand")
        add(ii_val(A, False), ii_val(A, True), "sign/n=%d" % n)
        add(ii_val(A, False), ii_val(Bd, True), "sign/n=%d" % n)
        add(ii_val(A, True), 0, "zero-vs/n=%d" % n)
        add(ii_val(A, False), 0, "zero-vs/n=%d" % n)
    # (4) different digit counts, adjacent values around each power of the base, both signs
    szs = [0] + sizes
    for n in szs:
        for k in szs:
            if n >= k:
                continue
            small = [BASE - 1] * n                      # largest n-digit value
            big = [0] * (k - 1) + [1]                   # smallest k-digit value
            for neg in (False, True):
                add(ii_val(small, neg), ii_val(big, neg), "size/%d-vs-%d" % (n, k))
                add(ii_val(ii_base(rng, n, "rand") if n else [], neg), ii_val(ii_base(rng, k, "rand"), neg), "size/%d-vs-%d" % (n, k))
            add(ii_val(small, True), ii_val(big, False), "sign+size/%d-vs-%d" % (n, k))
            add(ii_val(small, False), ii_val(big, True), "sign+size/%d-vs-%d" % (n, k))
    # (5) equal values in distinct objects / one object twice
    add(0, 0, "equal/n=0", both=False)
    for n in sizes:
        for neg in (False, True):
            for kind in ("rand", "min", "max"):
                v = ii_val(ii_base(rng, n, kind), neg)
                add(v, v, "equal/n=%d" % n, both=False)
                add(v, v, "identical/n=%d" % n, same=True)
    # (6) boundary table, all ordered pairs
    bnd = set()
    for e in (0, 1, 8, 15, 29, 30, 31, 32, 59, 60, 61, 62, 63, 64, 89, 90, 91, 120):
        for d in (-1, 0, 1):
            bnd.add((1 << e) + d); bnd.add(-((1 << e) + d))
    bnd |= {255, 256, 257, -5, -6, 2 ** 60 + 2 ** 35, 2 ** 61 + 2 ** 35, 2 ** 120 + 2 ** 70}
    bnd = sorted(bnd)
    if quick:
        keep = [v for v in bnd if abs(v).bit_length() in (0, 1, 2, 30, 31, 60, 61, 63, 64, 65, 90, 91)]
        for a in keep:
            for b in rng.sample(bnd, 14):
                add(a, b, "boundary", both=False)
    else:
        for a in bnd:
            for b in bnd:
                add(a, b, "boundary", both=False)
    # (7) random pairs sharing a random high part
    for _ in range(150 if quick else 6000):
        n = rng.choice(sizes)
        A = ii_base(rng, n, "rand")
        Bd = list(A)
        for i in range(rng.randrange(0, n) + 1 if rng.random() < 0.8 else 0):
            Bd[i] = rng.randrange(1 if i == n - 1 else 0, BASE)
        add(ii_val(A, rng.random() < 0.5), ii_val(Bd, rng.random() < 0.5), "random/n=%d" % n, both=False)
    return P


def gen_int_triples(rng, pairs, quick):
    """(a, b, c): chains a op1 b op2 c and a in (b, c); c from the same family so that the second
    link / second member goes through the same branch"""
    T = []
    src = [p for p in pairs if not p[2]]
    for (a, b, _, fam) in rng.sample(src, min(len(src), 260 if quick else 4000)):
        c = rng.choice([a, b, a + 1, b - 1, a ^ 1, b ^ (1 << SH), -a, a + (1 << (SH * 2))])
        T.append((a, b, c, fam.split("/")[0]))
        T.append((c, a, b, fam.split("/")[0]))
    return T


II_EXTRA = [["o_%s_oo" % on, a, b] for on, _ in II_OPS
            for a, b in [(["bool", 1], 1), (1, ["bool", 1]), (["bool", 0], 2 ** 70), (["sub", 2 ** 70 + 1], 2 ** 70 + 2),
                         (2 ** 70 + 1, ["sub", 2 ** 70 + 2]), (["sub", 5], ["sub", 5]), (2 ** 70, 1.5), (None, 1)]]


def pyops(a, b):
    return "".join("1" if r else "0" for r in (a < b, a <= b, a == b, a != b, a > b, a >= b))


def check_intint(ctx, model, quick, built):
    """built: {cfg: module name}; three-way: compiled helper / extracted model / CPython"""
    import time
    t_start = time.time()
    rng = ctx.rng
    pairs = gen_int_pairs(rng, quick)
    triples = gen_int_triples(rng, pairs, quick)
    fns = ii_functions()
    pair_fns = [f for f in fns if f[1] == "pair"]
    tri_fns = [f for f in fns if f[1] != "pair"]
    vals, index = [], {}
    def vi(v):
        if v not in index:
            index[v] = len(vals); vals.append(str(v))
        return index[v]
    spec = {"pair_fns": [f[0] for f in pair_fns], "tri_fns": [f[0] for f in tri_fns],
            "pairs": [[vi(a), vi(b), 1 if same else 0] for a, b, same, _ in pairs],
            "triples": [[vi(a), vi(b), vi(c)] for a, b, c, _ in triples], "extra": II_EXTRA}
    spec["values"] = vals
    src = ii_source()
    import concurrent.futures as cf
    with cf.ThreadPoolExecutor(max_workers=2) as ex:
        futs = {cfg: ex.submit(cybuild.run_script, II_WORKER, ctx.workdir, dict(spec, module=modname), 900, None, None,
                               "drv_ii_%s.py" % cfg) for cfg, modname in built.items()}
        runs = {cfg: f.result() for cfg, f in futs.items()}
    plan, allq = {}, []
    for cfg, modname in built.items():
        r = runs[cfg]
        res = r["json"]
        if res is None or len(res["pairs"]) != len(pairs) or len(res["triples"]) != len(triples):
            ctx.corr_break("intint worker " + cfg, modname, (r["err"] or r["out"])[-1500:], "runs")
            continue
        # --- the model is asked with the identity the worker observed
        q = ["row %s %d %d %d" % (cfg, res["pairs"][i][0], a, b) for i, (a, b, _, _) in enumerate(pairs)]
        link = {}
        for i, (a, b, c, _) in enumerate(triples):
            sab, sbc, sac = res["triples"][i][0]
            for key in ((a, b, sab), (b, c, sbc), (a, c, sac)):
                if key not in link:
                    link[key] = len(q); q.append("row %s %d %d %d" % (cfg, key[2], key[0], key[1]))
        m0 = len(q)
        if cfg == "312" and res["mem"]:
            q += ["mem 312 %s" % s for s in vals]
        plan[cfg] = (res, link, m0, len(allq), len(q))
        allq += q
    allres = model.batch(allq)
    for cfg, (res, link, m0, off, nq) in plan.items():
        mres = allres[off:off + nq]
        nfun = len(pair_fns) // 6
        for i, (a, b, same, fam) in enumerate(pairs):
            isame, got = res["pairs"][i]
            mrow, br, iters = mres[i].split()
            exp = pyops(a, b)
            branch = "identity" if isame else II_BRANCH.get(int(br), br)
            if branch == "digit-loop":
                branch += "/%s-iterations" % ("all" if int(iters) == max(1, (abs(a).bit_length() + SH - 1) // SH) else iters)
            stratum = "intint/%s/%s/%s" % (cfg, branch, fam.split("/")[0])
            inp0 = {"part": "intint", "config": cfg, "a": str(a), "b": str(b), "same_object": bool(isame), "family": fam}
            if same and not isame:
                ctx.corr_break("intint:identity", inp0, "distinct objects", "one object")
            ctx.count(stratum, 6 * nfun, distinct_sigs=[(cfg, a, b, isame, oi) for oi in range(6)])
            for j, (fname, _, oi) in enumerate(pair_fns):
                g = got[j]
                if g == mrow[oi] and g == exp[oi]:
                    continue
                inp = dict(inp0, func=fname, source=_ii_fn_source(src, fname), op=II_OPS[oi][1])
                if g != mrow[oi]:
                    ctx.corr_break("intint:" + fname, inp, g, mrow[oi])
                if g != exp[oi]:
                    ctx.fail("pyobject_compare_int_int_wrong_result", inp, g, exp[oi],
                             note="model=%s branch=%s; CPython: %s %s %s is %s" % (mrow[oi], branch, a, II_OPS[oi][1], b, exp[oi] == "1"))
        for i, (a, b, c, fam) in enumerate(triples):
            sab, sbc, sac = res["triples"][i][0]
            got = res["triples"][i][1]
            rab, rbc, rac = (mres[link[k]].split()[0] for k in ((a, b, sab), (b, c, sbc), (a, c, sac)))
            inp0 = {"part": "intint", "config": cfg, "a": str(a), "b": str(b), "c": str(c), "family": fam}
            ctx.count("intint/%s/chain-and-membership/%s" % (cfg, fam), len(tri_fns),
                      distinct_sigs=[(cfg, a, b, c, sab, sbc, sac)])
            for j, (fname, kind, info) in enumerate(tri_fns):
                if kind == "chain":
                    o1, o2 = info
                    mod = "1" if (rab[o1] == "1" and rbc[o2] == "1") else ("U" if "U" in (rab[o1], rbc[o2]) else "0")
                    ea, eb = pyops(a, b), pyops(b, c)
                    exp = "1" if (ea[o1] == "1" and eb[o2] == "1") else "0"
                else:
                    hit = rab[2] == "1" or rac[2] == "1"
                    mod = "U" if "U" in (rab[2], rac[2]) else ("1" if hit != info else "0")
                    exp = "1" if ((a in (b, c)) != info) else "0"
                g = got[j]
                if g == mod and g == exp:
                    continue
                inp = dict(inp0, func=fname, source=_ii_fn_source(src, fname))
                if g != mod:
                    ctx.corr_break("intint:" + fname, inp, g, mod)
                if g != exp:
                    ctx.fail("pyobject_compare_int_int_wrong_result", inp, g, exp, note="model=%s" % mod)
        if cfg == "312" and res["mem"]:
            bad = 0
            for k, s in enumerate(vals):
                tag, digs = res["mem"][k]
                want = "%d %s" % (tag, ",".join(map(str, digs)) or "-")
                if mres[m0 + k] != want and bad < 5:
                    bad += 1
                    ctx.corr_break("intint:memory-representation", {"part": "intint", "value": s}, want, mres[m0 + k])
            ctx.count("intint/312/representation(lv_tag,ob_digit)=of_Z", len(vals), distinct_sigs=[("mem", s) for s in vals])
        for (fn, a, b), (g, e) in zip(II_EXTRA, res["extra"]):
            inp = {"part": "intint", "config": cfg, "func": fn, "a": repr(a), "b": repr(b)}
            ctx.case("intint/%s/non-exact-operands(differential)" % cfg, inp, sig=(cfg, fn, repr(a), repr(b)))
            if g != e:
                ctx.fail("pyobject_compare_nonexact_wrong_result", inp, g, e)
    ctx.extra["intint_seconds"] = round(time.time() - t_start, 1)
    ctx.extra["intint_pairs"] = len(pairs)
    ctx.extra["intint_triples"] = len(triples)


def _ii_fn_source(src, fname):
    m = re.search(r"^def %s\(.*?(?=^def |\Z)" % re.escape(fname), src, re.S | re.M)
    return m.group(0) if m else fname


# ------------------------------------------------------------------------------------------------
# part 5: PyObjectCompare on an exact float and an exact int (Optimize.c
#         __Pyx_PyObject_CompareFloatInt<Op> / __Pyx_PyObject_CompareIntFloat<Op>) + float-float
# ------------------------------------------------------------------------------------------------
FI_BRANCH = {0: "float-float", 1: "compact-int", 2: "non-finite", 3: "opposite-signs", 4: "same-sign-small-float",
             5: "richcompare-fallback", 6: "non-finite", 7: "long-below-2^53-as-double", 8: "overflow-flag-small-float",
             9: "richcompare-fallback"}
# functions called with (float, int), with (int, float), with (float, float)
FI_FNS = {"fi": ["oo", "oi", "fi", "fo"], "if": ["oo", "io", "if", "of"], "ff": ["oo", "fo", "of"]}

FI_WORKER = r"""
import sys, json
spec = json.load(sys.stdin)
m = __import__(spec["module"])
fns = {d: [getattr(m, n) for n in names] for d, names in spec["fns"].items()}
def mkf(s):
    return float(s) if s in ("nan", "inf", "-inf") else float.fromhex(s)
def enc(r):
    if r is True or (type(r) is int and r == 1): return "1"
    if r is False or (type(r) is int and r == 0): return "0"
    return "?"
def call(f, a, b):
    try:
        return enc(f(a, b))
    except Exception as e:
        return "E"
out = []
for d, sa, sb in spec["pairs"]:
    # operands are created per pair: never a shared constant, never one object twice
    a = mkf(sa) if d[0] == "f" else int(sa)
    b = mkf(sb) if d[1] == "f" else int(sb)
    out.append("".join(call(f, a, b) for f in fns[d]))
print(json.dumps(out))
"""


def fi_fn_names(d):
    return ["%s_%s_%s" % (k, on, tn) for on, _ in II_OPS for tn in FI_FNS[d] for k in ("o", "b")]


def f_tok(f):
    """(worker token, model token) of a float"""
    if f != f:
        return "nan", "nan"
    if f in (float("inf"), float("-inf")):
        return ("inf", "inf") if f > 0 else ("-inf", "-inf")
    n, d = f.as_integer_ratio()
    return f.hex(), "%d/%d" % (n, d.bit_length() - 1)


def exact_ops(a, b):
    """the six operators on the VALUES, by integer arithmetic only (floats as n/d, d > 0)"""
    def rat(x):
        if isinstance(x, float):
            if x != x:
                return None
            if x in (float("inf"), float("-inf")):
                return (1 if x > 0 else -1, 0)
            return x.as_integer_ratio()
        return (x, 1)
    ra, rb = rat(a), rat(b)
    if ra is None or rb is None:
        return "000100"
    if ra[1] == 0 or rb[1] == 0:
        l, r = (ra[0] if ra[1] == 0 else 0), (rb[0] if rb[1] == 0 else 0)
    else:
        l, r = ra[0] * rb[1], rb[0] * ra[1]
    return "".join("1" if x else "0" for x in (l < r, l <= r, l == r, l != r, l > r, l >= r))


def _nextafter(f, up):
    import math
    return math.nextafter(f, float("inf") if up else float("-inf"))


def fi_int_boundaries():
    B = {0, 1, 2, 3, 255, 10 ** 320, 2 ** 120 + 2 ** 70, 2 ** 1024 - 2 ** 970, 2 ** 1024 - 2 ** 970 + 1, 2 ** 1024 - 2 ** 970 - 1}
    for e in (29, 30, 31, 32, 52, 53, 54, 59, 60, 61, 62, 63, 64, 89, 90, 91, 1023, 1024):
        for d in (-2, -1, 0, 1, 2):
            B.add((1 << e) + d)
    return sorted(B | {-v for v in B})


def fi_float_boundaries():
    F = {0.0, 5e-324, 2.2250738585072014e-308, 0.1, 0.5, 1.0, 1.5, 2.0, 2.5, 3.0, 255.5, 1000.25, 1e18, 1e30, 1e300,
         1.7976931348623157e308, float(2 ** 120 + 2 ** 70)}
    for e in (29, 30, 31, 32, 52, 53, 54, 59, 60, 61, 62, 63, 64, 89, 90, 1023):
        x = float(2 ** e)
        F |= {x, _nextafter(x, True), _nextafter(x, False), x + 1.0, x - 1.0, x + 0.5, x - 0.5}
    out = sorted(F | {-x for x in F})
    return out + [-0.0, float("inf"), float("-inf"), float("nan")]


def gen_float_int_pairs(rng, quick):
    """-> list of (dir, a, b, family); dir in fi / if / ff.  Classes: int sign x digit count 0,1,2,3,4+ ;
    float sign x magnitude against 1, 2^30 (digit), 2^53 (mantissa), 2^63/2^64 (long), DBL_MAX, inf, nan;
    equal values, neighbours of equal values (one ulp / one unit apart)"""
    P = []
    def add(f, i, fam):
        P.append(("fi", f, i, fam)); P.append(("if", i, f, fam))
    IB, FB = fi_int_boundaries(), fi_float_boundaries()
    # (2) every sign x digit class against every float region, the case of small floats against
    #     multi-digit ints of the same sign and of the other sign included
    sizes = [1, 2, 3, 4, 7] if quick else [1, 2, 3, 4, 5, 6, 8, 12, 20, 36]
    small = [0.0, -0.0, 0.25, -0.25, 1.5, -1.5, 1000.25, -1000.25, float(2 ** 30) - 0.5, 0.5 - float(2 ** 30),
             float(2 ** 30), -float(2 ** 30), float(2 ** 30) + 0.5, -0.5 - float(2 ** 30), float(2 ** 53) - 1, 1 - float(2 ** 53),
             float(2 ** 53), -float(2 ** 53), float(2 ** 53) + 2, -2 - float(2 ** 53), 1e18, -1e18, 2.0 ** 63, -(2.0 ** 63),
             2.0 ** 64, -(2.0 ** 64), 1e30, -1e30, float("inf"), float("-inf"), float("nan")]
    for n in sizes:
        for neg in (False, True):
            for kind in ("min", "max", "rand"):
                for _ in range((1 if quick else 4) if kind == "rand" else 1):
                    i = ii_val(ii_base(rng, n, kind), neg)
                    for f in small:
                        add(f, i, "class/n=%d" % n)
                    add(rng.uniform(-1, 1) * 2.0 ** rng.randrange(0, 31), i, "class/n=%d" % n)
    # (1) boundary floats x boundary ints
    if quick:
        for f in FB:
            for i in rng.sample(IB, 18):
                add(f, i, "boundary")
        for i in IB:
            for f in rng.sample(FB, 10):
                add(f, i, "boundary")
    else:
        for f in FB:
            for i in IB:
                add(f, i, "boundary")
    # (3) neighbours of equal values
    ints = set(IB)
    for n in sizes:
        for _ in range(3 if quick else 30):
            ints.add(ii_val(ii_base(rng, n, "rand"), rng.random() < 0.5))
    for i in sorted(ints):
        try:
            f = float(i)
        except OverflowError:
            continue
        for g in (f, _nextafter(f, True), _nextafter(f, False)):
            if g == g and abs(g) != float("inf"):
                add(g, i, "near-equal")
    for f in FB:
        if f != f or abs(f) == float("inf"):
            continue
        t = int(f)
        for i in (t - 1, t, t + 1):
            add(f, i, "near-equal")
    # (4) random float / int of nearby magnitude
    for _ in range(300 if quick else 20000):
        e = rng.choice([rng.randrange(-3, 70), rng.randrange(-3, 130), rng.randrange(25, 36), rng.randrange(50, 66)])
        f = (rng.random() + 1.0) * 2.0 ** e * rng.choice((1, -1))
        i = int(f) + rng.choice((0, 0, 1, -1, rng.randrange(-1000, 1000)))
        if rng.random() < 0.3:
            i = rng.choice((1, -1)) * rng.getrandbits(rng.randrange(1, 130))
        add(f, i, "random")
    # (5) float against float (the dispatcher's own branch)
    fs = [0.0, -0.0, 1.5, -1.5, 2.0 ** 53, 2.0 ** 53 + 2, 1e300, -1e300, 5e-324, float("inf"), float("-inf"), float("nan")]
    for a in fs:
        for b in fs:
            P.append(("ff", a, b, "float-float"))
    return P


def check_floatint(ctx, model, quick, built):
    """built: {cfg: module name}; three-way: compiled helper / extracted model / exact integer arithmetic
    (and CPython's own operators must equal the latter)"""
    import time, operator
    t_start = time.time()
    pairs = gen_float_int_pairs(ctx.rng, quick)
    src = ii_source()
    toks = []
    for d, a, b, fam in pairs:
        ta = f_tok(a) if isinstance(a, float) else (str(a), str(a))
        tb = f_tok(b) if isinstance(b, float) else (str(b), str(b))
        toks.append((ta, tb))
    spec = {"fns": {d: fi_fn_names(d) for d in FI_FNS}, "pairs": [[d, ta[0], tb[0]] for (d, _, _, _), (ta, tb) in zip(pairs, toks)]}
    import concurrent.futures as cf
    with cf.ThreadPoolExecutor(max_workers=2) as ex:
        futs = {cfg: ex.submit(cybuild.run_script, FI_WORKER, ctx.workdir, dict(spec, module=modname), 900, None, None,
                               "drv_fi_%s.py" % cfg) for cfg, modname in built.items()}
        q = []
        for cfg in built:
            for (d, a, b, fam), (ta, tb) in zip(pairs, toks):
                q.append("nrow %s 0 %s%s %s%s" % (cfg, d[0], ta[1], d[1], tb[1]))
        mres_all = model.batch(q)
        runs = {cfg: f.result() for cfg, f in futs.items()}
    exp_all = []
    for d, a, b, fam in pairs:
        e = exact_ops(a, b)
        c = pyops(a, b)
        if e != c:
            ctx.corr_break("floatint:oracle", {"part": "floatint", "a": repr(a), "b": repr(b)}, c, e)
        exp_all.append(e)
    for ci, (cfg, modname) in enumerate(built.items()):
        r = runs[cfg]
        res = r["json"]
        if res is None or len(res) != len(pairs):
            ctx.corr_break("floatint worker " + cfg, modname, (r["err"] or r["out"])[-1500:], "runs")
            continue
        mres = mres_all[ci * len(pairs):(ci + 1) * len(pairs)]
        for k, (d, a, b, fam) in enumerate(pairs):
            names = spec["fns"][d]
            got = res[k]
            parts = mres[k].split()
            if len(parts) != 2 or len(parts[0]) != 6:
                ctx.corr_break("floatint:model", {"part": "floatint", "query": q[ci * len(pairs) + k]}, mres[k], "a row")
                continue
            mrow, br = parts
            exp = exp_all[k]
            branch = FI_BRANCH.get(int(br), br)
            stratum = "floatint/%s/%s/%s/%s" % (cfg, d, branch, fam.split("/")[0])
            inp0 = {"part": "floatint", "config": cfg, "dir": d, "a": toks[k][0][0], "b": toks[k][1][0],
                    "a_repr": repr(a), "b_repr": repr(b), "family": fam}
            ctx.count(stratum, len(names), distinct_sigs=[(cfg, d, toks[k][0][0], toks[k][1][0], oi) for oi in range(6)])
            if len(got) != len(names):
                ctx.corr_break("floatint:worker-row", inp0, got, "%d results" % len(names))
                continue
            for j, fname in enumerate(names):
                oi = j // (2 * len(FI_FNS[d]))
                g = got[j]
                if g == mrow[oi] and g == exp[oi]:
                    continue
                inp = dict(inp0, func=fname, source=_ii_fn_source(src, fname), op=II_OPS[oi][1])
                if g != mrow[oi]:
                    ctx.corr_break("floatint:" + fname, inp, g, mrow[oi])
                if g != exp[oi]:
                    ctx.fail("pyobject_compare_float_int_wrong_result", inp, g, exp[oi],
                             note="model=%s branch=%s; exactly: %r %s %r is %s" % (mrow[oi], branch, a, II_OPS[oi][1], b, exp[oi] == "1"))
    ctx.extra["floatint_seconds"] = round(time.time() - t_start, 1)
    ctx.extra["floatint_pairs"] = len(pairs)


# ------------------------------------------------------------------------------------------------
# part 6: ConstantFolding.visit_PrimaryCmpNode - chains with links between two constants
# ------------------------------------------------------------------------------------------------
CF_PRELUDE = '''
class B:
    def __init__(self, LOG, wid, res):
        self.L = LOG; self.wid = wid; self.res = res
    def _cmp(self, opn, other):
        self.L.append(('c', opn, self.wid, getattr(other, 'wid', -1)))
        if self.res == 'x':
            raise IndexError(self.wid)
        return self.res == 't'
    def __lt__(self, o): return self._cmp(0, o)
    def __le__(self, o): return self._cmp(1, o)
    def __eq__(self, o): return self._cmp(2, o)
    def __ne__(self, o): return self._cmp(3, o)
    def __gt__(self, o): return self._cmp(4, o)
    def __ge__(self, o): return self._cmp(5, o)
    __hash__ = None
'''
# literal constants: (source text, value id); ids < 30 are POOL indices
CF_LITS = [("1", 0), ("1.0", 1), ("True", 2), ("0", 3), ("0.0", 4), ("False", 5), ("'a'", 6), ("b'a'", 7), ("None", 8),
           ("(1, 2)", 10), ("2", 11), ("'ab'", 12), ("257", 14), ("-1", 15), ("1.5", 16), ("'b'", 17), ("(1, 2.0)", 18),
           ("97", 19), ("()", 30), ("3", 31), ("[1, 2]", 33), ("{}", 34), ("[]", 35)]
CF_EXTRA = {30: (), 31: 3, 33: [1, 2], 34: {}, 35: []}
CF_CONTAINER = (10, 18, 30, 33, 34, 35)
CF_IDENT_OK = (8, 2, 5, 3, 0, 11, 15)           # None, True, False, 0, 1, 2, -1: identity is defined by the language / cache
CF_CYOPS = ["<", "<=", "==", "!=", ">", ">=", "is", "is_not", "in", "not_in"]
CF_SWAP = {0: 4, 1: 5, 2: 2, 3: 3, 4: 0, 5: 1}
CF_DYN_GROUPS = [[0, 1, 2, 3, 4, 5, 11, 14, 15, 16, 19], [0, 3, 11, 15, 16, 1], [6, 12, 17], [10, 18, 12], [8, 0, 6, 13]]


def cf_value(vid):
    return CF_EXTRA[vid] if vid in CF_EXTRA else POOL[vid]


def cf_pyop(op, a, b):
    import operator as O
    return [O.lt, O.le, O.eq, O.ne, O.gt, O.ge, O.is_, O.is_not, lambda x, y: x in y, lambda x, y: x not in y][op](a, b)


def cf_ct(op, a, b):
    """compile-time result of a link between two literal constants as documented for the folding pass: the Python
    operator on the two values; an exception or a str/bytes mix = not a constant (None); `x in ()` is False"""
    if isinstance(a, (str, bytes)) and isinstance(b, (str, bytes)) and type(a) is not type(b):
        return None
    if op in (8, 9) and isinstance(b, (tuple, list, dict)) and len(b) == 0:
        if isinstance(b, dict) and FX["emptydict_fix"] == "1":
            try:
                hash(a)
            except TypeError:
                return None
        return op == 9
    try:
        return bool(cf_pyop(op, a, b))
    except (ValueError, TypeError, KeyError, IndexError, AttributeError, ArithmeticError):
        return None


def cf_lit_link_ok(op, la, lb):
    """a link between two literals that the generator may emit"""
    a, b = cf_value(la), cf_value(lb)
    st = cf_ct(op, a, b)
    if op in (6, 7):
        # identity of two equal non-singleton literals is implementation defined in CPython
        return st is not None and ((la in CF_IDENT_OK and lb in CF_IDENT_OK) or type(a) is not type(b))
    if st is not None:
        return True
    # not a constant: only families whose run-time comparison Cython types as a Python operation
    # (a one-character str/bytes literal against a number is a C character comparison by language design)
    if op in (0, 1, 4, 5) and (a is None or b is None) and all(x is None or type(x) in (int, float) for x in (a, b)):
        return True
    # ('a' == b'a' is "not portable" = not a constant, but a str literal against a bytes literal crashes the compiler
    #  in find_special_bool_compare_function: outside this check's population)
    return False


class FoldCase:
    """operands: dicts kind = call | name | lit | loud (an instrumented object passed through a call or a name);
       lit: vid; flavour b = instrumented objects return bools, r = result objects with a logging __bool__"""
    def __init__(self, name, operands, ops, ctx="ret", flavour="b", pattern=None, assigns=None):
        self.name, self.operands, self.ops, self.ctx, self.flavour = name, operands, ops, ctx, flavour
        self.pattern = pattern or self.statuses()
        self.assigns = assigns or []
        self.spans = []

    def statuses(self):
        out = []
        for i, op in enumerate(self.ops):
            a, b = self.operands[i], self.operands[i + 1]
            if a["kind"] == "lit" and b["kind"] == "lit":
                st = cf_ct(op, cf_value(a["vid"]), cf_value(b["vid"]))
                out.append("D" if st is None else ("T" if st else "F"))
            else:
                out.append("D")
        return "".join(out)

    def expr(self):
        e, self.spans = "", []
        for i, o in enumerate(self.operands):
            if i:
                e += " %s " % OPS[self.ops[i - 1]]
            t = ("f(LOG, %d, vals[%d])" % (i, i) if o.get("via", o["kind"]) == "call" else "n%d" % i if o["kind"] != "lit"
                 else [x for x, v in CF_LITS if v == o["vid"]][0])
            self.spans.append((len(e), len(e) + len(t)))
            e += t
        return e

    def text(self, cy=True):
        e = self.expr()
        head = "def %s(LOG, vals, n0, n1, n2, n3, n4):\n" % self.name
        if self.ctx == "ret":
            self.col0 = len("    return ")
            return head + "    return %s\n" % e
        if self.ctx == "not":
            self.col0 = len("    return not (")
            return head + "    return not (%s)\n" % e
        return head + "    if %s:\n        return True\n    return False\n" % e

    def args(self, assign):
        vals, names = [], []
        for i in range(5):
            o = self.operands[i] if i < len(self.operands) else {"kind": "lit"}
            a = assign[i] if i < len(assign) else None
            if o["kind"] == "lit" or a is None:
                v = ["raw", 0]
            elif o["kind"] == "loud":
                v = ["W", i, None if a == "x" else a] if self.flavour == "r" else ["B", i, a]
            else:
                v = ["p", a]
            vals.append(v if o.get("via", o["kind"]) == "call" else ["raw", 0])
            names.append(v if o.get("via", o["kind"]) == "name" else ["raw", 0])
        return [["log"], ["vals", vals]] + names

    # ---- model command for one assignment
    def opval(self, i, assign):
        """(value id or None if the evaluation raises, loud?)"""
        o = self.operands[i]
        if o["kind"] == "lit":
            return o["vid"], False
        if o["kind"] == "loud":
            return 100 + i, True
        return (None if assign[i] < 0 else assign[i]), False

    def model_cmd(self, assign, drop_left="false"):
        n = len(self.operands)
        toks, vals = [], []
        for i, o in enumerate(self.operands):
            v, ld = self.opval(i, assign)
            vals.append((v, ld))
            logs = 1 if o.get("via", o["kind"]) == "call" else 0
            toks.append("%d:%s:%s:%s" % (i, "true" if logs else "false", ("x%d" % (100 + i)) if v is None else "v%d" % v,
                                         "true" if o["kind"] == "lit" else "false"))
        ct, cm, tt, loud = [], [], ["2,t", "5,f"], []
        for i, op in enumerate(self.ops):
            (a, la), (b, lb) = vals[i], vals[i + 1]
            if a is None or b is None:
                continue
            if la or lb:
                sp = assign[i] if la else assign[i + 1]
                who = i if la else i + 1
                if self.flavour == "r":
                    if sp == "x":
                        res = "x%d" % (300 + who)
                    else:
                        res = "v%d" % (2000 + sp[0])
                        tt.append("%d,%s" % (2000 + sp[0], sp[1] if sp[1] in "tf" else "x%d" % (400 + sp[0])))
                        loud.append(str(2000 + sp[0]))
                else:
                    res = {"t": "v2", "f": "v5", "x": "x%d" % (300 + who)}[sp]
                cm.append("%d,%d,%d,%s" % (op, a, b, res))
                continue
            x, y = cf_value(a), cf_value(b)
            try:
                res = "v2" if cf_pyop(op, x, y) else "v5"
            except TypeError:
                res = "x900"
            except ValueError:
                res = "x901"
            cm.append("%d,%d,%d,%s" % (op, a, b, res))
            if self.ctx == "not" and op >= 6:
                cm.append("%d,%d,%d,%s" % (op ^ 1, a, b, {"v2": "v5", "v5": "v2"}.get(res, res)))
            if self.operands[i]["kind"] == "lit" and self.operands[i + 1]["kind"] == "lit":
                st = cf_ct(op, x, y)
                if st is not None:
                    ct.append("%d,%d,%d,%s" % (op, a, b, "t" if st else "f"))
        loud += [str(100 + i) for i, o in enumerate(self.operands) if o["kind"] == "loud"]
        j = lambda l: ";".join(dict.fromkeys(l)) or "-"
        links = ";".join("%d,%s" % (op, t) for op, t in zip(self.ops, toks[1:]))
        if self.ctx == "not":
            return "notfold %s %s %s %s %s %s %s" % ("true" if FX["tail_fix"] == "1" else "false", toks[0], links,
                                                    j(ct), j(cm), j(tt), ",".join(dict.fromkeys(loud)) or "-")
        return "fold %s %s %s %s %s %s %s %s" % ("true" if FX["tail_fix"] == "1" else "false", drop_left, toks[0], links,
                                                 j(ct), j(cm), j(tt), ",".join(dict.fromkeys(loud)) or "-")

    def klass(self):
        """class of a property failure, from the input only"""
        for i, op in enumerate(self.ops):
            a, b = self.operands[i], self.operands[i + 1]
            if (op in (8, 9) and FX["emptydict_fix"] != "1" and a["kind"] == "lit" and b["kind"] == "lit" and b["vid"] == 34
                    and isinstance(cf_value(a["vid"]), (list, dict))):
                return "constfold_unhashable_in_empty_dict"
        if self.flavour == "r":
            p = self.pattern
            if FX["tail_fix"] != "1" and p.endswith("T") and "D" in p and "F" not in p:
                return "constfold_true_tail_result_untested"
            # a partial cascade of >= 2 links followed by another node
            parts = re.findall(r"D+|T|F", p.split("F")[0]) + (["F"] if "F" in p else [])
            for k, x in enumerate(parts):
                if len(x) >= 2 and x[0] == "D" and (any(y[0] in "DF" for y in parts[k + 1:]) or
                                                    (FX["tail_fix"] == "1" and p.endswith("T"))):
                    return "constfold_segment_result_tested_twice"
        return "constfold_wrong_result"


def cf_pick_dyn(rng, kindpool=("call", "call", "name")):
    k = rng.choice(kindpool)
    return {"kind": k}


def cf_realize(rng, name, pattern, ctx="ret", loud_p=0.0, flavour="b"):
    """operands and operators realising the pattern of link kinds"""
    nl = len(pattern)
    for attempt in range(60):
        lit = [False] * (nl + 1)
        for i, s in enumerate(pattern):
            if s != "D":
                lit[i] = lit[i + 1] = True
        for i in range(nl + 1):
            adj = [pattern[j] for j in (i - 1, i) if 0 <= j < nl]
            if not lit[i] and rng.random() < 0.2:
                lit[i] = True
        operands, ops, ok = [], [], True
        for i in range(nl + 1):
            adj = [j for j in (i - 1, i) if 0 <= j < nl]
            allconst = all(pattern[j] != "D" for j in adj)
            found = None
            for _ in range(80):
                if lit[i]:
                    t, vid = rng.choice(CF_LITS)
                    if vid in CF_CONTAINER and not allconst:
                        continue
                    o = {"kind": "lit", "vid": vid}
                else:
                    o = cf_pick_dyn(rng)
                    if rng.random() < loud_p:
                        o = {"kind": "loud", "via": rng.choice(["call", "name"])}
                if i == 0:
                    found = (o, None); break
                prev = operands[i - 1]
                want = pattern[i - 1]
                op = rng.choice(range(10))
                if "loud" in (prev["kind"], o["kind"]) and op > 5:
                    continue
                if prev["kind"] == "lit" and o["kind"] == "lit":
                    if not cf_lit_link_ok(op, prev["vid"], o["vid"]):
                        continue
                    st = cf_ct(op, cf_value(prev["vid"]), cf_value(o["vid"]))
                    if ("D" if st is None else "T" if st else "F") != want:
                        continue
                else:
                    if want != "D":
                        continue
                    if op in (6, 7) and any(x["kind"] == "lit" and x["vid"] not in CF_IDENT_OK for x in (prev, o)):
                        continue
                    if op in (8, 9) and o["kind"] == "lit" and not isinstance(cf_value(o["vid"]), (str, bytes, tuple, list, dict)):
                        continue
                found = (o, op); break
            if found is None:
                ok = False; break
            operands.append(found[0])
            if found[1] is not None:
                ops.append(found[1])
        if ok:
            c = FoldCase(name, operands, ops, ctx, flavour, pattern)
            assert c.statuses() == pattern, (c.statuses(), pattern)
            return c
    return None


def cf_assign(rng, case, k):
    """k value assignments for the non-literal operands (pool index, -1 = the call raises, or the result spec of an
    instrumented object)"""
    out = []
    for j in range(k):
        g = rng.choice(CF_DYN_GROUPS) if rng.random() < 0.85 else [i for i in range(len(POOL)) if i != NAN_I]
        a = []
        for i, o in enumerate(case.operands):
            if o["kind"] == "lit":
                a.append(None)
            elif o["kind"] == "loud":
                if case.flavour == "r":
                    r = rng.random()
                    a.append("x" if r < 0.1 else [i, "x" if r < 0.2 else ("f" if r < 0.5 else "t")])
                else:
                    a.append(rng.choice("ttffx"))
            else:
                vi = rng.choice(g)
                # containers as right operand of in / not in
                if i > 0 and case.ops[i - 1] in (8, 9) and rng.random() < 0.8:
                    vi = rng.choice([10, 12, 18, 6, 13, 7])
                if o.get("via", o["kind"]) == "call" and rng.random() < 0.06:
                    vi = -1
                a.append(vi)
        out.append(a)
    return out


def cf_parse(text, flavour="b", ctx="ret", name=None):
    """directed case from a compact description: operands separated by operators; c = call, n = name, w = instrumented
    object (through a call), anything else = literal text"""
    toks = text.split(" ")
    operands, ops = [], []
    i = 0
    while i < len(toks):
        t = toks[i]
        if t == "c":
            operands.append({"kind": "call"})
        elif t == "n":
            operands.append({"kind": "name"})
        elif t == "w":
            operands.append({"kind": "loud", "via": "call"})
        else:
            operands.append({"kind": "lit", "vid": dict(CF_LITS)[t] if t in dict(CF_LITS) else
                             dict(CF_LITS)[t + " " + toks[i + 1]]})
            if t not in dict(CF_LITS):
                i += 1
        i += 1
        if i < len(toks):
            op = toks[i]
            if op in ("is", "not") and i + 1 < len(toks) and toks[i + 1] in ("not", "in"):
                op += " " + toks[i + 1]; i += 1
            ops.append(OPS.index(op)); i += 1
    return FoldCase(name, operands, ops, ctx, flavour)


CF_DIRECTED = [
    # the constant-false link after live operands (f() < 1 > 2 ...), at every position
    ("c < 1 > 2", "b", [[0], [11], [6], [8], [-1]]), ("c < 1 > 2 < c", "b", [[0, None, None, 11], [14, None, None, 0], [13, None, None, 0]]),
    ("c <= c < 2 == 3", "b", [[0, 11], [11, 0], [0, 6], [0, 14], [0, -1]]), ("c in (1, 2) != 3 == 2", "b", [[11], [14]]),
    ("n < 1 > 2", "b", [[3], [12]]), ("c < c < c < 1 > 2", "b", [[3, 0, 11], [3, 0, 0], [3, 6, 0]]),
    ("c < 1 > 2", "b", [[0], [6]], "if"), ("c < 1 > 2", "b", [[0], [6]], "not"),
    ("w < 1 > 2", "b", [["t"], ["f"], ["x"]]), ("w < w < 1 > 2", "b", [["t", "t"], ["t", "f"], ["f", "t"], ["t", "x"]]),
    # constant-true links: head, middle, tail, runs
    ("c < 2 > 1 < c", "b", [[0, None, None, 11], [0, None, None, 3], [14, None, None, 11]]), ("2 < 3 < c", "b", [[None, None, 14], [None, None, 0]]),
    ("c < 2 > 1", "b", [[0], [14], [6]]), ("c < 2 > 1 < 3", "b", [[0], [14]]), ("1 < 2 < c < 3 > 2", "b", [[None, None, 16], [None, None, 14]]),
    ("w < 2 > 1 < w", "b", [["t", None, None, "t"], ["f", None, None, "t"], ["t", None, None, "f"], ["t", None, None, "x"]]),
    ("w < 2 > 1", "b", [["t"], ["f"], ["x"]]),
    # constant-false head; only constants
    ("2 < 1 < c", "b", [[None, None, 0]]), ("1 < 2", "b", [[]]), ("2 < 1", "b", [[]]), ("1 < 2 < 3", "b", [[]]), ("1 < 2 > 3", "b", [[]]),
    ("1 < 2 > 3 < c", "b", [[None, None, None, 0]]),
    # empty containers, None, identity, mixed strings, compile-time errors
    ("1 in () < c", "b", [[None, None, 0]]), ("1 not in () in c", "b", [[None, None, 10], [None, None, 0]]), ("c in ()", "b", [[0], [-1]]),
    ("c in () == ()", "b", [[0]]), ("1 in [1, 2] == [1, 2] != c", "b", [[None, None, None, 0]]),
    ("c is None is None", "b", [[8], [0]]), ("c is not None is not 1", "b", [[8], [0]]), ("None is None is c", "b", [[None, None, 8], [None, None, 3]]),
    ("c < None < 1", "b", [[0]]), ("c < 'a' < 'b' > 'ab'", "b", [[12], [0]]),
    ("c == 1 == 1.0 == True != c", "b", [[0, None, None, None, 3], [3, None, None, None, 0], [1, None, None, None, 2]]),
    # not <chain that folds to one link / a literal>
    ("c in (1, 2) == (1, 2)", "b", [[0], [14]], "not"), ("1 < 2 in c", "b", [[None, None, 10], [None, None, 18], [None, None, 0]], "not"),
    ("1 < 2", "b", [[]], "not"), ("2 < 1", "b", [[]], "not"), ("c is None", "b", [[8], [0]], "not"), ("1 in {} < c", "b", [[None, None, 0]]),
    ("1 not in {} != 3 in c", "b", [[None, None, None, 10], [None, None, None, 13]]), ("1 in [] < c", "b", [[None, None, 0]]), ("c < 3 != [1, 2] in {}", "b", [[0]]), ("[] not in {}", "b", [[]]), ("c in {}", "b", [[0]], "not"),
    # result objects (findings constfold_true_tail_result_untested / constfold_segment_result_tested_twice)
    ("w < 2 > 1", "r", [[[0, "t"]], [[0, "f"]], [[0, "x"]]]), ("1 < 2 < w < 3 < 257", "r", [[None, None, [2, "t"]], [None, None, [2, "f"]]]),
    ("w < w < 2 > 1 < w", "r", [[[0, "f"], [1, "t"], None, None, [4, "t"]], [[0, "t"], [1, "t"], None, None, [4, "t"]],
                                [[0, "t"], [1, "f"], None, None, [4, "t"]]]),
    ("w < 1 > 2", "r", [[[0, "t"]], [[0, "f"]], [[0, "x"]], ["x"]]), ("w < 2 > 1 < w", "r", [[[0, "t"], None, None, [3, "t"]], [[0, "f"], None, None, [3, "t"]]]),
]


def gen_fold_cases(rng, quick, prefix):
    import itertools
    cases = []
    k_assign = 3 if quick else 8
    pats = []
    for nl in (1, 2, 3, 4):
        allp = ["".join(p) for p in itertools.product("TFD", repeat=nl)]
        if quick and nl == 4:
            must = [p for p in allp if p.count("D") >= 1 and ("F" in p or "T" in p)]
            allp = rng.sample(must, 30)
        pats += allp * (1 if quick else (6 if nl < 4 else 3))
    for p in pats:
        c = cf_realize(rng, "t_cf%s%d" % (prefix, len(cases)), p)
        if c is not None:
            c.assigns = cf_assign(rng, c, k_assign)
            cases.append(c)
    # other contexts, instrumented objects
    extra = [("if", 0.0, "b")] * (10 if quick else 60) + [("not", 0.0, "b")] * (10 if quick else 60) + \
            [("ret", 0.5, "b")] * (20 if quick else 150) + [("ret", 0.5, "r")] * (0 if quick else 60)
    for ctx, lp, fl in extra:
        nl = rng.choice([2, 2, 3, 3, 4])
        while True:
            p = "".join(rng.choice("TFDDD") for _ in range(nl))
            if "D" in p and p != "D" * nl:
                break
        c = cf_realize(rng, "t_cf%s%d" % (prefix, len(cases)), p, ctx, lp, fl)
        if c is not None:
            c.assigns = cf_assign(rng, c, k_assign)
            cases.append(c)
    # _handle_NotNode: not (a OP b) for every operator (in / not in / is / is not are negated in place)
    combos = [("call", "lit"), ("lit", "call"), ("call", "call"), ("name", "call")]
    for op in range(10):
        for ci, (lk, rk) in enumerate(combos):
            if quick and (ci + op) % 2:
                continue
            lv = 8 if op in (6, 7) else 0
            rv = 8 if op in (6, 7) else (rng.choice([10, 12, 30, 33]) if op in (8, 9) else rng.choice([0, 16, 11]))
            mko = lambda k, v: {"kind": "lit", "vid": v} if k == "lit" else {"kind": k}
            c = FoldCase("t_cf%s%d" % (prefix, len(cases)), [mko(lk, lv), mko(rk, rv)], [op], "not", "b")
            c.assigns = cf_assign(rng, c, k_assign)
            cases.append(c)
    for d in CF_DIRECTED:
        c = cf_parse(d[0], d[1], d[3] if len(d) > 3 else "ret", "t_cf%s%d" % (prefix, len(cases)))
        c.assigns = [list(a) + [None] * (len(c.operands) - len(a)) for a in d[2]]
        for a in c.assigns:
            for i, o in enumerate(c.operands):
                if o["kind"] == "lit":
                    a[i] = None
        cases.append(c)
    return cases


def cf_struct_from_dump(case, dump):
    def tok(t):
        if t.startswith("c") or t.startswith("nn"):
            return int(t.lstrip("cn"))
        col = int(t[1:]) - case.col0
        for i, (a, b) in enumerate(case.spans):
            if a <= col < b:
                return i
        return -1
    out = []
    for n in dump:
        if n[0] == "not":
            out.append("N(%s)" % cf_struct_from_dump(case, n[1]))
        elif n[0] == "bool":
            out.append("B1" if n[1] else "B0")
        elif n[0] == "casc":
            out.append("C%d(%s)" % (tok(n[1]), ",".join("%d.%d" % (CF_CYOPS.index(op), tok(t)) for op, t in n[2])))
        else:
            out.append(str(n))
    return "&".join(out)


def cf_model_obs(trace, out, case):
    ev = []
    for e in ([] if trace == "-" else trace.split(",")):
        if e[0] == "c":
            op, a, b = [int(x) for x in e[1:].split("/")]
            if 100 <= a < 2000:
                ev.append("c%d/%d/%d" % (op, a - 100, b - 100 if 100 <= b < 2000 else -1))
            else:
                ev.append("c%d/%d/%d" % (CF_SWAP[op], b - 100, -1))
        else:
            ev.append(e)
    if case.ctx == "if" and out[0] == "V" and out not in ("V2", "V5"):
        out = "V?"
    return "%s | %s" % (",".join(ev) or "-", out)


def cf_impl_obs(r):
    res, log = r
    ev = []
    for e in log:
        if isinstance(e, list):
            ev.append("c%d/%d/%d" % (e[1], e[2], e[3]) if e[0] == "c" else "t%d" % (2000 + e[1]))
        else:
            ev.append("o%d" % e)
    if res[0] == "P":
        out = "V%d" % res[1]
    elif res[0] == "R":
        out = "V%d" % (2000 + res[1])
    elif res[0] == "X":
        a = res[2][0] if res[2] else None
        out = {"ValueError": lambda: ("X%d" % (100 + int(a))) if isinstance(a, int) else "X901", "IndexError": lambda: "X%d" % (300 + int(a)),
               "KeyError": lambda: "X%d" % (400 + int(a)), "TypeError": lambda: "X900"}.get(res[1], lambda: "?" + res[1])()
    else:
        out = "?" + json.dumps(res)
    return "%s | %s" % (",".join(ev) or "-", out)


def check_fold(ctx, model, cases, dumps, cy, py):
    """cy / py: results in the order of (case, assignment)"""
    q = []
    for c in cases:
        for a in c.assigns:
            q.append(c.model_cmd(a))
    mres = model.batch(q)
    k = 0
    nstruct = 0
    for c in cases:
        src = c.text(True)
        for ai, a in enumerate(c.assigns):
            m = [x.strip() for x in mres[k].split(" | ")]
            got, exp = cf_impl_obs(cy[k]), cf_impl_obs(py[k])
            k += 1
            inp = {"part": "constfold", "func": c.name, "source": src, "args": c.args(a), "pattern": c.pattern,
                   "flavour": c.flavour, "context": c.ctx}
            ctx.case("constfold/%s/%s/%d-links/%s" % (c.ctx, c.flavour, len(c.ops),
                                                      "".join(sorted(set(c.pattern)))), inp, sig=(src, json.dumps(c.args(a))))
            if len(m) != 5:
                ctx.corr_break("constfold:model", inp, mres[k - 1], "five fields")
                continue
            mstruct, mrun, mref = m[0], cf_model_obs(m[1], m[2], c), cf_model_obs(m[3], m[4], c)
            if ai == 0 and c.ctx in ("ret", "not"):
                nstruct += 1
                d = dumps.get(c.name)
                ds = cf_struct_from_dump(c, d) if d is not None else "no dump"
                if ds != mstruct:
                    ctx.corr_break("constfold:folded-tree", inp, ds, mstruct)
            if exp != mref:
                ctx.corr_break("constfold:reference-model", inp, exp, mref)
            if got != mrun:
                ctx.corr_break("constfold:run", inp, got, mrun)
            if got != exp:
                ctx.fail(c.klass(), inp, got, exp, note="model(as is)=%s pattern=%s" % (mrun, c.pattern))
    ctx.extra["constfold_functions"] = len(cases)
    ctx.extra["constfold_tree_ties"] = nstruct
    ctx.extra["constfold_patterns"] = len({c.pattern for c in cases})


# ------------------------------------------------------------------------------------------------
DUP_SRC = '''
def t_dup(char b):
    if b in b"ab":
        return 100
    elif b == 97:
        return 101
    return -1
'''


def check_dup_probe(ctx, model, err):
    """bytes-character labels (key = the bytes object) against an integer label with the same value:
    has_duplicate_values compares keys, the C compiler compares values"""
    cmd = "ifs %s - clause 100 instr 0 1 V5:0:i 97,98 clause 101 cmp e 0 V5:0:i Li97:97:i" % FX["fix_and"]
    m = model.batch([cmd])[0]
    inp = {"part": "switch", "func": "t_dup", "source": DUP_SRC}
    ctx.case("switch/duplicate-label-probe", inp, sig=DUP_SRC)
    model_invalid = m.strip().endswith("| 0") and m.startswith("switch(")
    rejected = err is not None and "duplicate case value" in str(err.detail)
    if err is not None and not rejected:
        ctx.corr_break("build c19_dup", inp, str(err)[-800:], "builds or duplicate case value")
    if model_invalid != rejected:
        ctx.corr_break("switch:label-validity", inp, "gcc rejects" if rejected else "gcc accepts", m)
    if rejected:
        ctx.fail("switch_duplicate_case_labels", inp, "C compiler: duplicate case value", "module compiles; t_dup(97) == 100")


def run(ctx):
    quick = ctx.tier == "quick"
    model = ctx.model("cmp")
    rng = ctx.rng
    in_cases = gen_in_cases(rng, 40 if quick else 500, "i")
    sw_cases = gen_sw_cases(rng, 35 if quick else 400, "s") + directed_sw_cases("sd")
    ca_cases = gen_casc_cases(rng, 60 if quick else 600, "c")
    cf_cases = gen_fold_cases(rng, quick, "k")
    head = "# cython: language_level=3\n"
    in_src = head + PRELUDE + "\n".join(c.source() for c in in_cases)
    sw_cy = head + PRELUDE + CY_HELPERS + "\n".join(c.text(True) for c in sw_cases)
    sw_py = PRELUDE + PY_HELPERS + "\n".join(c.text(False) for c in sw_cases)
    ca_cy = head + PRELUDE + CY_HELPERS + "\n".join(c.text(True) for c in ca_cases)
    ca_py = PRELUDE + PY_HELPERS + "\n".join(c.text(False) for c in ca_cases)
    cf_src = head + PRELUDE + CF_PRELUDE + "\n".join(c.text(True) for c in cf_cases)
    O0 = ["-O0"]
    specs = [dict(name="c19_cf", source=cf_src, workdir=ctx.workdir, cflags=O0),
             dict(name="c19_in", source=in_src, workdir=ctx.workdir, cflags=O0),
             dict(name="c19_sw", source=sw_cy, workdir=ctx.workdir, cflags=O0),
             dict(name="c19_ca", source=ca_cy, workdir=ctx.workdir, cflags=O0),
             dict(name="c19_diff", source=head + DIFF_SRC, workdir=ctx.workdir, cflags=O0),
             dict(name="c19_ii", source=ii_source(), workdir=ctx.workdir, cflags=O0),
             dict(name="c19_iin", source=ii_source(), workdir=ctx.workdir, cflags=O0,
                  macros=["CYTHON_USE_PYLONG_INTERNALS=0"]),
             dict(name="c19_dup", source=head + DUP_SRC, workdir=ctx.workdir, cflags=O0)]
    import concurrent.futures as cf
    with cf.ThreadPoolExecutor(max_workers=2) as ex:
        fut_tree = ex.submit(cybuild.run_script, TREEWORKER, ctx.workdir,
                             {"sources": {"c19_cf": cf_src, "c19_in": in_src, "c19_sw": sw_cy}, "dir": ctx.workdir}, 900, None, None, "treeworker.py")
        built = cybuild.build_many(specs, jobs=6)
        tr = fut_tree.result()
    dup_err = built[-1][1]
    built, specs = built[:-1], specs[:-1]
    check_dup_probe(ctx, model, dup_err)
    for (so, err), sp in zip(built, specs):
        if err is not None:
            # (the model found every generated switch valid, see check_switch: a C error here is a violation)
            ctx.fail("generated_module_does_not_compile", {"module": sp["name"]}, str(err)[-800:], "module compiles")
            _debug_dump(ctx)
            return
    trees = tr["json"]
    if trees is None:
        ctx.corr_break("treeworker", "pipeline hook", (tr["err"] or tr["out"])[-1500:], "tree dumps")
        return
    for k in ("c19_cf", "c19_in", "c19_sw"):
        if "error" in trees[k]:
            ctx.corr_break("treeworker " + k, "pipeline hook", trees[k]["error"], "no compile error")
            return

    # ---- part 6: constant folding of comparison chains
    cases = [["c19_cf", c.name, c.args(a)] for c in cf_cases for a in c.assigns]
    cy, py = run_both(ctx, [["c19_cf", cf_src]], [["c19_cf", cf_src]], cases, "cf")
    check_fold(ctx, ctx.model("cmpfold"), cf_cases, trees["c19_cf"]["cf"], cy, py)

    # ---- part 2
    cases = [["c19_in", c.name, c.args()] for c in in_cases]
    cy, py = run_both(ctx, [["c19_in", in_src]], [["c19_in", in_src]], cases, "in")
    check_flatten(ctx, model, in_cases, trees["c19_in"], {c.name: r for c, r in zip(in_cases, cy)},
                  {c.name: r for c, r in zip(in_cases, py)})

    # ---- part 3
    inputs = {c.name: sw_inputs(c, quick) for c in sw_cases}
    cases = []
    for c in sw_cases:
        for a in inputs[c.name]:
            cases.append(["c19_sw", c.name, [["log"], a["x"], a["y"], a["o"], a["c"], a["b"], a["e"], a["d"]]])
    cy, py = run_both(ctx, [["c19_sw", sw_cy]], [["c19_sw", sw_py]], cases, "sw")
    check_switch(ctx, model, sw_cases, trees["c19_sw"], cy, py, inputs)

    # ---- part 1
    cases = [["c19_ca", c.name, c.args()] for c in ca_cases]
    cy, py = run_both(ctx, [["c19_ca", ca_cy]], [["c19_ca", ca_py]], cases, "ca")
    check_cascade(ctx, model, ca_cases, {c.name: r for c, r in zip(ca_cases, cy)},
                  {c.name: r for c, r in zip(ca_cases, py)})

    # ---- part 4: the int-int branch of PyObjectCompare, internals on (cfg 312) and off (noint)
    check_intint(ctx, ctx.model("cmpint"), quick, {"312": "c19_ii", "noint": "c19_iin"})

    # ---- part 5: the float-int / int-float / float-float branches, same two builds
    check_floatint(ctx, ctx.model("cmpfloat"), quick, {"312": "c19_ii", "noint": "c19_iin"})

    # ---- differential probes of the object comparison helpers
    dc = diff_cases()
    r1 = cybuild.run_script(DIFF_DRIVER, ctx.workdir, {"mode": "cy", "cases": dc}, name="drv_diff_cy.py")
    r2 = cybuild.run_script(DIFF_DRIVER, ctx.workdir, {"mode": "py", "cases": dc, "text": DIFF_PY}, name="drv_diff_py.py")
    if r1["json"] is None or r2["json"] is None:
        ctx.corr_break("diff driver", "c19_diff", (r1["err"] + r2["err"])[-1500:], "runs")
        return
    for (fn, args), a, b in zip(dc, r1["json"], r2["json"]):
        inp = {"part": "helpers", "func": fn, "args": args}
        ctx.case("helpers/" + fn, inp, sig=(fn, json.dumps(args)))
        if a != b:
            ctx.fail("helper_" + fn, inp, a, b)
    ctx.extra["model_variant_flags"] = dict(FX)
    _debug_dump(ctx)


def _debug_dump(ctx):
    try:
        with open(os.path.join(ctx.workdir, "c19_debug.json"), "w") as fh:
            json.dump({"fails": getattr(ctx, "prop_failures", []), "corr": getattr(ctx, "corr_breaks", []),
                       "known": getattr(ctx, "known_hits", {})}, fh, indent=1, default=str)
    except Exception:
        pass


def replay(ctx, obj):
    inp = obj["input"]
    print("replay: part=%s func=%s" % (inp.get("part"), inp.get("func")))
    print(inp.get("source", ""))
    print("args:", json.dumps(inp.get("args")))
    print("observed:", obj.get("observed"), "expected:", obj.get("expected"))
    src = inp.get("source")
    if inp.get("part") == "intint" and src and "a" in inp:
        name = "c19_replay_ii"
        cybuild.build(name, "# cython: language_level=3\n" + src, ctx.workdir,
                      macros=(["CYTHON_USE_PYLONG_INTERNALS=0"] if inp.get("config") == "noint" else None))
        args = [inp["a"], inp["b"]] + ([inp["c"]] if "c" in inp else [])
        script = ("import sys, json, %s as m\nargs = [int(x) for x in json.load(sys.stdin)]\n"
                  "if %r: args[1] = args[0]\nprint(json.dumps(repr(m.%s(*args))))\n"
                  % (name, bool(inp.get("same_object")), inp["func"]))
        r = cybuild.run_script(script, ctx.workdir, args, name="drv_replay_ii.py")
        print("replayed: compiled ->", r["json"], (r["err"] or "")[-300:])
        return
    if inp.get("part") == "floatint" and src and "a" in inp:
        name = "c19_replay_fi"
        cybuild.build(name, "# cython: language_level=3\n" + src, ctx.workdir,
                      macros=(["CYTHON_USE_PYLONG_INTERNALS=0"] if inp.get("config") == "noint" else None))
        script = ("import sys, json, %s as m\nd, a, b = json.load(sys.stdin)\n"
                  "mk = lambda k, s: (float(s) if s in ('nan', 'inf', '-inf') else float.fromhex(s)) if k == 'f' else int(s)\n"
                  "print(json.dumps(repr(m.%s(mk(d[0], a), mk(d[1], b)))))\n" % (name, inp["func"]))
        r = cybuild.run_script(script, ctx.workdir, [inp["dir"], inp["a"], inp["b"]], name="drv_replay_fi.py")
        print("replayed: compiled ->", r["json"], (r["err"] or "")[-300:])
        return
    if not src or inp.get("part") not in ("in_literal", "cascade", "constfold"):
        return
    name = "c19_replay"
    text = "# cython: language_level=3\n" + PRELUDE + CF_PRELUDE + CY_HELPERS + src
    cybuild.build(name, text, ctx.workdir)
    cases = [[name, inp["func"], inp["args"]]]
    cy = run_driver(ctx, "cy", [[name, text]], cases, "rp")
    py = run_driver(ctx, "py", [[name, PRELUDE + CF_PRELUDE + PY_HELPERS + src]], cases, "rp")
    print("replayed: compiled ->", cy[0], " CPython ->", py[0])
