"""C23 -- Generators and coroutines follow CPython's protocol on every history (DESIGN 7/C23).

Three-way correspondence for table-driven bodies (one generic table interpreter generator /
coroutine compiled by the compiler under test): compiled object vs extracted cy model (tie),
CPython running the same source vs extracted py model (tie of the specification), compiled
object vs CPython (property).  Two-way (compiled vs CPython) for generated structured bodies
(yield / yield from / await in loops, try/finally/except, with) and async generators."""
import json, os, itertools
import cybuild

TITLE = "Generators and coroutines follow CPython's protocol on every history"
EXTRACTS = ["Gen", "AsyncGen"]
RULE = ("table bodies: random step tables (<=5 labels, outcomes yield/yield-from/return/raise per input class, "
        "sub-iterators = list iterator, nested generator of the same or the other implementation, scripted "
        "object with any subset of send/throw/close) x random histories over {next, send None/v, throw "
        "GeneratorExit/StopIteration(v)/user, close, del} of length <= 6 (quick) / 8 (thorough); structured "
        "bodies: random programs over yield/yield from/await/try/finally/except/with/for/return/raise x "
        "histories; async generators: random step tables (async yield / await of a list or scripted awaitable / "
        "return / raise incl. StopAsyncIteration, StopIteration, GeneratorExit rows favoured) x histories over "
        "{__anext__, asend(v), athrow(E), aclose() created in one of three slots; send/next/throw/close/drive on "
        "the awaitable of a slot; drop} with optional asyncgen hooks, length <= 6 / 8, plus ALL histories of length "
        "<= 3 (quick) / 4 (thorough) over nine operations on three fixed bodies (ignores GeneratorExit by yielding; "
        "awaits in the GeneratorExit handler; raises StopAsyncIteration/StopIteration/returns); histories on which "
        "the model predicts the death of the process are run apart, each in its own process; "
        "distinct by (body, history); non-trivial = the body is resumed at least once")
EXPLANATION = ("theorems: for every body (arbitrary step function over an arbitrary type of suspension points), "
               "every sub-iterator (arbitrary coinductive object) and every history the repaired Cython machine "
               "and the CPython 3.12 machine give the same per-operation results, the same resumptions of user "
               "code and corresponding final states; the same holds for the code as it is on histories avoiding "
               "four finding classes (refuted otherwise); close is idempotent; abandonment resumes the body with "
               "GeneratorExit exactly once. partial: the body is abstract (exception state save/restore, "
               "tracebacks, __context__ chains are only tested differentially), am_send of generator-like types "
               "is assumed equal to next/send. Async generators: the layer of AsyncGen.c (awaitable states "
               "INIT/ITER/CLOSED, ag_closed, ag_running_async, hooks, wrapped-value protocol, finalisation) over the "
               "Cython machine gives the same observations as the same layer over the CPython machine for every "
               "body, variant and history (C23_agen_bisim); aclose() marks the generator closed whatever the body "
               "does, a closed generator answers StopAsyncIteration without resuming the body, finished awaitables "
               "are inert; the seeded ag_closed-late variant and each place where AsyncGen.c differs from CPython "
               "3.12.1 are refuted by witnesses. partial: the layer is written once and instantiated twice (the "
               "variant flags carry the differences), finalisation of a body that returns on GeneratorExit under "
               "CPython 3.12 (unraisable StopAsyncIteration) is not modelled, structured async bodies are tested "
               "differentially without throw()/close() on the awaitables")
TRUSTED = ["model of CPython 3.12 genobject.c / SEND / CLEANUP_THROW written by hand (py_op), validated on every "
           "run against the running CPython",
           "am_send(o, v) of generator-like C types == (v is None ? next(o) : o.send(v))",
           "CPython 3.12.1 as the property oracle (same source executed as plain Python)",
           "model of CPython 3.12.1 async_gen_asend_*/athrow_* (av_py variant of M_AsyncGen), validated on every run "
           "against the running CPython"]
ASSUMPTIONS = ["CPython 3.12 semantics (close() returns None; StopIteration reaching a yield-from point from "
               "outside is its value; throw() into a just-started generator bypasses PEP 479)",
               "language_level=3 (generator_stop in effect)"]

# model variant = the code as it is; after the patches in proposed_fixes/C23-*.diff are applied
# flip the corresponding character to "1" (order: first_send, throw_si_fresh, close_ret, si_at_yf)
FX = os.environ.get("C23_FX", "10101")
FX_NAMES = ["send_nonnone_just_started_terminates", "throw_stopiteration_just_started_pep479",
            "close_return_value_in_genexit_handler", "stopiteration_reaching_yield_from",
            "asyncgen_never_started_drop_warns_never_awaited"]
# async generator layer (AsyncGen.c) variant = the code as it is: t313, pad, closed_first; the CPython 3.12
# reference is "001".  After proposed_fixes/C23-asyncgen_already_running_message_padding.diff flip char 1 to "0".
AV = os.environ.get("C23_AV", "1010")
AV_PY = "0010"
AV_NAMES = ["asyncgen_awaitable_throw_close_follow_cpython313", "asyncgen_already_running_message_padding", None,
            "asyncgen_aclose_throw_await_suspension_crash"]

NONE, RECV = -1000000, -2000000

SUPPORT = r'''
import sys, gc, weakref, warnings
NONE, RECV = -1000000, -2000000
class U0(Exception): pass
class U1(Exception): pass
class U9(Exception): pass
USER = {0: U0, 1: U1, 9: U9}
LOG = []
REG = {}
SELF = [None]
MSG = {"generator raised StopIteration": 0, "coroutine raised StopIteration": 0,
       "async generator raised StopIteration": 0, "async generator raised StopAsyncIteration": 3,
       "generator ignored GeneratorExit": 1, "coroutine ignored GeneratorExit": 1,
       "async generator ignored GeneratorExit": 1,
       "cannot reuse already awaited coroutine": 2,
       "can't send non-None value to a just-started generator": 0,
       "can't send non-None value to a just-started coroutine": 0,
       "can't send non-None value to a just-started async generator": 0,
       "generator already executing": 0, "coroutine already executing": 0,
       "async generator already executing": 0,
       "cannot reuse already awaited __anext__()/asend()": 10,
       "cannot reuse already awaited aclose()/athrow()": 11,
       "anext(): asynchronous generator is already running": 12,
       "aclose(): asynchronous generator is already running": 13,
       "athrow(): asynchronous generator is already running": 14,
       " anext(): asynchronous generator is already running": 112}
NON_INIT = "can't send non-None value to a just-started coroutine"

def exc_cls(e):
    if isinstance(e, GeneratorExit): return 2
    if isinstance(e, StopIteration): return 3
    if isinstance(e, RuntimeError): return 4
    if isinstance(e, TypeError): return 5
    if isinstance(e, ValueError): return 6
    if isinstance(e, AttributeError): return 7
    if isinstance(e, StopAsyncIteration): return 8
    for i, c in USER.items():
        if type(e) is c: return 10 + i
    return 99
def sval(v):
    return "N" if v is None else str(v)
def sexc(e):
    c = exc_cls(e)
    if c == 3: return "3:" + sval(e.value)
    if c == 4 and str(e) == NON_INIT: return "4:15"
    if c in (4, 5, 6):
        m = MSG.get(str(e))
        return "%d:%s" % (c, m if m is not None else "?" + str(e))
    if c == 99: return "99:" + type(e).__name__
    return "%d:" % c
def in_cls(inp, isexc):
    if isexc: return exc_cls(inp)
    return 0 if inp is None else 1
def sinput(inp, isexc):
    return ("x" + sexc(inp)) if isexc else ("s" + sval(inp))
def val_of_code(a):
    return None if a == NONE else a
def val_of_spec(a, inp, isexc):
    if a == RECV: return None if isexc else inp
    return val_of_code(a)
def make_exc(a, b):
    if a == 2: return GeneratorExit()
    if a == 3: return StopIteration(val_of_code(b)) if b != NONE else StopIteration()
    if a == 8: return StopAsyncIteration()
    return USER[a - 10]()
def exc_of_spec(a, b, inp, isexc):
    if a == -2: return inp if isexc else U9()
    return make_exc(a, b)
def find(rows, k, c):
    r = rows.get((k, c))
    if r is None: r = rows.get((k, -1))
    return r

class Scr(object):
    """scripted object: every method call is a table lookup at the object's label"""
    def __init__(self, T, k0):
        self.rows = T[0]; self.k = k0
    def __iter__(self): return self
    def __await__(self): return self
    def _call(self, inp, isexc):
        LOG.append("S:%d/%s" % (self.k, sinput(inp, isexc)))
        r = find(self.rows, self.k, in_cls(inp, isexc))
        if r is None:
            if isexc: raise inp
            self.k = -1; raise StopIteration
        tag, a, b = r
        if tag == 0:
            self.k = b; return val_of_spec(a, inp, isexc)
        if tag == 2:
            self.k = -1; raise StopIteration(val_of_spec(a, inp, isexc))
        if tag == 3:
            raise exc_of_spec(a, b, inp, isexc)
        self.k = -1; raise StopIteration
    def __next__(self): return self._call(None, False)
def _scr_send(self, v): return self._call(v, False)
def _scr_throw(self, *a): return self._call(a[0]() if isinstance(a[0], type) else a[0], True)
def _scr_close(self):
    LOG.append("S:%d/close" % self.k)
    r = find(self.rows, self.k, 20)
    if r is None: return None
    tag, a, b = r
    if tag == 0: self.k = b; return None
    if tag == 3: raise exc_of_spec(a, b, None, False)
    self.k = -1
SCR = {}
for caps in range(8):
    d = {}
    if caps & 1: d["send"] = _scr_send
    if caps & 2: d["throw"] = _scr_throw
    if caps & 4: d["close"] = _scr_close
    SCR[caps] = type("Scr%d" % caps, (Scr,), d)

class Aw(object):
    def __init__(self, it): self.it = it
    def __await__(self): return self.it

def mk(T, subid, gid, impl, coro):
    kind, k0, caps, vals = T[1][subid]
    if kind == 0:
        it = iter([val_of_code(v) for v in vals])
        return Aw(it) if coro else it
    if kind == 3:
        return SCR[caps](T, k0)
    which = "py" if kind == 2 else impl
    return REG[which + ("c" if coro else "g")](T, k0, gid + 1, which)

def probe(tok):
    g = SELF[0]() if SELF[0] is not None else None
    if g is None: return
    try:
        if tok == "n": r = "Y" + sval(g.send(None))
        elif tok == "s": r = "Y" + sval(g.send(7))
        elif tok == "t": r = "Y" + sval(g.throw(U0()))
        else:
            g.close(); r = "N"
    except BaseException as e:
        r = "E" + sexc(e)
    LOG.append("P:%s=%s" % (tok, r))

def parse_val(s):
    return None if s == "N" else int(s)
def run_history(factory, hist, coro=False, selfref=False):
    """apply the operation tokens to a fresh object; per op (result, log slice)"""
    del LOG[:]
    out = []
    unr = []
    old = sys.unraisablehook
    outer = [0]
    def hook(u):
        # finalisation errors of the object under test are its del result; those of other
        # (abandoned sub-)objects are events of the trace
        if id(u.object) == outer[0]: unr.append(u.exc_value)
        else: LOG.append("UN:" + sexc(u.exc_value))
    sys.unraisablehook = hook
    box = [factory()]
    outer[0] = id(box[0])
    SELF[0] = weakref.ref(box[0]) if selfref else None
    try:
        with warnings.catch_warnings(record=True) as wl:
            warnings.simplefilter("always")
            for tok in hist:
                n0 = len(LOG)
                g = box[0]
                kind = tok[0]
                try:
                    if kind == "n":
                        r = "Y" + sval(g.send(None) if coro else next(g))
                    elif kind == "s":
                        r = "Y" + sval(g.send(parse_val(tok[1:])))
                    elif kind == "t":
                        p = tok[1:].split(":")
                        if p[0] == "V":
                            r = "Y" + sval(g.throw(ValueError))
                        else:
                            b = NONE if len(p) < 2 or p[1] == "N" else int(p[1])
                            r = "Y" + sval(g.throw(make_exc(int(p[0]), b)))
                    elif kind == "c":
                        g.close(); r = "N"
                    else:
                        g = None; del box[:]; gc.collect(0)
                        if unr: r = "U" + sexc(unr[0])
                        elif any("never awaited" in str(w.message) for w in wl): r = "W"
                        else: r = "N"
                except BaseException as e:
                    r = "E" + sexc(e)
                    e = None
                g = None
                out.append([r, LOG[n0:]])
                if kind == "d": break
            g = None; del box[:]
    finally:
        sys.unraisablehook = old
        SELF[0] = None
    return out

class CM(object):
    def __init__(self, tag, swallow=False): self.tag = tag; self.swallow = swallow
    def __enter__(self): LOG.append("enter%s" % self.tag); return self
    def __exit__(self, t, v, tb):
        LOG.append("exit%s:%s" % (self.tag, t.__name__ if t else "-")); return self.swallow and t is U0
class Y(object):
    """awaitable that suspends once with value v and evaluates to what is sent"""
    def __init__(self, v): self.v = v
    def __await__(self):
        x = yield self.v
        return x
def drive(aw):
    """run an awaitable of an async generator to completion (bouncing every suspension with None)"""
    try:
        v = aw.send(None)
        n = 0
        while True:
            LOG.append("susp:%s" % sval(v))
            n += 1
            if n > 50: raise RuntimeError("too many suspensions")
            v = aw.send(None)
    except StopIteration as e:
        return e.value
def run_async_history(factory, hist):
    del LOG[:]
    out = []
    unr = []
    old = sys.unraisablehook
    outer = [0]
    def hook(u):
        if id(u.object) == outer[0]: unr.append(u.exc_value)
        else: LOG.append("UN:" + sexc(u.exc_value))
    sys.unraisablehook = hook
    box = [factory()]
    outer[0] = id(box[0])
    try:
        for tok in hist:
            n0 = len(LOG)
            g = box[0]
            kind = tok[0]
            try:
                if kind == "n": r = "Y" + sval(drive(g.__anext__()))
                elif kind == "s": r = "Y" + sval(drive(g.asend(parse_val(tok[1:]))))
                elif kind == "t":
                    p = tok[1:].split(":")
                    b = NONE if len(p) < 2 or p[1] == "N" else int(p[1])
                    r = "Y" + sval(drive(g.athrow(make_exc(int(p[0]), b))))
                elif kind == "c":
                    drive(g.aclose()); r = "N"
                else:
                    g = None; del box[:]; gc.collect(0)
                    r = ("U" + sexc(unr[0])) if unr else "N"
            except BaseException as e:
                r = "E" + sexc(e); e = None
            g = None
            out.append([r, LOG[n0:]])
            if kind == "d": break
        g = None; del box[:]
    finally:
        sys.unraisablehook = old
    return out

def _tok_exc(body):
    p = body.split(":")
    b = NONE if len(p) < 2 or p[1] == "N" else int(p[1])
    return make_exc(int(p[0]), b)
def run_ag_history(factory, hist):
    # async generator driven through its awaitable objects.  Tokens: H (first: install asyncgen hooks),
    # A<slot><kind> new awaitable (kind n | s<v> | t<cls>[:v] | c) in a slot, S<slot><v> send, I<slot> next(),
    # X<slot><cls>[:v] throw, C<slot> close, D<slot> drive with send(None) until the awaitable finishes (<= 8
    # suspensions), d drop every reference.  Per op: [result|r<ag_running>, log slice]
    del LOG[:]
    out = []
    unr = []
    old = sys.unraisablehook
    oldh = sys.get_asyncgen_hooks()
    outer = [0]
    def hook(u):
        if id(u.object) == outer[0]: unr.append(u.exc_value)
        else: LOG.append("UN:" + sexc(u.exc_value))
    sys.unraisablehook = hook
    if hist and hist[0] == "H":
        sys.set_asyncgen_hooks(firstiter=lambda g: LOG.append("FI"), finalizer=lambda g: LOG.append("FZ"))
        hist = hist[1:]
        out.append(["H", []])
    box = [factory()]
    outer[0] = id(box[0])
    slots = {}
    try:
        with warnings.catch_warnings(record=True) as wl:
            warnings.simplefilter("always")
            for tok in hist:
                n0 = len(LOG)
                g = box[0]
                kind = tok[0]
                aw = None
                try:
                    if kind == "A":
                        what = tok[2:]
                        if what == "n": aw = g.__anext__()
                        elif what[0] == "s": aw = g.asend(parse_val(what[1:]))
                        elif what[0] == "t": aw = g.athrow(_tok_exc(what[1:]))
                        else: aw = g.aclose()
                        slots[int(tok[1])] = aw
                        r = "A"
                    elif kind == "d":
                        aw = None; g = None; slots.clear(); del box[:]; gc.collect(0)
                        if unr: r = "U" + sexc(unr[0])
                        elif any("never awaited" in str(w.message) for w in wl): r = "W"
                        else: r = "N"
                    else:
                        aw = slots.get(int(tok[1]))
                        if aw is None: r = "-"
                        elif kind == "S": r = "Y" + sval(aw.send(parse_val(tok[2:])))
                        elif kind == "I": r = "Y" + sval(next(aw))
                        elif kind == "X": r = "Y" + sval(aw.throw(_tok_exc(tok[2:])))
                        elif kind == "C":
                            aw.close(); r = "N"
                        else:
                            n = 0
                            while n < 8:
                                v = aw.send(None)
                                LOG.append("susp:" + sval(v)); n += 1
                            r = "M"
                except BaseException as e:
                    r = "E" + sexc(e); e = None
                aw = None
                if box: r += "|r%d" % bool(g.ag_running)
                g = None
                out.append([r, LOG[n0:]])
                if kind == "d": break
            slots.clear(); g = None; del box[:]
    finally:
        sys.unraisablehook = old
        sys.set_asyncgen_hooks(*oldh)
    return out
'''

TBL = r'''# cython: language_level=3
import c23_support as S

def tblgen(T, k, gid, impl):
    rows = T[0]; probes = T[2]
    inp = None; isexc = False
    while True:
        S.LOG.append("%d:%d/%s" % (gid, k, S.sinput(inp, isexc)))
        if gid == 0 and k in probes:
            S.probe(probes[k])
        r = S.find(rows, k, S.in_cls(inp, isexc))
        if r is None:
            if isexc:
                raise inp
            return None
        tag, a, b = r
        if tag == 0:
            try:
                inp = yield S.val_of_spec(a, inp, isexc)
                isexc = False
            except BaseException as e:
                inp = e; isexc = True
            k = b
        elif tag == 1:
            try:
                inp = yield from S.mk(T, a, gid, impl, False)
                isexc = False
            except BaseException as e:
                inp = e; isexc = True
            k = b
        elif tag == 2:
            return S.val_of_spec(a, inp, isexc)
        else:
            raise S.exc_of_spec(a, b, inp, isexc)

async def tblcoro(T, k, gid, impl):
    rows = T[0]; probes = T[2]
    inp = None; isexc = False
    while True:
        S.LOG.append("%d:%d/%s" % (gid, k, S.sinput(inp, isexc)))
        if gid == 0 and k in probes:
            S.probe(probes[k])
        r = S.find(rows, k, S.in_cls(inp, isexc))
        if r is None:
            if isexc:
                raise inp
            return None
        tag, a, b = r
        if tag == 1:
            try:
                inp = await S.mk(T, a, gid, impl, True)
                isexc = False
            except BaseException as e:
                inp = e; isexc = True
            k = b
        elif tag == 2:
            return S.val_of_spec(a, inp, isexc)
        else:
            raise S.exc_of_spec(a, b, inp, isexc)

async def tblagen(T, k, gid, impl):
    rows = T[0]
    inp = None; isexc = False
    while True:
        S.LOG.append("%d:%d/%s" % (gid, k, S.sinput(inp, isexc)))
        r = S.find(rows, k, S.in_cls(inp, isexc))
        if r is None:
            if isexc:
                raise inp
            return
        tag, a, b = r
        if tag == 0:
            try:
                inp = yield S.val_of_spec(a, inp, isexc)
                isexc = False
            except BaseException as e:
                inp = e; isexc = True
            k = b
        elif tag == 1:
            try:
                inp = await S.mk(T, a, gid, impl, True)
                isexc = False
            except BaseException as e:
                inp = e; isexc = True
            k = b
        elif tag == 2:
            return
        else:
            raise S.exc_of_spec(a, b, inp, isexc)
'''

DRIVER = r'''
import sys, json, importlib.util, importlib.machinery
import c23_support as S
spec = json.load(sys.stdin)
mods = {}
for name in spec["modules"]:
    cy = __import__(name)
    assert cy.__file__.endswith(".so"), cy.__file__
    sp = importlib.util.spec_from_file_location(name + "_py", name + ".pyx",
            loader=importlib.machinery.SourceFileLoader(name + "_py", name + ".pyx"))
    py = importlib.util.module_from_spec(sp); sp.loader.exec_module(py)
    mods[name] = (cy, py)
tc, tp = mods["c23_tbl"]
S.REG["cyg"] = tc.tblgen; S.REG["pyg"] = tp.tblgen
S.REG["cyc"] = tc.tblcoro; S.REG["pyc"] = tp.tblcoro
out = {"tbl": [], "st": [], "ag": []}
for case in spec.get("atables", []):
    rows = {(r[0], r[1]): (r[2], r[3], r[4]) for r in case["rows"]}
    T = (rows, case["subs"], {})
    res = []
    for h in case["hists"]:
        pair = []
        for impl, f in (("cy", tc.tblagen), ("py", tp.tblagen)):
            try:
                pair.append(S.run_ag_history(lambda: f(T, case["k0"], 0, impl), h))
            except BaseException as e:
                pair.append([["HARNESS " + repr(e), []]])
        res.append(pair)
    out["ag"].append(res)
for case in spec["tables"]:
    rows = {(r[0], r[1]): (r[2], r[3], r[4]) for r in case["rows"]}
    T = (rows, case["subs"], {int(k): v for k, v in case["probes"].items()})
    coro = case["coro"]; k0 = case["k0"]
    res = []
    for h in case["hists"]:
        pair = []
        for impl in ("cy", "py"):
            f = S.REG[impl + ("c" if coro else "g")]
            try:
                pair.append(S.run_history(lambda: f(T, k0, 0, impl), h, coro=coro, selfref=bool(T[2])))
            except BaseException as e:
                pair.append([["HARNESS " + repr(e), []]])
        res.append(pair)
    out["tbl"].append(res)
for case in spec["structured"]:
    cy, py = mods[case["module"]]
    res = []
    for fn, kind, h in case["runs"]:
        pair = []
        for m in (cy, py):
            f = getattr(m, fn)
            try:
                if kind == "A":
                    pair.append(S.run_ag_history(f, h))
                elif kind == "a":
                    pair.append(S.run_async_history(f, h))
                else:
                    pair.append(S.run_history(f, h, coro=(kind == "c")))
            except BaseException as e:
                pair.append([["HARNESS " + repr(e), []]])
        res.append(pair)
    out["st"].append(res)
print(json.dumps(out))
'''


# ----------------------------------------------------------------------------- generators
def gen_table(rng, coro):
    n = rng.randint(2, 5)
    labels = list(range(n))
    slabels = [100 + i for i in range(rng.randint(1, 3))]
    subs = []
    # sub-iterator pool
    for _ in range(rng.randint(1, 4)):
        kind = rng.choice([0, 1, 1, 2, 3, 3])
        if kind == 0:
            subs.append([0, 0, 0, [rng.choice([NONE, 5, 6, 8]) for _ in range(rng.randint(0, 3))]])
        elif kind == 3:
            subs.append([3, rng.choice(slabels), rng.choice([0, 1, 2, 3, 4, 5, 6, 7, 7]), []])
        else:
            subs.append([kind, rng.randint(1, n), 0, []])     # k0 may equal n: a body with no rows (returns at once)
    rows = []
    incls_all = [0, 1, 2, 3, 10, 11, 7, 4, -1]

    def val(k):
        return rng.choice([k * 10 + rng.randint(0, 3), RECV, NONE, 7])

    def exc():
        return rng.choice([[-2, 0], [2, 0], [3, NONE], [3, rng.randint(1, 4)], [10, 0], [11, 0], [-2, 0]])

    for k in labels:
        cls = set(rng.sample(incls_all, rng.randint(1, 5)))
        if k == 0:
            cls.add(0)
        if rng.random() < 0.6:
            cls.add(2)
        for c in sorted(cls):
            kinds = ["F", "F", "R", "X"] if coro else ["Y", "Y", "Y", "F", "F", "R", "X"]
            t = rng.choice(kinds)
            if t == "F":
                # nested generators only where GeneratorExit cannot arrive: a finaliser that spawns
                # a new suspended generator recurses without bound (C stack overflow in compiled code)
                ok = [i for i, s in enumerate(subs) if s[0] in (0, 3) or (s[1] > k and c not in (2, -1))]
                if not ok or k == n - 1 and rng.random() < 0.5:
                    t = "R" if coro else "Y"
            if t == "Y":
                rows.append([k, c, 0, val(k), rng.choice(labels)])
            elif t == "F":
                rows.append([k, c, 1, rng.choice(ok), rng.randint(k + 1, n)])
            elif t == "R":
                rows.append([k, c, 2, val(k), 0])
            else:
                e = exc()
                rows.append([k, c, 3, e[0], e[1]])
    for k in slabels:
        for c in sorted(set(rng.sample([0, 1, 2, 3, 10, 20, 20, -1], rng.randint(1, 5)))):
            t = rng.choice(["Y", "Y", "Y", "R", "X"])
            if t == "Y":
                rows.append([k, c, 0, val(k), rng.choice(slabels)])
            elif t == "R":
                rows.append([k, c, 2, val(k), 0])
            else:
                e = exc()
                if c == 20 and e[0] == -2:
                    e = [10, 0]
                rows.append([k, c, 3, e[0], e[1]])
    probes = {}
    if rng.random() < 0.15:
        probes[str(rng.choice(labels))] = rng.choice(["n", "s", "t", "c"])
    return {"rows": rows, "subs": subs, "probes": probes, "coro": coro, "k0": 0}


OPS = ["n", "n", "n", "sN", "s7", "s7", "t2", "t3:5", "t3:N", "t10", "t11", "c", "c", "d"]


def gen_history(rng, maxlen, coro=False):
    ln = rng.randint(1, maxlen)
    h = []
    for i in range(ln):
        o = rng.choice(OPS)
        h.append(o)
        if o == "d":
            break
    return h


# ---- async generators driven through their awaitables ----------------------
AKINDS = ["n", "n", "n", "n", "sN", "s7", "s7", "t10", "t11", "t2", "t3:5", "t8", "c", "c", "c", "c"]
XKINDS = ["10", "11", "2", "2", "3:5", "3:N", "8"]


def gen_atable(rng):
    """step table of an async generator body: async yield / await a sub-awaitable / return / raise per
    (label, input class); GeneratorExit, StopAsyncIteration and StopIteration rows are favoured"""
    n = rng.randint(2, 5)
    labels = list(range(n))
    slabels = [100 + i for i in range(rng.randint(1, 2))]
    subs = []
    for _ in range(rng.randint(1, 3)):
        if rng.random() < 0.4:
            subs.append([0, 0, 0, [rng.choice([NONE, 5, 6, 8]) for _ in range(rng.randint(0, 2))]])
        else:
            subs.append([3, rng.choice(slabels), rng.choice([0, 1, 2, 3, 4, 5, 6, 7, 7, 7]), []])
    rows = []
    incls_all = [0, 1, 2, 2, 3, 8, 10, 11, 4, -1]

    def val(k):
        return rng.choice([k * 10 + rng.randint(0, 3), RECV, NONE, 7])

    def exc():
        return rng.choice([[-2, 0], [-2, 0], [2, 0], [3, NONE], [3, rng.randint(1, 4)], [8, 0], [8, 0], [10, 0], [11, 0]])

    for k in labels:
        cls = set(rng.sample(incls_all, rng.randint(1, 5)))
        if k == 0:
            cls.add(0)
        if rng.random() < 0.7:
            cls.add(2)
        for c in sorted(cls):
            t = rng.choice(["Y", "Y", "Y", "Y", "F", "F", "R", "X"])
            if t == "Y":
                rows.append([k, c, 0, val(k), rng.choice(labels)])
            elif t == "F":
                rows.append([k, c, 1, rng.randrange(len(subs)), rng.randint(k + 1, n)])   # forward only: progress
            elif t == "R":
                rows.append([k, c, 2, NONE, 0])
            else:
                e = exc()
                rows.append([k, c, 3, e[0], e[1]])
    for k in slabels:
        for c in sorted(set(rng.sample([0, 0, 1, 2, 2, 3, 8, 10, 20, 20, -1], rng.randint(1, 5)))):
            t = rng.choice(["Y", "Y", "Y", "R", "X"])
            if t == "Y":
                rows.append([k, c, 0, val(k), rng.choice(slabels)])
            elif t == "R":
                rows.append([k, c, 2, val(k), 0])
            else:
                e = exc()
                if c == 20 and e[0] == -2:
                    e = [10, 0]
                rows.append([k, c, 3, e[0], e[1]])
    return {"rows": rows, "subs": subs, "k0": 0}


def gen_ahistory(rng, maxlen):
    """operations on the generator (anext/asend/athrow/aclose driven to completion) mixed with the single
    steps of up to three awaitables held at the same time"""
    h = ["H"] if rng.random() < 0.2 else []
    low = rng.choice([0.0, 0.3, 0.6, 1.0])
    for _ in range(rng.randint(1, maxlen)):
        if rng.random() >= low:
            h += ["A0" + rng.choice(AKINDS), "D0"]
            continue
        j = rng.choice("001")
        if rng.random() < 0.15:
            j = "2"
        c = rng.random()
        if c < 0.34:
            h.append("A" + j + rng.choice(AKINDS))
        elif c < 0.62:
            h.append("S" + j + "N")
        elif c < 0.68:
            h.append("S" + j + "7")
        elif c < 0.74:
            h.append("I" + j)
        elif c < 0.86:
            h.append("X" + j + rng.choice(XKINDS))
        elif c < 0.92:
            h.append("C" + j)
        elif c < 0.98:
            h.append("D" + j)
        else:
            h.append("d")
            break
    return h


# ---- structured bodies -----------------------------------------------------
class BodyGen(object):
    def __init__(self, rng, kind, nfun):
        self.rng, self.kind, self.nfun = rng, kind, nfun      # kind g | c | a
        self.tag = 0
        self.kinds = []

    def L(self, what):
        self.tag += 1
        return "S.LOG.append('%s%d')" % (what, self.tag)

    def yield_stmt(self, ind):
        r = self.rng
        v = r.randint(1, 9)
        self.tag += 1
        if self.kind == "c":
            e = "await S.Y(%d)" % v
        else:
            e = "yield %d" % v
        if self.kind == "a" and r.random() < 0.4:
            e = "await S.Y(%d)" % v
        return [ind + "x = %s" % e, ind + "S.LOG.append('got%d:%%s' %% S.sval(x))" % self.tag]

    def delegate_stmt(self, ind, idx):
        r = self.rng
        self.tag += 1
        cands = ["iter([1, 2])", "iter([])", "S.SCR[%d](({(0, 0): (0, 4, 0), (0, 2): (3, -2, 0), (0, 20): (0, 0, 0)}, [], {}), 0)" % r.choice([0, 1, 2, 4, 7])]
        cands += ["f%d()" % j for j in self.same_kind] * 3
        src = r.choice(cands)
        if self.kind == "g":
            e = "yield from " + src
        elif self.kind == "c":
            if src.startswith("iter"):
                src = "S.Aw(%s)" % src
            e = "await " + src
        else:
            return self.yield_stmt(ind)
        return [ind + "x = %s" % e, ind + "S.LOG.append('yf%d:%%s' %% S.sval(x))" % self.tag]

    def block(self, ind, depth, idx, budget):
        r = self.rng
        out = []
        for _ in range(r.randint(1, 3)):
            if budget[0] <= 0:
                break
            budget[0] -= 1
            c = r.random()
            if c < 0.30 or depth >= 3:
                out += self.yield_stmt(ind)
            elif c < 0.42:
                out += self.delegate_stmt(ind, idx)
            elif c < 0.58:
                out += [ind + "try:"] + self.block(ind + "    ", depth + 1, idx, budget)
                out += [ind + "finally:", ind + "    " + self.L("fin")]
                if r.random() < 0.25:
                    out += self.yield_stmt(ind + "    ")
                if r.random() < 0.1:
                    out += [ind + "    return %d" % r.randint(20, 29)] if self.kind != "a" else []
            elif c < 0.76:
                exn = r.choice(["S.U0", "GeneratorExit", "StopIteration", "BaseException", "ValueError", "(S.U0, S.U1)", "Exception"])
                out += [ind + "try:"] + self.block(ind + "    ", depth + 1, idx, budget)
                out += [ind + "except %s as e:" % exn, ind + "    S.LOG.append('exc%d:' + type(e).__name__)" % self.tag]
                self.tag += 1
                h = r.random()
                if h < 0.3:
                    out += self.yield_stmt(ind + "    ")
                elif h < 0.45 and self.kind != "a":
                    out += [ind + "    return %d" % r.randint(30, 39)]
                elif h < 0.6:
                    out += [ind + "    raise"]
                elif h < 0.7:
                    out += [ind + "    raise S.U1()"]
                if r.random() < 0.3:
                    out += [ind + "else:", ind + "    " + self.L("else")]
            elif c < 0.84:
                out += [ind + "for i in range(%d):" % r.randint(1, 3)] + self.block(ind + "    ", depth + 1, idx, budget)
            elif c < 0.90:
                out += [ind + "with S.CM(%d, %s):" % (self.tag, r.choice(["False", "True"]))] + self.block(ind + "    ", depth + 1, idx, budget)
                self.tag += 1
            elif c < 0.94:
                out += [ind + "if x == 7:", ind + "    raise %s" % r.choice(["S.U0()", "StopIteration(4)", "StopIteration", "GeneratorExit"])]
            elif c < 0.97 and self.kind != "a":
                out += [ind + "if x is None:", ind + "    return %d" % r.randint(40, 49)]
            else:
                out += [ind + self.L("st")]
        if not out:
            out = [ind + "pass"]
        return out

    def function(self, idx, kind):
        self.kind = kind
        self.same_kind = [j for j, k in enumerate(self.kinds) if k == kind]
        self.kinds.append(kind)
        head = {"g": "def f%d():", "c": "async def f%d():", "a": "async def f%d():"}[self.kind] % idx
        body = ["    x = None", "    " + self.L("start")]
        body += self.block("    ", 0, idx, [self.rng.randint(3, 9)])
        if self.kind == "a" and not any("yield" in l for l in body):
            body += ["    yield 0"]
        if self.kind == "g" and not any("yield" in l for l in body):
            body += ["    yield 0"]
        if self.rng.random() < 0.3 and self.kind != "a":
            body += ["    return %d" % self.rng.randint(50, 59)]
        return [head] + body + [""]


def gen_structured_module(rng, nfun):
    bg = BodyGen(rng, "g", nfun)
    L = ["# cython: language_level=3", "import c23_support as S", ""]
    for i in range(nfun):
        L += bg.function(i, "gggcga"[i % 6])
    return "\n".join(L) + "\n", list(bg.kinds)


HAND = r'''# cython: language_level=3
import c23_support as S

def h_close_ret():
    try:
        yield 1
    except GeneratorExit:
        return 5
def h_first_send():
    x = yield 1
    y = yield x
    return y
def h_plain():
    yield 1
    yield 2
def h_finally():
    try:
        yield 1
        yield 2
    finally:
        S.LOG.append("fin")
def h_ignore():
    try:
        yield 1
    except GeneratorExit:
        yield 2
def h_inner():
    try:
        x = yield 1
        S.LOG.append("inner got %s" % S.sval(x))
        y = yield 2
        return 9
    finally:
        S.LOG.append("inner fin")
def h_outer():
    try:
        r = yield from h_inner()
        S.LOG.append("outer r %s" % S.sval(r))
        yield 3
    finally:
        S.LOG.append("outer fin")
def h_yf_list():
    try:
        r = yield from iter([1, 2, 3])
    except StopIteration as e:
        S.LOG.append("caught SI")
        r = -1
    S.LOG.append("r=%s" % S.sval(r))
    yield 4
def h_raise_si():
    yield 1
    raise StopIteration(3)
def h_nested_fin():
    try:
        try:
            yield 1
        finally:
            S.LOG.append("f1")
            yield 2
    finally:
        S.LOG.append("f2")
async def hc_simple():
    x = await S.Y(1)
    S.LOG.append("x=%s" % S.sval(x))
    try:
        y = await S.Y(2)
    finally:
        S.LOG.append("cfin")
    return 7
async def hc_outer():
    r = await hc_simple()
    S.LOG.append("r=%s" % S.sval(r))
    return r
async def ha_simple():
    try:
        x = yield 1
        S.LOG.append("x=%s" % S.sval(x))
        await S.Y(5)
        yield 2
    finally:
        S.LOG.append("afin")
async def ha_catch():
    try:
        yield 1
    except S.U0:
        yield 2
    except GeneratorExit:
        S.LOG.append("ge")
        raise
    yield 3
async def ha_stubborn():
    try:
        S.LOG.append("start")
        yield 1
    except GeneratorExit:
        S.LOG.append("ge")
        yield 2
    S.LOG.append("after")
    try:
        yield 3
    finally:
        S.LOG.append("fin")
async def ha_fin_await():
    try:
        yield 1
        yield 2
    finally:
        S.LOG.append("fin1")
        await S.Y(8)
        S.LOG.append("fin2")
async def ha_fin_yield():
    try:
        x = yield 1
        S.LOG.append("x=%s" % S.sval(x))
    finally:
        yield 9
async def ha_raise_sai():
    x = yield 1
    if x == 7:
        raise StopAsyncIteration
    try:
        yield 2
    except S.U0:
        raise StopIteration(3)
    except S.U1:
        return
    yield 4
async def ha_await_first():
    x = await S.Y(5)
    S.LOG.append("aw=%s" % S.sval(x))
    try:
        y = yield 1
        await S.Y(6)
    except GeneratorExit:
        S.LOG.append("ge")
        await S.Y(7)
        raise
    yield 2
'''
HAND_FUNCS = [("h_close_ret", "g"), ("h_first_send", "g"), ("h_plain", "g"), ("h_finally", "g"), ("h_ignore", "g"),
              ("h_inner", "g"), ("h_outer", "g"), ("h_yf_list", "g"), ("h_raise_si", "g"), ("h_nested_fin", "g"),
              ("hc_simple", "c"), ("hc_outer", "c"), ("ha_simple", "a"), ("ha_catch", "a"),
              ("ha_stubborn", "a"), ("ha_fin_await", "a"), ("ha_fin_yield", "a"), ("ha_raise_sai", "a"),
              ("ha_await_first", "a")]


# ----------------------------------------------------------------------------- encoding for the model
def enc_case(impl, case, hist, fx, depth=12):
    rows = ",".join(str(x) for r in case["rows"] for x in r) or "-"
    subs = "/".join(",".join(str(x) for x in [s[0], s[1], s[2]] + list(s[3])) for s in case["subs"]) or "-"
    return "run %s %d %s %d %d %s %s %s" % (impl, 1 if case["coro"] else 0, fx, depth, case["k0"], rows, subs,
                                            ",".join(hist) or "-")


def enc_acase(impl, case, hist, fx, av, depth=4):
    rows = ",".join(str(x) for r in case["rows"] for x in r) or "-"
    subs = "/".join(",".join(str(x) for x in [s[0], s[1], s[2]] + list(s[3])) for s in case["subs"]) or "-"
    return "arun %s %s %s %d %d %s %s %s" % (impl, fx, av, depth, case["k0"], rows, subs, ",".join(hist) or "-")


def amodel_trace(line, hist=()):
    """-> list of (result|r, first body resumption, suspension values, hook events) or None (out of fuel)"""
    if line.startswith("!"):
        return None
    out = []
    parts = line.split(";")
    for n, part in enumerate(parts):
        r, run, log, susp, ev = part.split("|")
        if not (n == len(parts) - 1 and hist and hist[-1] == "d"):
            r = r + "|" + run
        out.append((r, log.split("+")[0], tuple(x for x in susp.split("+") if x), tuple(x for x in ev.split("+") if x)))
    return out


def aimpl_view(trace):
    """compiled / CPython trace projected on what the model describes"""
    out = []
    for r, log in trace:
        if r == "H":
            continue
        out.append((r, ([e[2:] for e in log if e.startswith("0:")] + [""])[0],
                    tuple(e[5:] for e in log if e.startswith("susp:")),
                    tuple({"FI": "1", "FZ": "2"}[e] for e in log if e in ("FI", "FZ"))))
    return out


def model_trace(line):
    """-> list of (result, log-or-'') or None if the executable instance ran out of fuel"""
    if line.startswith("!"):
        return None
    out = []
    for part in line.split(";"):
        r, _, l = part.partition("|")
        out.append((r, l))
    return out


def impl_view(trace):
    """compiled/CPython trace projected on what the model describes: per op the result and the first
    resumption of the outer body (gid 0)"""
    out = []
    for r, log in trace:
        first = ""
        for ent in log:
            if ent.startswith("0:"):
                first = ent[2:]
                break
        out.append((r, first))
    return out


def flip(fx, i):
    return fx[:i] + "1" + fx[i + 1:]


def prefix_len(m, oracle):
    n = 0
    while m is not None and n < min(len(m), len(oracle)) and tuple(m[n]) == tuple(oracle[n]):
        n += 1
    return n


def classify_tbl_batch(model, items):
    """class of each table failure = the (first flag of the smallest set of) repaired model variant(s)
    that removes the FIRST divergence from CPython's trace.  items: [(case, hist, oracle_view)] -> [class]"""
    open_flags = [i for i in range(len(FX)) if FX[i] != "1"]
    sets = [(i,) for i in open_flags] + list(itertools.combinations(open_flags, 2)) + [tuple(open_flags)]
    variants = [FX]
    for st in sets:
        v = FX
        for i in st:
            v = flip(v, i)
        variants.append(v)
    nv = len(variants)
    lines = [enc_case("cy", case, hist, v) for case, hist, _ in items for v in variants]
    res = model.batch(lines)
    out = []
    for n, (case, hist, oracle_view) in enumerate(items):
        ms = [model_trace(x) for x in res[n * nv:(n + 1) * nv]]
        base = prefix_len(ms[0], oracle_view)
        klass = "trace_mismatch"
        for st, m in zip(sets, ms[1:]):
            if prefix_len(m, oracle_view) > base:
                klass = FX_NAMES[st[0]]
                break
        out.append(klass)
    return out


def classify_struct(hist, cy, py):
    """class of a structured-body failure from the history and the first diverging operation"""
    i = 0
    while i < min(len(cy), len(py)) and cy[i] == py[i]:
        i += 1
    if i >= len(hist):
        return "trace_mismatch"
    started = any(not r[0].startswith("E5:0") for r in py[:i])
    # (a class whose defect is repaired -- FX flag "1" -- is no longer a candidate)
    if FX[0] != "1" and not started and any(h[0] == "s" and h != "sN" for h in hist[:i]):
        return FX_NAMES[0]
    if FX[1] != "1" and not started and hist[i].startswith("t3"):
        return FX_NAMES[1]
    if FX[2] != "1" and hist[i] in ("c", "d") and i < len(cy) and cy[i][0] in ("E4:1", "U4:1") and py[i][0] == "N":
        return FX_NAMES[2]
    if FX[3] != "1" and i < len(cy) and i < len(py) and (hist[i].startswith("t3") or hist[i] in ("c", "t2")):
        return FX_NAMES[3]
    return "trace_mismatch"


# fixed async generator bodies whose short histories are enumerated exhaustively
FIXED_ATABLES = [
    # answers GeneratorExit with another yield ("ignored GeneratorExit"), then behaves
    {"rows": [[0, 0, 0, 1, 1], [1, 2, 0, 2, 2], [1, -1, 0, 3, 2], [2, 2, 2, NONE, 0], [2, 10, 3, -2, 0], [2, -1, 0, 4, 2]],
     "subs": [[0, 0, 0, []]], "k0": 0},
    # awaits before the first yield and inside the GeneratorExit handler
    {"rows": [[0, 0, 1, 0, 1], [1, -1, 0, 1, 2], [2, 2, 1, 1, 3], [2, -1, 0, 2, 2], [3, -1, 2, NONE, 0],
              [100, 0, 0, 1000, 101], [100, 2, 0, 1001, 101], [101, -1, 2, NONE, 0]],
     "subs": [[0, 0, 0, [5]], [3, 100, 7, []]], "k0": 0},
    # raises StopAsyncIteration / StopIteration / re-raises GeneratorExit / returns
    {"rows": [[0, 0, 0, 1, 1], [1, 1, 3, 8, 0], [1, 10, 3, 3, 5], [1, 2, 3, 2, 0], [1, 11, 2, NONE, 0], [1, -1, 0, 2, 1]],
     "subs": [[0, 0, 0, []]], "k0": 0},
]
FIXED_OPS = [["A0n", "D0"], ["A0s7", "D0"], ["A0t10", "D0"], ["A0t2", "D0"], ["A0c", "D0"], ["A1c"], ["S1N"], ["X111"], ["C1"]]


def fixed_histories(n):
    out = []
    for ln in range(1, n + 1):
        for combo in itertools.product(FIXED_OPS, repeat=ln):
            out.append([t for c in combo for t in c])
    return out


def classify_ag_batch(amodel, items):
    """class of an async-generator failure whose compiled trace agrees with the model of the code as it is:
    the first model variant flag (generator layer FX, async layer AV) whose CPython value removes the first
    divergence from CPython's trace.  items: [(case, hist, oracle_view)]"""
    singles = [("fx", i) for i in range(len(FX)) if FX[i] != "1"] + [("av", i) for i in range(len(AV)) if AV[i] != AV_PY[i]]
    cands = [(c,) for c in singles] + list(itertools.combinations(singles, 2)) + [tuple(singles)]
    variants = [(FX, AV)]
    for st in cands:
        fx, av = FX, AV
        for kind, i in st:
            if kind == "fx":
                fx = flip(fx, i)
            else:
                av = av[:i] + AV_PY[i] + av[i + 1:]
        variants.append((fx, av))
    nv = len(variants)
    lines = [enc_acase("cy", case, hist, fx, av) for case, hist, _ in items for fx, av in variants]
    res = amodel.batch(lines)
    out = []
    for n, (case, hist, oracle_view) in enumerate(items):
        ms = [amodel_trace(x, hist) for x in res[n * nv:(n + 1) * nv]]
        base = prefix_len(ms[0], oracle_view)
        klass = "trace_mismatch"
        for st, m in zip(cands, ms[1:]):
            if prefix_len(m, oracle_view) > base:
                kind, i = st[0]
                klass = FX_NAMES[i] if kind == "fx" else AV_NAMES[i]
                break
        out.append(klass)
    return out


def run_async_tables(ctx, quick, maxlen, structured):
    """async generators through their awaitables: three-way on table bodies"""
    rng = ctx.rng
    natab, nahist, nfix, ncrash = (110, 24, 3, 2) if quick else (500, 70, 4, 6)
    atables = []
    for i in range(natab):
        case = gen_atable(rng)
        hs = set()
        while len(hs) < nahist:
            hs.add(tuple(gen_ahistory(rng, maxlen)))
        case["hists"] = [list(h) for h in sorted(hs)]
        atables.append(case)
    for t in FIXED_ATABLES:
        case = dict(t)
        case["hists"] = fixed_histories(nfix) + [["H"] + h for h in fixed_histories(2)]
        case["fixed"] = True
        atables.append(case)
    amodel = ctx.model("asyncgen")
    lines = []
    for case in atables:
        for h in case["hists"]:
            lines.append(enc_acase("cy", case, h, FX, AV))
            lines.append(enc_acase("py", case, h, FX, AV_PY))
    mres = amodel.batch(lines)
    # histories on which the model of the code as it is predicts the death of the process are run apart
    li = 0
    crash = []
    mtr = []
    for case in atables:
        keep, km = [], []
        for h in case["hists"]:
            mcy, mpy = mres[li], mres[li + 1]
            li += 2
            if "E4:666" in mcy:
                crash.append((case, h, mcy))
            else:
                keep.append(h); km.append((mcy, mpy))
        case["hists"] = keep
        mtr.append(km)
    spec = {"modules": ["c23_tbl"], "tables": [], "structured": structured, "atables": atables}
    with open(os.path.join(ctx.workdir, "aspec.json"), "w") as f:
        json.dump(spec, f)
    res = cybuild.run_script(DRIVER, ctx.workdir, stdin_obj=spec, timeout=3000)
    if res["json"] is None:
        unit, ures = isolate_crash(ctx, spec)
        if unit is not None:
            ctx.fail("process_crash", unit, "rc=%s %s" % (ures["rc"], (ures["err"] or ures["out"])[-600:]),
                     "the history runs to completion as it does in CPython")
        else:
            ctx.corr_break("driver", "async driver", "rc=%s %s" % (res["rc"], (res["err"] or res["out"])[-1500:]), "driver runs")
        return None
    out = res["json"]
    nfuel = 0
    failing = []
    for case, cres, km in zip(atables, out["ag"], mtr):
        cinfo = {k: case[k] for k in ("rows", "subs", "k0")}
        for h, (cy, py), (lcy, lpy) in zip(case["hists"], cres, km):
            inp = {"atable": cinfo, "history": h}
            mcy, mpy = amodel_trace(lcy, h), amodel_trace(lpy, h)
            cyv, pyv = aimpl_view(cy), aimpl_view(py)
            low = any(t[0] in "SXCI" for t in h)
            two = len(set(t[1] for t in h if t[0] in "ASXCID" and len(t) > 1)) > 1
            stratum = "atbl/%s/%s%s%s" % ("fixed" if case.get("fixed") else "random", "steps" if low else "ops",
                                          "/interleaved" if two else "", "/hooks" if h[0] == "H" else "")
            ctx.case(stratum, inp, sig=(json.dumps(cinfo, sort_keys=True), tuple(h)), nontrivial=any(l for _, l in py))
            if mcy is None or mpy is None:
                nfuel += 1
                continue
            if any(r.startswith("HARNESS") for r, _ in cy + py):
                ctx.corr_break("agen:harness", inp, cy, py)
                continue
            tie = True
            if h[-1] == "d" and len(cy) == len(py) and cy[:-1] == py[:-1] and cy[-1][0] == "N" and py[-1][0] == "U8:" \
                    and cy[-1][1] == py[-1][1]:
                # CPython 3.12 gen_close(): a body that RETURNS on GeneratorExit makes gen_send_ex set
                # StopAsyncIteration, which gen_close does not clear -> reported as unraisable at finalisation.
                # Not modelled (py_close says None); the remaining steps are tied as usual.
                ctx.fail(QUIRK_CLOSE_RETURN, inp, cy, py)
                if cyv != mcy:
                    ctx.corr_break("agen:cy_world_op", inp, cyv, mcy)
                if pyv[:-1] != mpy[:-1]:
                    ctx.corr_break("agen:py_world_op(CPython)", inp, pyv, mpy)
                continue
            if cyv != mcy:
                ctx.corr_break("agen:cy_world_op", inp, cyv, mcy)
                tie = False
            if pyv != mpy:
                ctx.corr_break("agen:py_world_op(CPython)", inp, pyv, mpy)
            if cy != py:
                failing.append((case, h, pyv, inp, cy, py, tie))
    tied = [f for f in failing if f[6]]
    for klass, f in zip(classify_ag_batch(amodel, [f[:3] for f in tied]), tied):
        ctx.fail(klass, f[3], f[4], f[5])
    for f in failing:
        if not f[6]:
            ctx.fail("trace_mismatch", f[3], f[4], f[5])
    if nfuel:
        ctx.note("%d async table cases skipped: executable instance out of fuel" % nfuel)
    # predicted process deaths: the history up to the fatal step, each in its own process
    crash.sort(key=lambda c: len(c[1]))
    for case, h, mcy in crash[:ncrash]:
        k = len(mcy.split(";")) + (1 if h and h[0] == "H" else 0)
        hh = h[:k]
        one = {"modules": ["c23_tbl"], "tables": [], "structured": [],
               "atables": [{"rows": case["rows"], "subs": case["subs"], "k0": case["k0"], "hists": [hh]}]}
        r = cybuild.run_script(DRIVER, ctx.workdir, stdin_obj=one, timeout=300)
        inp = {"atable": {k2: case[k2] for k2 in ("rows", "subs", "k0")}, "history": hh}
        ctx.case("atbl/predicted_crash", inp, sig=(json.dumps(inp, sort_keys=True),))
        if r["json"] is None:
            ctx.fail(AV_NAMES[3], inp, "process died rc=%s" % r["rc"], "the awaitable suspends with the awaited value (CPython)")
        else:
            ctx.corr_break("agen:predicted_crash", inp, r["json"]["ag"][0][0][0], mcy)
    ctx.extra["async_predicted_crash_histories"] = len(crash)
    return out


def gen_ahistory_struct(rng, maxlen):
    """histories for structured async bodies (compiled vs CPython only): no throw()/close() on the awaitables
    (their version drift and the aclose().throw() crash are separated by the model on table bodies)"""
    return [t for t in gen_ahistory(rng, maxlen) if t[0] not in "XC"]


QUIRK_CLOSE_RETURN = "asyncgen_finalise_return_on_genexit_cpython312_unraisable"


def classify_astruct(h, cy, py):
    i = 0
    while i < min(len(cy), len(py)) and cy[i] == py[i]:
        i += 1
    if i >= len(cy) or i >= len(py) or i >= len(h):
        return "trace_mismatch"
    c, p_, tok = cy[i][0], py[i][0], h[i]
    if tok == "d" and c == "N" and p_ == "U8:" and cy[i][1] == py[i][1]:
        return QUIRK_CLOSE_RETURN
    started = any(e.startswith("start") for r in py[:i] for e in r[1])
    if FX[4] != "1" and tok == "d" and c == "W" and p_ == "N":
        return FX_NAMES[4]
    if AV[1] != "0" and c.startswith("E4:112") and p_.startswith("E4:12"):
        return AV_NAMES[1]
    if FX[1] != "1" and not started and tok[0] in "DSI" and c.startswith("E4:") and (p_.startswith("E3:") or p_.startswith("E8:")):
        j = max([n for n in range(i) if h[n][0] == "A" and h[n][1] == tok[1]] or [-1])
        if j >= 0 and h[j][2:].startswith(("t3", "t8")):
            return FX_NAMES[1]
    return "trace_mismatch"


def build_all(ctx, nmods, nfun):
    specs = [dict(name="c23_tbl", source=TBL + HAND.split("import c23_support as S", 1)[1], workdir=ctx.workdir,
                  cflags=["-O0"])]
    kinds = []
    for i in range(nmods):
        src, ks = gen_structured_module(ctx.rng, nfun)
        kinds.append(ks)
        specs.append(dict(name="c23_s%d" % i, source=src, workdir=ctx.workdir, cflags=["-O0"]))
    with open(os.path.join(ctx.workdir, "c23_support.py"), "w") as f:
        f.write(SUPPORT)
    built = cybuild.build_many(specs, jobs=6)
    ok = True
    for (so, err), sp in zip(built, specs):
        if err is not None:
            ctx.corr_break("build " + sp["name"], sp["name"], str(err)[:1500], "module builds")
            ok = False
    return ok, specs, kinds


def isolate_crash(ctx, spec):
    """bisect the (table, history) / (function, history) units of a spec whose worker died down to a single unit
    that still kills a fresh worker; returns (input description, worker result) or (None, None)"""
    units = [("tbl", i, j) for i, c in enumerate(spec["tables"]) for j in range(len(c["hists"]))]
    units += [("st", i, j) for i, c in enumerate(spec["structured"]) for j in range(len(c["runs"]))]

    def sub(us):
        tb, st = {}, {}
        for k, i, j in us:
            (tb if k == "tbl" else st).setdefault(i, []).append(j)
        tables = [dict(spec["tables"][i], hists=[spec["tables"][i]["hists"][j] for j in js]) for i, js in sorted(tb.items())]
        structured = [dict(spec["structured"][i], runs=[spec["structured"][i]["runs"][j] for j in js])
                      for i, js in sorted(st.items())]
        return {"modules": spec["modules"], "tables": tables, "structured": structured}

    def dies(us):
        r = cybuild.run_script(DRIVER, ctx.workdir, stdin_obj=sub(us), timeout=600)
        return r["json"] is None, r

    last = None
    while len(units) > 1:
        half = units[:len(units) // 2]
        d, r = dies(half)
        if d:
            units, last = half, r
            continue
        rest = units[len(units) // 2:]
        d, r = dies(rest)
        if not d:
            return None, None          # only the combination dies: not isolated
        units, last = rest, r
    if last is None:
        d, last = dies(units)
        if not d:
            return None, None
    k, i, j = units[0]
    if k == "tbl":
        c = spec["tables"][i]
        return {"table": {x: c[x] for x in ("rows", "subs", "probes", "coro", "k0")}, "history": c["hists"][j]}, last
    c = spec["structured"][i]
    fn, kind, h = c["runs"][j]
    return {"module": c["module"], "func": fn, "kind": kind, "history": h}, last


def run(ctx):
    quick = ctx.tier == "quick"
    maxlen = 6 if quick else 8
    ntab, nhist = (150, 40) if quick else (700, 90)
    nmods, nfun, nsh = (2, 18, 30) if quick else (8, 24, 80)
    ok, specs, kinds = build_all(ctx, nmods, nfun)
    if not ok:
        return
    rng = ctx.rng
    tables = []
    for i in range(ntab):
        case = gen_table(rng, coro=(i % 5 == 4))
        hs = set()
        while len(hs) < nhist:
            hs.add(tuple(gen_history(rng, maxlen)))
        case["hists"] = [list(h) for h in sorted(hs)]
        tables.append(case)
    structured = []
    runs = []
    for fn, kind in HAND_FUNCS:
        hs = set()
        for _ in range(nsh * 3):
            hs.add(tuple(gen_history(rng, maxlen)))
        runs += [[fn, kind, list(h)] for h in sorted(hs)]
        if kind == "a":
            hs = set()
            for _ in range(nsh * 3):
                hs.add(tuple(gen_ahistory_struct(rng, maxlen)))
            runs += [[fn, "A", list(h)] for h in sorted(hs) if h]
    structured.append({"module": "c23_tbl", "runs": runs})
    for i in range(nmods):
        runs = []
        for j in range(nfun):
            hs = set()
            for _ in range(nsh):
                hs.add(tuple(gen_history(rng, maxlen)))
            runs += [["f%d" % j, kinds[i][j], list(h)] for h in sorted(hs)]
            if kinds[i][j] == "a":
                hs = set()
                for _ in range(nsh):
                    hs.add(tuple(gen_ahistory_struct(rng, maxlen)))
                runs += [["f%d" % j, "A", list(h)] for h in sorted(hs) if h]
        structured.append({"module": "c23_s%d" % i, "runs": runs})
    spec = {"modules": [s["name"] for s in specs], "tables": tables, "structured": structured}
    with open(os.path.join(ctx.workdir, "spec.json"), "w") as f:
        json.dump(spec, f)
    res = cybuild.run_script(DRIVER, ctx.workdir, stdin_obj=spec, timeout=3000)
    if res["json"] is None:
        # the worker died (abort / segfault / hang inside compiled code): find one history that kills it
        unit, ures = isolate_crash(ctx, spec)
        if unit is not None:
            ctx.fail("process_crash", unit, "rc=%s %s" % (ures["rc"], (ures["err"] or ures["out"])[-600:]),
                     "the history runs to completion as it does in CPython")
        else:
            ctx.corr_break("driver", "driver", "rc=%s %s" % (res["rc"], (res["err"] or res["out"])[-1500:]), "driver runs")
        return
    out = res["json"]
    model = ctx.model("gen")
    # ---- tables: three-way
    lines = []
    for case in tables:
        for h in case["hists"]:
            lines.append(enc_case("cy", case, h, FX))
            lines.append(enc_case("py", case, h, FX))
    mres = model.batch(lines)
    probes = {tok: model.batch(["probe %d %s %s" % (c, FX, t)])[0]
              for tok, t, c in [("n", "n", 0), ("s", "s7", 0), ("t", "t10", 0), ("c", "c", 0)]}
    li = 0
    nfuel = 0
    failing = []
    for case, cres in zip(tables, out["tbl"]):
        cinfo = {k: case[k] for k in ("rows", "subs", "probes", "coro", "k0")}
        for h, (cy, py) in zip(case["hists"], cres):
            mcy, mpy = model_trace(mres[li]), model_trace(mres[li + 1])
            li += 2
            inp = {"table": cinfo, "history": h}
            cyv, pyv = impl_view(cy), impl_view(py)
            cyv, pyv = [tuple(x) for x in cyv], [tuple(x) for x in pyv]
            resumed = any(l for _, l in pyv)
            deleg = any(r[2] == 1 for r in case["rows"])
            stratum = "tbl/%s/%s%s" % ("coro" if case["coro"] else "gen", "deleg" if deleg else "plain",
                                       "/del" if h[-1] == "d" else "")
            ctx.case(stratum, inp, sig=(json.dumps(cinfo, sort_keys=True), tuple(h)), nontrivial=resumed)
            if mcy is None or mpy is None:
                nfuel += 1
                continue
            if any(r.startswith("HARNESS") for r, _ in cyv + pyv):
                ctx.corr_break("gen:harness", inp, cy, py)
                continue
            if cyv != mcy:
                ctx.corr_break("gen:cy_op", inp, cyv, mcy)
            if pyv != mpy:
                ctx.corr_break("gen:py_op(CPython)", inp, pyv, mpy)
            for tr in (cy, py):
                for _, log in tr:
                    for ent in log:
                        if ent.startswith("P:"):
                            tok, _, got = ent[2:].partition("=")
                            if got != probes[tok]:
                                ctx.corr_break("gen:running_probe", inp, ent, probes[tok])
            if cy != py:
                failing.append((case, h, pyv, inp, cy, py))
    for klass, (case, h, pyv, inp, cy, py) in zip(classify_tbl_batch(model, [f[:3] for f in failing]), failing):
        ctx.fail(klass, inp, cy, py)
    if nfuel:
        ctx.note("%d table cases skipped: executable instance out of fuel" % nfuel)
    # ---- structured: compiled vs CPython
    for case, cres in zip(structured, out["st"]):
        for (fn, kind, h), (cy, py) in zip(case["runs"], cres):
            inp = {"module": case["module"], "func": fn, "kind": kind, "history": h}
            resumed = any(log for _, log in py)
            ctx.case("struct/%s/%s" % ({"g": "gen", "c": "coro", "a": "asyncgen", "A": "asyncgen-awaitables"}[kind],
                                       "hand" if case["module"] == "c23_tbl" else "random"),
                     inp, sig=(case["module"], fn, tuple(h)), nontrivial=resumed)
            if any(r[0].startswith("HARNESS") for r in cy + py):
                ctx.corr_break("gen:harness", inp, cy, py)
                continue
            if cy != py:
                klass = classify_astruct(h, cy, py) if kind == "A" else classify_struct(h, cy, py)
                if case["module"] != "c23_tbl":
                    inp["source"] = source_of(ctx, case["module"], fn)
                ctx.fail(klass, inp, cy, py)


    run_async_tables(ctx, quick, maxlen, [])


def source_of(ctx, module, fn):
    try:
        txt = open(os.path.join(ctx.workdir, module + ".pyx")).read()
        i = txt.index("def %s(" % fn)
        i = txt.rfind("\n", 0, i) + 1
        j = txt.find("\ndef ", i + 1)
        j2 = txt.find("\nasync def ", i + 1)
        ends = [x for x in (j, j2) if x > 0]
        return txt[i:min(ends) if ends else len(txt)]
    except Exception:
        return ""


def replay(ctx, obj):
    inp = obj["input"]
    with open(os.path.join(ctx.workdir, "c23_support.py"), "w") as f:
        f.write(SUPPORT)
    specs = [dict(name="c23_tbl", source=TBL + HAND.split("import c23_support as S", 1)[1], workdir=ctx.workdir)]
    if "source" in inp:
        specs.append(dict(name="c23_r", source="# cython: language_level=3\nimport c23_support as S\n" + inp["source"],
                          workdir=ctx.workdir))
    cybuild.build_many(specs, jobs=3)
    spec = {"modules": [s["name"] for s in specs], "tables": [], "structured": []}
    if "atable" in inp:
        case = dict(inp["atable"]); case["hists"] = [inp["history"]]
        spec["atables"] = [case]
    elif "table" in inp:
        case = dict(inp["table"]); case["hists"] = [inp["history"]]
        spec["tables"].append(case)
    else:
        mod = "c23_r" if "source" in inp else inp["module"]
        spec["structured"].append({"module": mod, "runs": [[inp["func"], inp["kind"], inp["history"]]]})
    res = cybuild.run_script(DRIVER, ctx.workdir, stdin_obj=spec)
    print("replayed:", json.dumps(inp)[:600])
    print(" ->", json.dumps(res["json"])[:1500] if res["json"] else res["err"][-800:])
    print(" expected", json.dumps(obj.get("expected"))[:800])
