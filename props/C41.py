"""C41 — compiler directives apply exactly within their scope (DESIGN 7/C41)."""
import os, json, re, sys, codecs, unicodedata
import cybuild, framework

TITLE = "Compiler directives apply exactly within their scope"
EXTRACTS = ["Directives"]
RULE = ("directive strings: every directive of the running _directive_defaults/directive_types table in each valid "
        "spelling of its type (strict/relaxed booleans, enum members and aliases, encodings and codec aliases, "
        "integers with signs/underscores/Unicode digits, list appends, .all prefixes, whitespace/empty items) plus a "
        "malformed stream (missing '=', unknown names, wrong case, stray separators, non-ASCII), under "
        "relaxed_bool x ignore_unknown x current_settings; distinct by (flags, text). nestings: generated "
        "module/class/cdef class/def/nested def/with trees with random settings of cdivision, boundscheck, wraparound, "
        "binding, always_allow_keywords, overflowcheck at header/command-line/decorator/with level, a probe in every "
        "body, after every with block and in every sibling; distinct by (program, probe); placement matrix: for each "
        "directive with an observer (boundscheck, wraparound, cdivision, overflowcheck, nonecheck, infer_types, binding, "
        "always_allow_keywords, embedsignature, profile) every placement pattern (decorator on def / on def in class / in "
        "cdef class, on class, on cdef class, on outer def, depth 2, first-decorator-wins, with around def / class / "
        "statements / in class body, with in with, with in decorated def, each with an overriding inner setting and an "
        "untouched sibling) under none/option/header/both module-level settings, every def observed; distinct by "
        "(module, function or probe, observed directive); tables: every name of the running immediate set and every "
        "(directive, scope) pair against the documented tables; scope legality: every (directive, scope) pair of the "
        "running and documented directive_scopes tables compiled (quick: a sample plus every pair where they differ)")
EXPLANATION = ("theorems: parse_directive_value/list return exactly the documented value of the text or an error, "
               "for every code-point string, flag combination and type table (declarative last-assignment-wins "
               "characterisation of the list parser); the dict copied and updated while descending equals "
               "'innermost enclosing explicit legal setting, else header, else options, else default' for every "
               "tree, path and inherited directive; the transform's current dict is restored after every node and a "
               "probe's value depends only on its ancestors (no leak to siblings or outward); a setting illegal in "
               "its scope is reported and never applied (general + finite check over the generated table); the running "
               "immediate_decorator_directives equals the documented list of signature/type decorators, contains no "
               "behaviour directive and only scope-restricted ones, directive_scopes equals the documented placement "
               "table (finite, by computation over the dump), hence on the running tables every behaviour directive "
               "obeys the rule with an EMPTY immediate set (class/def decorators inherited by everything enclosed), and "
               "a decorated object always sees its own decorators while its contents do unless the directive is immediate. "
               "partial: CPython's int(), str.strip/lower and codecs lookup are modelled contracts compared "
               "differentially; the C code generated under a directive is observed by behaviour only.")
TRUSTED = ["CPython int(str), str.strip(), str.lower(), codecs.getdecoder: Gallina transcription of the documented "
           "contract (M_Directives.py_int/py_isspace/lower, codec oracle passed in), compared against the running "
           "interpreter (py_isspace and the lower() assumption exhaustively over all code points)",
           "tables Gen_Directives.v dumped from the running Options module (types introspected through closures)",
           "documented tables doc_immediate / doc_behaviour / doc_scopes in M_DirectivesDoc.v (hand-written from the docs "
           "and the comments of Options.py; the scope-legality oracle reads them through the extracted model)",
           "observers of the placement matrix (INT_MAX+1, attribute of a None-valued cdef-class variable, cython.typeof, "
           "__doc__, sys.setprofile call events), calibrated by the pattern that decorates the observed def directly",
           "behavioural observers of the generated code (-7//2, bytes index -1 / 4 on a never-hashed 4-byte object, "
           "type(f).__name__, f(ctx=...), type and length of a coerced char*)"]
ASSUMPTIONS = ["decorator/with arguments are compile-time literals of the directive's type (other forms are "
               "PostParseErrors, outside the model)", "LP64"]

HERE = os.path.dirname(os.path.abspath(__file__))
# model variant: 0 = the code as it is (value-less directive strings are stored as None);
# flip to 1 when proposed_fixes/C41-valueless_directive_string_parsed_to_None.diff is applied to /repo
STRICT = int(os.environ.get("C41_STRICT", "1"))

DUMP = r'''
import sys, json
import pyload; pyload.install()
from Cython.Compiler import Options
pyload.assert_sources()
def tdesc(t):
    if t is bool: return ["TBool"]
    if t is int: return ["TInt"]
    if t is str: return ["TStr"]
    if t is list: return ["TList"]
    if t is None: return ["TNoValue"]
    if t is Options.DEFER_ANALYSIS_OF_ARGUMENTS: return ["TDefer"]
    if t is Options.normalise_encoding_name: return ["TEncoding"]
    if t is type(None): return ["TDefer"]    # since f805503ef: same "cannot be set from a string" error as DEFER
    if isinstance(t, type): return ["TCallCrash", t.__name__]
    if callable(t) and getattr(t, "__code__", None) is not None and t.__code__.co_freevars == ("args", "map") \
            and t.__qualname__ == "one_of.<locals>.validate":
        cells = dict(zip(t.__code__.co_freevars, [c.cell_contents for c in t.__closure__]))
        return ["TEnum", list(cells["args"]), sorted((cells["map"] or {}).items())]
    raise SystemExit("unmodelled directive type %r" % (t,))
d = Options.get_directive_defaults()
allnames = sorted(set(d) | set(Options.directive_types) | set(Options.directive_scopes))
kept = Options.copy_inherited_directives({k: 1 for k in allnames})
SCOPES = ['module', 'function', 'class', 'cclass', 'cppclass', 'with statement']
scopes = []
for k, v in Options.directive_scopes.items():
    legal = [s for s in SCOPES if s in v]       # membership as the code evaluates it (v may be a plain string)
    if isinstance(v, tuple):
        assert sorted(legal) == sorted(set(v)), (k, v)
    scopes.append([k, legal])
out = {"defaults": [[k, v] for k, v in d.items()],
       "types": [[k, tdesc(t)] for k, t in Options.directive_types.items()],
       "scopes": scopes,
       "immediate": sorted(Options.immediate_decorator_directives),
       "non_inherited": [k for k in allnames if k not in kept]}
print(json.dumps(out))
'''


# ---------------------------------------------------------------- tables / Gen file
def dump_tables(ctx):
    t = getattr(ctx, "_c41_tables", None)
    if t is None:
        r = cybuild.run_script(DUMP, os.path.join(ctx.workdir, "dump"), name="dump_tables.py")
        if r["json"] is None:
            raise RuntimeError("table dump failed: %s" % (r["err"][-800:] or r["out"][-400:]))
        t = ctx._c41_tables = r["json"]
    return t


def nd_zeros():
    zs = []
    c = 0
    while c < 0x110000:
        if unicodedata.decimal(chr(c), None) == 0:
            assert all(unicodedata.decimal(chr(c + i), None) == i for i in range(10)), hex(c)
            zs.append(c)
            c += 10
        else:
            assert unicodedata.decimal(chr(c), None) is None, hex(c)
            c += 1
    return zs


def cq(s):
    assert all(ord(ch) < 128 for ch in s), s
    return '([%s]%%N (* %s *))' % ("; ".join(str(ord(ch)) for ch in s), s.replace("*", "x").replace("(", "<").replace(")", ">").replace('"', "'"))


def cval(v):
    if v is True: return "VBool true"
    if v is False: return "VBool false"
    if v is None: return "VNone"
    if isinstance(v, int): return "VInt (%d)%%Z" % v
    if isinstance(v, str): return "VStr %s" % cq(v)
    if isinstance(v, list): return "VList [%s]" % "; ".join(cq(x) for x in v)
    raise ValueError("unmodelled default value %r" % (v,))


def ctype(t):
    if t[0] == "TEnum":
        return "TEnum [%s] [%s]" % ("; ".join(cq(a) for a in t[1]), "; ".join("(%s, %s)" % (cq(a), cq(b)) for a, b in t[2]))
    return t[0]


GEN_TAIL = """
Definition g_digit := digit_from_zeros g_nd_zeros.
Definition g_names : list str := map fst g_defaults.
Definition g_py_int := py_int g_digit.
Definition g_parse_value (codec : list (str * N)) :=
  parse_directive_value g_types g_digit (codec_from_table codec).
Definition g_parse_list (strict : bool) (codec : list (str * N)) :=
  parse_directive_list g_types g_names g_digit (codec_from_table codec) strict.
Definition g_scope_ok := scope_ok g_scopes.
Definition g_visit_module := visit_module g_scopes g_immediate g_non_inherited g_defaults.
"""


def gen_text(t):
    L = ["(* generated by props/C41.py from the running Cython.Compiler.Options (do not edit) *)",
         "From Coq Require Import ZArith NArith List Bool.",
         "From CyVerif Require Import Model.M_Directives.", "Import ListNotations.",
         "Local Open Scope list_scope.", ""]
    L.append("Definition g_defaults : dict := [\n  %s ]." % ";\n  ".join("(%s, %s)" % (cq(k), cval(v)) for k, v in t["defaults"]))
    L.append("Definition g_types : list (str * dtype) := [\n  %s ]." % ";\n  ".join("(%s, %s)" % (cq(k), ctype(v)) for k, v in t["types"]))
    L.append("Definition g_scopes : list (str * list str) := [\n  %s ]." % ";\n  ".join(
        "(%s, [%s])" % (cq(k), "; ".join(cq(x) for x in v)) for k, v in t["scopes"]))
    L.append("Definition g_immediate : list str := [%s]." % "; ".join(cq(x) for x in t["immediate"]))
    L.append("Definition g_non_inherited : list str := [%s]." % "; ".join(cq(x) for x in t["non_inherited"]))
    L.append("Definition g_nd_zeros : list N := [%s]%%N." % "; ".join(str(z) for z in nd_zeros()))
    return "\n".join(L) + "\n" + GEN_TAIL


def pre_coq(ctx):
    txt = gen_text(dump_tables(ctx))
    p = os.path.join(framework.COQ, "theories", "Gen", "Gen_Directives.v")
    os.makedirs(os.path.dirname(p), exist_ok=True)
    if not os.path.exists(p) or open(p).read() != txt:
        with open(p, "w") as f:
            f.write(txt)



# ---------------------------------------------------------------- encodings for the model driver
def enc(s):
    return ",".join(str(ord(c)) for c in s) or "-"


def dec(t):
    return "" if t in ("-", "") else "".join(chr(int(x)) for x in t.split(","))


def enc_val(v):
    if v is True: return "B1"
    if v is False: return "B0"
    if v is None: return "N"
    if isinstance(v, int): return "I%d" % v
    if isinstance(v, str): return "S" + enc(v)
    if isinstance(v, list): return "L" + "|".join(enc(x) for x in v)
    raise ValueError(v)


def dec_val(t):
    k, r = t[0], t[1:]
    if k == "B": return r == "1"
    if k == "I": return int(r)
    if k == "S": return dec(r)
    if k == "N": return None
    if k == "L": return [dec(x) for x in r.split("|")] if r else []
    raise ValueError(t)


def enc_dict(d):
    items = d.items() if isinstance(d, dict) else d
    return ";".join("%s=%s" % (enc(k), enc_val(v)) for k, v in items) or "-"


def dec_dict(t):
    return {} if t == "-" else {dec(kv.split("=", 1)[0]): dec_val(kv.split("=", 1)[1]) for kv in t.split(";")}


def tag(v):            # JSON-safe typed value (True == 1 must stay distinguishable)
    if v is True or v is False: return ["B", int(v)]
    if v is None: return ["N"]
    if isinstance(v, int): return ["I", str(v)]
    if isinstance(v, str): return ["S", v]
    if isinstance(v, list): return ["L", [str(x) for x in v]]
    return ["?", repr(v)]


def tagd(d):
    return sorted([k, tag(v)] for k, v in d.items())


# ---------------------------------------------------------------- the documented mapping (property oracle)
REJECT = "REJECT"
_ASCII_DEC = codecs.getdecoder("ascii")
_UTF8_DEC = codecs.getdecoder("utf8")


def codec_class(e):
    try:
        d = codecs.getdecoder(e)
    except LookupError:
        return 0
    except Exception:
        return 3
    return 1 if d == _ASCII_DEC else (2 if d == _UTF8_DEC else 0)


def doc_value(T, name, text, relaxed, direct=False):
    """documented value of a directive text (docs 'Compiler directives' + the docstrings in Options.py),
    REJECT where no value is documented"""
    t = T["types"].get(name)
    if t is None or t[0] == "TNoValue":
        return None if direct else REJECT      # parse_directive_value docstring: "None is returned if the option does not exist"
    k = t[0]
    if k == "TBool":
        if text == "True": return True
        if text == "False": return False
        if relaxed and text.lower() in ("true", "yes"): return True
        if relaxed and text.lower() in ("false", "no"): return False
        return REJECT
    if k == "TInt":
        try:
            return int(text)
        except ValueError:
            return REJECT
    if k == "TStr":
        return text
    if k == "TEnum":
        v = dict(t[2]).get(text, text)
        return v if v in t[1] else REJECT
    if k == "TEncoding":
        if text == "": return ""
        low = text.lower()
        if low in ("utf8", "utf-8", "default"): return "utf8"
        if low in ("ascii", "us-ascii"): return "ascii"
        c = codec_class(text)
        return REJECT if c == 3 else ("ascii" if c == 1 else ("utf8" if c == 2 else text))
    return REJECT          # value-less decorators, deferred-argument directives, 'warn', list types: no string value


def doc_list(T, text, relaxed, ignore, cur):
    res = {k: (list(v) if isinstance(v, list) else v) for k, v in (cur or {}).items()}
    names = T["names"]
    for item in text.split(","):
        item = item.strip()
        if not item:
            continue
        if "=" not in item:
            return REJECT
        name, _, value = item.partition("=")
        name, value = name.strip(), value.strip()
        if name in names:
            if T["types"][name][0] == "TList":
                if name in res and not isinstance(res[name], list):
                    return REJECT
                res.setdefault(name, []).append(value)
            else:
                v = doc_value(T, name, value, relaxed)
                if v is REJECT:
                    return REJECT
                res[name] = v
        else:
            targets = [d for d in T["order"] if name.endswith(".all") and d.startswith(name[:-3])]
            if not targets and not ignore:
                return REJECT
            for d in targets:
                v = doc_value(T, d, value, relaxed)
                if v is REJECT:
                    return REJECT
                res[d] = v
    return res


PARSE_WORKER = r"""
import sys, json
import pyload; pyload.install()
from Cython.Compiler import Options
pyload.assert_sources()
def tag(v):
    if v is True or v is False: return ["B", int(v)]
    if v is None: return ["N"]
    if isinstance(v, int): return ["I", str(v)]
    if isinstance(v, str): return ["S", v]
    if isinstance(v, list): return ["L", [str(x) for x in v]]
    return ["?", repr(v)]
def untag(t):
    return {"B": lambda: bool(t[1]), "N": lambda: None, "I": lambda: int(t[1]), "S": lambda: t[1], "L": lambda: list(t[1])}[t[0]]()
out = []
for c in json.load(sys.stdin):
    try:
        if c["f"] == "list":
            cur = None if c["cur"] is None else {k: untag(v) for k, v in c["cur"]}
            r = Options.parse_directive_list(c["s"], relaxed_bool=c["relaxed"], ignore_unknown=c["ignore"], current_settings=cur)
            out.append({"ok": sorted([k, tag(v)] for k, v in r.items())})
        else:
            out.append({"ok": tag(Options.parse_directive_value(c["name"], c["s"], relaxed_bool=c["relaxed"]))})
    except BaseException as e:
        out.append({"exc": type(e).__name__, "msg": str(e)[:400]})
print(json.dumps(out))
"""

ERR_OF_EXC = [("EBadBool", "ValueError", r"^(.*) directive must be set to True or False, got "),
              ("EBadInt", "ValueError", r"^(.*) directive must be set to an integer, got "),
              ("EBadEnum", "ValueError", r"^(.*) directive must be one of \("),
              ("EExpectedEq", "ValueError", r'^Expected "=" in option "(.*)"$'),
              ("EUnknown", "ValueError", r'^Unknown option: "(.*)"$'),
              ("ENotSettable", "ValueError", r'^(.*) directive cannot be set from a string$')]


def impl_outcome(r):
    """-> ('ok', tagged) | ('err', kind, who)"""
    if "ok" in r:
        return ("ok", r["ok"])
    for kind, et, pat in ERR_OF_EXC:
        m = re.match(pat, r["msg"], re.S)
        if r["exc"] == et and m:
            return ("err", kind, m.group(1))
    if r["exc"] == "TypeError": return ("err", "ETypeError", None)
    if r["exc"] == "AssertionError": return ("err", "EAssertion", None)
    if r["exc"] == "AttributeError": return ("err", "EAttribute", None)
    if r["exc"] == "ValueError": return ("err", "ECodec", None)
    return ("err", r["exc"], None)


def model_outcome(line, is_list):
    if line.startswith("OK "):
        body = line[3:]
        return ("ok", tagd(dec_dict(body)) if is_list else tag(dec_val(body)))
    if line.startswith("ERR "):
        _, kind, who = line.split(" ", 2)
        return ("err", kind, dec(who))
    return ("bad", line)


WS = [" ", "  ", "\t", "\xa0", " ", "\x1c", "　", "\n"]


def gen_parse_cases(ctx, T):
    rng = ctx.rng
    quick = ctx.tier == "quick"
    L = []          # (stratum, dict case)

    def add_list(stratum, s, relaxed=None, ignore=None, cur=None):
        if any(0xD800 <= ord(c) < 0xE000 for c in s):
            return
        for rb in ([False, True] if relaxed is None else [relaxed]):
            for ig in ([False, True] if ignore is None else [ignore]):
                L.append((stratum, {"f": "list", "s": s, "relaxed": rb, "ignore": ig, "cur": cur}))

    def add_val(stratum, name, s, relaxed=None):
        for rb in ([False, True] if relaxed is None else [relaxed]):
            L.append((stratum, {"f": "value", "name": name, "s": s, "relaxed": rb}))

    bools = ["True", "False", "true", "yes", "NO", "fAlSe", "TRUE", "Yes", "on", "1", "0", "", "None", "Tru", "True1", "yes ", "Kes"]
    encs = ["", "ascii", "ASCII", "us-ascii", "US-ASCII", "utf8", "UTF-8", "utf-8", "default", "DeFault", "utf_8", "U8", "UTF",
            "latin-1", "646", "cp1252", "nosuch-enc", "utf–8", "utf 8", "a\x00b", "iso8859-1", "ansi_x3.4-1968", "utf-16", "K"]
    ints = ["12", "-3", "+4", "1_000", "1__0", "_1", "1_", " 7 ", "٣", "１２", "0x10", "1e3", "", "   ", "\x1c1", "1\x1c",
            "\x851", "1" * 4300, "1" * 4301, "0" * 4400, "1 2", "+-1", "- 1", "-0", "007", "0_7", "1\x00", "١_٢", "+", "-", "1_2_3", "²", "①"]
    valid_of = {}
    for name in T["order"]:
        t = T["types"][name]
        k = t[0]
        if k == "TBool":
            good, bad = ["True", "False"], bools[2:]
        elif k == "TEnum":
            good = list(t[1]) + [a for a, _ in t[2]]
            bad = [good[0].upper(), good[0] + "x", "", "None", " " + good[-1]]
        elif k == "TEncoding":
            good, bad = encs, []
        elif k == "TStr":
            good, bad = ["x", "", "a=b", "3", "3str", "café", "a b", "/full/path/to/module", "SOURCEFILE"], []
        elif k == "TInt":
            good, bad = ints, []
        elif k == "TList":
            good, bad = ["//FuncDefNode", "", "//a[@b = 'c']"], []
        else:
            good, bad = [], ["True", "", "x"]
        valid_of[name] = good
        for v in good:
            add_list("list/one-valid/" + k, "%s=%s" % (name, v))
        for v in bad:
            add_list("list/one-invalid/" + k, "%s=%s" % (name, v))
        v0 = (good or bad)[0]
        add_list("list/one-spaced/" + k, "%s%s%s=%s%s%s" % (rng.choice(WS), name, rng.choice(WS), rng.choice(WS), v0, rng.choice(WS)), relaxed=False)
        add_list("list/name-variant", "%s=%s" % (name.upper(), v0), relaxed=False)
        add_list("list/name-variant", "%s.=%s" % (name, v0), relaxed=False)
        add_list("list/no-equals", name, relaxed=False, ignore=False)
    # .all prefixes
    prefixes = sorted({n[:n.index(".")] for n in T["order"] if "." in n} | {"warn.deprecated", "x", "", "cdivision", "warn.all", "WARN"})
    for p in prefixes:
        for v in ["True", "False", "yes", "x", "c", ""]:
            add_list("list/dot-all", "%s.all=%s" % (p, v))
    # multi-item strings
    names = T["order"]
    for _ in range(120 if quick else 1500):
        n = rng.randrange(2, 6)
        items = []
        for _ in range(n):
            r = rng.random()
            if r < 0.62:
                nm = rng.choice(names)
                vs = valid_of[nm] or ["True"]
                it = "%s=%s" % (nm, rng.choice(vs))
            elif r < 0.72:
                it = ""
            elif r < 0.80:
                it = "%s.all=%s" % (rng.choice(prefixes), rng.choice(["True", "False", "no"]))
            elif r < 0.88:
                it = "%s=%s" % (rng.choice(names), rng.choice(bools + encs[:6]))
            elif r < 0.94:
                it = rng.choice(["unknown=1", "Boundscheck=True", "boundscheck", "=", "=True", "x.y=z", "cfunc=True", "final=True", "locals=x"])
            else:
                it = rng.choice(names)
            if rng.random() < 0.5:
                it = rng.choice(WS) + it.replace("=", rng.choice(WS) + "=" + rng.choice(WS), 1) + rng.choice(WS)
            items.append(it)
        add_list("list/multi", ",".join(items), relaxed=rng.random() < 0.5, ignore=rng.random() < 0.5)
    # repeated / conflicting assignments: the last one wins
    for _ in range(40 if quick else 300):
        nm = rng.choice([n for n in names if T["types"][n][0] == "TBool"])
        vals = [rng.choice(["True", "False"]) for _ in range(rng.randrange(2, 5))]
        add_list("list/repeated", ",".join("%s=%s" % (nm, v) for v in vals), relaxed=False, ignore=False)
    # current_settings (CmdLine passes a copy of the defaults; list types append to it)
    lname = [n for n in names if T["types"][n][0] == "TList"]
    cur1 = [["boundscheck", tag(False)], ["cdivision", tag(True)]] + [[n, tag(["old"])] for n in lname[:1]]
    for s in ["boundscheck=True", "wraparound=False,boundscheck=True", "%s=new" % (lname[0] if lname else "x"), "cdivision=maybe", "",
              "%s=a,%s=b" % ((lname[0],) * 2 if lname else ("x", "x")), "unknown=1,cdivision=False", "cdivision=False,unknown=1"]:
        add_list("list/current-settings", s, cur=cur1)
    add_list("list/current-settings", "%s=new" % (lname[0] if lname else "x"), cur=[[lname[0] if lname else "x", tag(True)]], relaxed=False, ignore=False)
    # malformed stream
    alpha = list("abcdefgilnorstuwxy") + list("._=,= ,TF\t") + ["\xa0", "é", "İ", "K", "True", "False", "boundscheck", "warn", ".all", "=", ","]
    for _ in range(250 if quick else 4000):
        s = "".join(rng.choice(alpha) for _ in range(rng.randrange(0, 14)))
        add_list("list/malformed", s, relaxed=rng.random() < 0.5, ignore=rng.random() < 0.5)
    for s in ["", " ", ",", ",,,", "=", "==", "a", "a=", "=a", " = ", "boundscheck=True,", ",boundscheck=True", "boundscheck=True;wraparound=False",
              "boundscheck:True", "boundscheck=True wraparound=False", "boundscheck=True=", "boundscheck==True", "callspec=a=b", "callspec=a,b"]:
        add_list("list/malformed-fixed", s)
    # parse_directive_value directly, every entry of directive_types
    for name, t in T["types"].items():
        vs = {"TBool": bools, "TInt": ints, "TEncoding": encs, "TStr": ["", "x", " y "]}.get(t[0])
        if vs is None:
            vs = ["True", "x", ""] + (list(t[1]) + [a for a, _ in t[2]] + [t[1][0].upper()] if t[0] == "TEnum" else [])
        for v in vs:
            add_val("value/" + t[0], name, v)
    for v in ["True", "x"]:
        add_val("value/unknown-name", "nonexisting", v)
    return L


def classify_parse(T, case):
    """failure class from the input alone"""
    if case["f"] == "list":
        kinds = set()
        for item in case["s"].split(","):
            nm = item.partition("=")[0].strip()
            t = T["types"].get(nm)
            if nm in T["names"] and t is not None and t[0] == "TNoValue":
                kinds.add("valueless_directive_string_parsed_to_None")
        if len(kinds) == 1:
            return kinds.pop()
        return "directive_list_wrong_value"
    return "directive_value_wrong"


def run_parse(ctx, T):
    model = ctx.model("directives")
    # --- CPython text primitives the model transcribes: exhaustive over all code points
    cps = sorted(set(range(0, 0x3100)) | {c for c in range(0x110000) if chr(c).isspace()} | {ctx.rng.randrange(0x110000) for _ in range(2000)})
    mres = model.batch(["space %d" % c for c in cps])
    bad = [c for c, m in zip(cps, mres) if (m == "1") != chr(c).isspace()]
    outside = [c for c in range(0x3100, 0x110000) if chr(c).isspace()]
    if bad or outside:
        ctx.corr_break("directives:py_isspace", {"codepoints": (bad + outside)[:10]}, "str.isspace", "py_isspace")
    low_bad = [c for c in range(128, 0x110000) if not (0xD800 <= c < 0xE000)
               and all(ord(x) < 128 for x in chr(c).lower()) and chr(c).lower() != "k"]
    lres = model.batch(["lower %s" % enc("".join(chr(c) for c in range(1, 128)))])[0]
    if low_bad or dec(lres) != "".join(chr(c) for c in range(1, 128)).lower():
        ctx.corr_break("directives:lower", {"codepoints": low_bad[:10]}, "str.lower", "lower (ASCII fold; non-ASCII never lowers into ASCII except U+212A -> k)")
    ctx.count("text-primitives/isspace+lower all code points", 0x110000, distinct_sigs=[("isspace", "exhaustive"), ("lower", "exhaustive")])
    ctx.extra.setdefault("exhaustive_domains", []).append("str.isspace / str.lower assumption: all 1114112 code points")
    # --- strip on sampled strings
    ss = ["".join(ctx.rng.choice(WS + ["a", "=", ","]) for _ in range(ctx.rng.randrange(0, 7))) for _ in range(200)]
    for s, m in zip(ss, model.batch(["strip %s" % enc(s) for s in ss])):
        ctx.case("text-primitives/strip", s, sig=("strip", s))
        if dec(m) != s.strip():
            ctx.corr_break("directives:strip", s, s.strip(), dec(m))
    # --- the parser
    cases = gen_parse_cases(ctx, T)
    r = cybuild.run_script(PARSE_WORKER, os.path.join(ctx.workdir, "parse"), stdin_obj=[c for _, c in cases], name="parse_worker.py")
    if r["json"] is None or len(r["json"]) != len(cases):
        ctx.corr_break("directives:parse-worker", "worker", (r["err"] or r["out"])[-600:], "one result per case")
        return
    mq = []
    for _, c in cases:
        texts = [it.partition("=")[2].strip() for it in c["s"].split(",")] + [c["s"]]
        codec = ";".join(sorted({"%s=%d" % (enc(t), codec_class(t)) for t in texts if t and codec_class(t)})) or "-"
        if c["f"] == "list":
            cur = enc_dict([(k, untag(v)) for k, v in c["cur"]]) if c["cur"] else "-"
            mq.append("pl %d %d %d %s %s %s" % (STRICT, c["relaxed"], c["ignore"], cur, enc(c["s"]), codec))
        else:
            mq.append("pv %d %s %s %s" % (c["relaxed"], enc(c["name"]), enc(c["s"]), codec))
    mres = model.batch(mq)
    nonvalue_errors = {}
    for (stratum, c), ir, ml in zip(cases, r["json"], mres):
        is_list = c["f"] == "list"
        inp = {k: v for k, v in c.items() if v is not None}
        ctx.case(stratum, inp, sig=(c["f"], c.get("name"), c["s"], c["relaxed"], c.get("ignore"), repr(c.get("cur"))))
        io, mo = impl_outcome(ir), model_outcome(ml, is_list)
        # tie: same value, or same error kind (and the same name in the message where there is one)
        same = (io[0] == mo[0] == "ok" and io[1] == mo[1]) or \
               (io[0] == mo[0] == "err" and io[1] == mo[1] and (io[2] is None or io[2] == mo[2]))
        if not same:
            ctx.corr_break("directives:" + ("parse_directive_list" if is_list else "parse_directive_value"), inp, ir, ml)
        # property: documented value or an error
        if is_list:
            cur = {k: untag(v) for k, v in c["cur"]} if c["cur"] else None
            d = doc_list(T, c["s"], c["relaxed"], c["ignore"], cur)
            exp = REJECT if d is REJECT else tagd(d)
        else:
            d = doc_value(T, c["name"], c["s"], c["relaxed"], direct=True)
            exp = REJECT if d is REJECT else tag(d)
        if io[0] == "ok" and io[1] != exp:
            ctx.fail(classify_parse(T, c), inp, ir, "an error" if exp is REJECT else {"documented": exp})
        if io[0] == "err" and io[1] in ("ETypeError", "EAssertion", "EAttribute"):
            nonvalue_errors[io[1]] = nonvalue_errors.get(io[1], 0) + 1
    if nonvalue_errors:
        ctx.note("rejections that are not ValueError (escape p_compiler_directive_comments / CmdLine as a traceback): %r" % nonvalue_errors)


def untag(t):
    return {"B": lambda: bool(t[1]), "N": lambda: None, "I": lambda: int(t[1]), "S": lambda: t[1], "L": lambda: list(t[1])}[t[0]]()


def tables(ctx):
    t = dump_tables(ctx)
    return {"types": dict((k, v) for k, v in t["types"]), "order": [k for k, _ in t["defaults"]],
            "names": {k for k, _ in t["defaults"]}, "defaults": dict((k, v) for k, v in t["defaults"]),
            "scopes": dict((k, v) for k, v in t["scopes"]), "immediate": set(t["immediate"]),
            "non_inherited": set(t["non_inherited"])}



# ---------------------------------------------------------------- nesting programs
SEM = ["cdivision", "boundscheck", "wraparound", "binding", "always_allow_keywords"]   # all bool, legal everywhere
PRELUDE = """cimport cython
CTX = (bytes(bytearray(b"abcd")), -7, 2)      # a never-hashed bytes object: the byte before its data is 0xFF
cdef bytes g_s = CTX[0]
cdef int g_a = -7, g_b = 2, g_i = -1, g_j = 4
OUT = {}
REG = []
def _kw(f, ctx):
    try:
        f(ctx=ctx)
        return True
    except TypeError:
        return False
def _cstr_raw():
    cdef char* c = b"ab\\xc3\\xa9"
    return c
def _cstr():
    try:
        r = _cstr_raw()
    except UnicodeDecodeError:
        return 'UnicodeDecodeError'
    return type(r).__name__ + ':' + str(len(r))
"""


def gen_tree(rng, depth, ctxkind, counter, budget, allow_x=True):
    """children list for a body of kind ctxkind ('M' module, 'F' function, 'C' class/cdef class)"""
    out = []
    n = rng.randrange(6, 10) if depth == 0 else (rng.randrange(2, 5) if depth < 3 else rng.randrange(1, 3))
    for _ in range(n):
        if budget[0] <= 0:
            break
        if ctxkind == "C":
            k = "F"
        else:
            k = rng.choice(["F", "F", "W", "W", "P"] + ((["C", "X"] if allow_x else ["C"]) if ctxkind == "M" else []))
        if depth >= 4 and k != "P":
            k = "P" if ctxkind != "C" else "F"
        budget[0] -= 1
        counter[0] += 1
        node = {"k": k, "id": counter[0], "sets": [], "ch": []}
        if k == "P":
            pass
        elif k == "W":
            node["sets"] = [[rng.choice(SEM), rng.random() < 0.5]]
            node["ch"] = gen_tree(rng, depth + 1, ctxkind, counter, budget, allow_x=False)   # no cdef class inside a with block
            if not node["ch"]:
                counter[0] += 1
                node["ch"] = [{"k": "P", "id": counter[0], "sets": [], "ch": []}]
        else:
            for _ in range(rng.choice([0, 1, 1, 2, 3])):
                node["sets"].append([rng.choice(SEM), rng.random() < 0.5])
            if rng.random() < 0.35:
                # the same directive given twice with opposite values: the decorator written first wins
                d2, v2 = rng.choice(SEM[:3]), rng.random() < 0.5
                node["sets"] = [x for x in node["sets"] if x[0] != d2]
                i1 = rng.randrange(len(node["sets"]) + 1)
                node["sets"].insert(i1, [d2, v2])
                node["sets"].insert(rng.randrange(i1 + 1, len(node["sets"]) + 1), [d2, not v2])
            inner = "F" if k == "F" else "C"
            node["ch"] = gen_tree(rng, depth + 1, inner, counter, budget) if depth < 4 else []
            if k == "F":
                counter[0] += 1
                node["ch"].insert(rng.randrange(len(node["ch"]) + 1), {"k": "P", "id": counter[0], "sets": [], "ch": []})
            elif not node["ch"]:
                counter[0] += 1
                node["ch"] = [{"k": "F", "id": counter[0], "sets": [], "ch": []}]
                counter[0] += 1
                node["ch"][0]["ch"] = [{"k": "P", "id": counter[0], "sets": [], "ch": []}]
        out.append(node)
        if k in ("W", "F", "C", "X") and ctxkind != "C" and rng.random() < 0.7 and budget[0] > 0:
            # a probe right after a with block / decorated sibling: nothing may leak out of it
            counter[0] += 1
            budget[0] -= 1
            out.append({"k": "P", "id": counter[0], "sets": [], "ch": []})
    return out


def emit(nodes, ind, ctxkind, L, rng, in_class=None):
    pad = "    " * ind
    for nd in nodes:
        k, i = nd["k"], nd["id"]
        if k == "P":
            v = ("g_s", "g_a", "g_b", "g_i", "g_j", "OUT") if ctxkind == "M" else ("s", "a", "b", "i", "j", "out")
            L += [pad + "try: _w = %s[%s]" % (v[0], v[3]), pad + "except IndexError: _w = 'E'",
                  pad + "try: _b = %s[%s]" % (v[0], v[4]), pad + "except IndexError: _b = 'E'",
                  pad + "%s['p%d'] = (%s // %s, _w, _b)" % (v[5], i, v[1], v[2])]
        elif k == "W":
            # chain of single-child with blocks may be written `with a, b:`
            items, cur = [nd], nd
            while len(cur["ch"]) == 1 and cur["ch"][0]["k"] == "W" and rng.random() < 0.5:
                cur = cur["ch"][0]
                items.append(cur)
            L.append(pad + "with %s:" % ", ".join("cython.%s(%s)" % (x["sets"][0][0], x["sets"][0][1]) for x in items))
            emit(cur["ch"], ind + 1, ctxkind, L, rng, in_class)
        elif k == "F":
            for n, v in nd["sets"]:
                L.append(pad + "@cython.%s(%s)" % (n, v))
            if ctxkind == "C":
                L.append(pad + "def f_%d(self, ctx):" % i)
            else:
                L.append(pad + "def f_%d(ctx):" % i)
            L += [pad + "    cdef bytes s = ctx[0]", pad + "    cdef int a = ctx[1], b = ctx[2], i = -1, j = 4", pad + "    out = {}"]
            emit(nd["ch"], ind + 1, "F", L, rng)
            L.append(pad + "    return out")
            if ctxkind == "M":
                L.append(pad + "REG.append(('func', %d, f_%d))" % (i, i))
            elif ctxkind == "F":
                L += [pad + "out['t%d'] = (type(f_%d).__name__, _kw(f_%d, ctx))" % (i, i, i), pad + "out.update(f_%d(ctx))" % i]
        else:
            for n, v in nd["sets"]:
                L.append(pad + "@cython.%s(%s)" % (n, v))
            L.append(pad + ("cdef class K_%d:" if k == "X" else "class K_%d:") % i)
            emit(nd["ch"], ind + 1, "C", L, rng, in_class=k)
            L.append(pad + "REG.append(('%s', %d, K_%d, %r))" % ("cclass" if k == "X" else "class", i, i, [c["id"] for c in nd["ch"]]))


RUN_PROG = r"""
import sys, json, importlib
name = sys.argv[1]
m = importlib.import_module(name)
out = {"probes": {}, "funcs": {}, "cstr": m._cstr()}
def kw(f):
    try:
        f(ctx=m.CTX); return True
    except TypeError:
        return False
out["probes"].update({k: list(v) for k, v in m.OUT.items()})
for ent in m.REG:
    if ent[0] == 'func':
        _, i, f = ent
        out["funcs"][str(i)] = [type(f).__name__, kw(f)]
        r = f(m.CTX)
    else:
        kind, i, K, ids = ent
        inst = K()
        r = {}
        for j in ids:
            raw = K.__dict__['f_%d' % j]
            out["funcs"][str(j)] = [type(raw).__name__, kw(getattr(inst, 'f_%d' % j))]
            r.update(getattr(inst, 'f_%d' % j)(m.CTX))
    for k, v in r.items():
        if k[0] == 'p': out["probes"][k] = list(v)
        else: out["funcs"][k[1:]] = list(v)
print(json.dumps(out))
"""


def spec_walk(nodes, env, parent_kind, acc):
    """property oracle: innermost enclosing explicit setting, else the module-level value.
    env: directive -> value in effect for the enclosing code."""
    for nd in nodes:
        k = nd["k"]
        if k == "P":
            acc["p%d" % nd["id"]] = dict(env)
            continue
        here = dict(env)
        if k == "W":
            for n, v in nd["sets"]:
                here[n] = v
        else:
            seen = set()
            for n, v in nd["sets"]:            # the decorator written first wins
                if n not in seen:
                    here[n] = v
                    seen.add(n)
            if k == "F":
                acc["f%d" % nd["id"]] = (dict(here), parent_kind)
        spec_walk(nd["ch"], here, k if k != "W" else parent_kind, acc)


def tokens(nodes):
    t = ["["]
    for nd in nodes:
        t += ["(", nd["k"], enc_dict([(n, v) for n, v in nd["sets"]]) if nd["sets"] else "-"] + tokens(nd["ch"]) + [")"]
    return t + ["]"]


def preorder(nodes, acc):
    for nd in nodes:
        acc.append(nd)
        preorder(nd["ch"], acc)
    return acc


CSTR_OPTS = [("bytes", ""), ("bytearray", ""), ("str", "utf8"), ("str", "ascii"), ("bytes", "utf8"), ("unicode", "default"), ("bytearray", "ascii")]


def gen_program(ctx, idx, T):
    rng = ctx.rng
    counter, budget = [0], [rng.randrange(70, 110)]
    body = gen_tree(rng, 0, "M", counter, budget)
    options, header = {}, {}
    for d in SEM:
        r = rng.random()
        if r < 0.35: options[d] = rng.random() < 0.5
        if rng.random() < 0.35: header[d] = rng.random() < 0.5
    # c_string_type / c_string_encoding: module-only; choose sources so that the effective pair is a usable one
    ct, ce = rng.choice(CSTR_OPTS)
    src_t, src_e = rng.choice(["opt", "hdr", "both"]), rng.choice(["opt", "hdr", "both"])
    other = rng.choice(CSTR_OPTS)
    if src_t in ("hdr", "both"): header["c_string_type"] = ct
    if src_t == "opt": options["c_string_type"] = ct
    if src_t == "both": options["c_string_type"] = other[0]
    if src_e in ("hdr", "both"): header["c_string_encoding"] = ce
    if src_e == "opt": options["c_string_encoding"] = ce
    if src_e == "both": options["c_string_encoding"] = other[1]
    hitems = ["%s=%s" % (k, v) for k, v in header.items()]
    rng.shuffle(hitems)
    cut = rng.randrange(len(hitems) + 1)
    hlines = [x for x in (", ".join(hitems[:cut]), ",".join(hitems[cut:])) if x]
    # two filler lines: PEP 263 reads "c_string_encoding=utf8" in the first two lines as a source-encoding cookie
    L = ["# generated by props/C41.py", "#"] + ["# cython: %s" % h for h in hlines] + [PRELUDE]
    emit(body, 0, "M", L, rng)
    return {"name": "c41_n%d" % idx, "source": "\n".join(L) + "\n", "options": options, "header_lines": hlines, "body": body}


def run_nesting(ctx, T):
    quick = ctx.tier == "quick"
    model = ctx.model("directives")
    progs = [gen_program(ctx, i, T) for i in range(3 if quick else 24)]
    mx_specs, mx_finish = run_matrix(ctx, T, None)
    wd = os.path.join(ctx.workdir, "nest")
    # command-line/cythonize options arrive as already-parsed values; enum/encoding options go through the same
    # normalisation as `cython -X` (parse_directive_list with relaxed_bool) in the oracle and in the model
    specs = []
    for p in progs:
        opts = dict(p["options"])
        if opts.get("c_string_type") == "unicode": opts["c_string_type"] = "str"
        if opts.get("c_string_encoding") == "default": opts["c_string_encoding"] = "utf8"
        p["options_parsed"] = opts
        specs.append(dict(name=p["name"], source=p["source"], workdir=wd, directives=opts))
    built = cybuild.build_many(mx_specs + specs, jobs=8)
    mx_finish(built[:len(mx_specs)])          # the placement matrix first: its failing inputs are the small ones
    built = built[len(mx_specs):]
    for p, (so, err) in zip(progs, built):
        inp = {"program": p["name"], "options": p["options"], "header": p["header_lines"]}
        if err is not None:
            ctx.corr_break("directives:build", inp, str(err)[-1200:] + "\n" + p["source"][-1500:], "module builds")
            continue
        r = cybuild.run_script(RUN_PROG, wd, name="run_prog.py", args=[p["name"]])
        if r["json"] is None:
            ctx.corr_break("directives:run", inp, (r["err"] or r["out"])[-1200:], "module runs")
            continue
        obs = r["json"]
        # ---- model: header text through the model's parse_directive_list, then visit_module
        hdr = {}
        for h in p["header_lines"]:
            ml = model.batch(["pl %d 0 1 - %s -" % (STRICT, enc(h))])[0]
            if not ml.startswith("OK "):
                ctx.corr_break("directives:header-parse", inp, h, ml)
            else:
                hdr.update(dec_dict(ml[3:]))
        q = SEM + ["c_string_type", "c_string_encoding"]
        line = "vm %s %s %s %s" % (enc_dict(p["options_parsed"]), enc_dict(hdr), ";".join(enc(x) for x in q), " ".join(tokens(p["body"])))
        mo = model.batch([line])[0].split(" ")
        if not mo[0].startswith("M:") or mo[-1] != "S:1" or mo[-2] != "R:":
            ctx.corr_break("directives:visit_module", inp, "accepted program", mo[-3:])
            continue
        mvals = [dict(zip(q, [dec_val(x) for x in mo[0][2:].split("~")]))]
        nodes = preorder(p["body"], [])
        mnode = {}
        for nd, tok in zip(nodes, mo[1:-2]):
            if tok.startswith("P:"):
                mnode["p%d" % nd["id"]] = dict(zip(q, [dec_val(x) for x in tok[2:].split("~")]))
            else:
                a, b = tok[2:].split("/")
                mnode["n%d" % nd["id"]] = (dict(zip(q, [dec_val(x) for x in a.split("~")])), dict(zip(q, [dec_val(x) for x in b.split("~")])))
        # ---- oracle: documented precedence
        env = {d: T["defaults"][d] for d in q}
        env.update(p["options_parsed"])
        norm = {"unicode": "str", "default": "utf8"}
        for h in p["header_lines"]:
            for it in h.split(","):
                n, v = [x.strip() for x in it.split("=")]
                env[n] = (v == "True") if n in SEM else norm.get(v, v)
        spec = {}
        spec_walk(p["body"], {d: env[d] for d in SEM}, "M", spec)
        # module level: c_string_*
        ctype, cenc = env["c_string_type"], env["c_string_encoding"]
        exp_c = {"bytes": "bytes:4", "bytearray": "bytearray:4"}.get(ctype) or ("str:3" if cenc == "utf8" else "UnicodeDecodeError")
        ctx.case("nesting/module c_string", inp, sig=(p["name"], "cstr"))
        mexp = mvals[0]
        m_c = {"bytes": "bytes:4", "bytearray": "bytearray:4"}.get(mexp["c_string_type"]) or ("str:3" if mexp["c_string_encoding"] == "utf8" else "UnicodeDecodeError")
        if obs["cstr"] != m_c:
            ctx.corr_break("directives:module c_string", inp, obs["cstr"], m_c)
        if obs["cstr"] != exp_c:
            ctx.fail("module_level_precedence", inp, obs["cstr"], exp_c)
        # probes
        for nd in nodes:
            i = nd["id"]
            if nd["k"] == "P":
                key = "p%d" % i
                o = obs["probes"].get(key)
                pin = dict(inp, probe=key)
                ctx.case("nesting/probe", pin, sig=(p["name"], key))
                if o is None:
                    ctx.corr_break("directives:probe-missing", pin, None, mnode[key])
                    continue
                # -7 // 2: -4 Python, -3 C;  s[-1] on b"abcd": 100 wraps, IndexError checked, 0xFF neither;
                # s[4]: IndexError checked, 0 (the terminator) unchecked
                got = {"cdivision": o[0] == -3, "wraparound": o[1] == 100, "boundscheck": o[2] == "E"}
                sane = o[0] in (-3, -4) and o[1] in (100, "E", 255) and o[2] in ("E", 0) and (o[1] != "E" or o[2] == "E")
                for d in ("cdivision", "wraparound", "boundscheck"):
                    if not sane or got[d] != mnode[key][d]:
                        ctx.corr_break("directives:effective " + d, pin, o, mnode[key][d])
                    if not sane or got[d] != spec[key][d]:
                        ctx.fail("effective_value_" + d, dict(pin, source=p["source"]), o, {d: spec[key][d]})
            elif nd["k"] == "F":
                o = obs["funcs"].get(str(i))
                env_f, parent = spec["f%d" % i]
                pin = dict(inp, func="f_%d" % i, parent=parent)
                ctx.case("nesting/function/" + parent, pin, sig=(p["name"], "f", i))
                if o is None:
                    ctx.corr_break("directives:func-missing", pin, None, "observed")
                    continue
                mnd = mnode["n%d" % i][0]
                # binding is observable on module-level defs and cdef-class methods (closures and methods of
                # Python classes are always CyFunctions); keyword acceptance on defs and cdef-class methods
                if parent in ("M", "X"):
                    gb = {"cython_function_or_method": True, "builtin_function_or_method": False, "method_descriptor": False}.get(o[0])
                    if gb != mnd["binding"]:
                        ctx.corr_break("directives:effective binding", pin, o, mnd["binding"])
                    if gb != env_f["binding"]:
                        ctx.fail("effective_value_binding", dict(pin, source=p["source"]), o, {"binding": env_f["binding"]})
                if parent in ("M", "F", "X"):
                    if o[1] != mnd["always_allow_keywords"]:
                        ctx.corr_break("directives:effective always_allow_keywords", pin, o, mnd["always_allow_keywords"])
                    if o[1] != env_f["always_allow_keywords"]:
                        ctx.fail("effective_value_always_allow_keywords", dict(pin, source=p["source"]), o, {"always_allow_keywords": env_f["always_allow_keywords"]})



# ---------------------------------------------------------------- placement matrix, every observable directive
# Observers (calibrated by the first pattern, a decorator written directly on the observed def):
#   statement level   : boundscheck s[4], wraparound s[-1], cdivision -7//2, overflowcheck INT_MAX+1, nonecheck None.attr
#   function body     : infer_types  (cython.typeof of `x = 1; x = x + 1` and of `x = 1.5`: None / True / False differ)
#   function object   : binding (type of the function object), always_allow_keywords (f(ctx=..)), embedsignature
#                       (__doc__), profile (sys.setprofile sees a call event)
MX_STMT = ["boundscheck", "wraparound", "cdivision", "overflowcheck", "nonecheck"]
MX_BODY = MX_STMT + ["infer_types"]
# parents under which the function-object observers react at all: M module, C Python class, X cdef class, F nested def
# (methods of Python classes are always CyFunctions accepting keywords; signatures are not embedded for nested defs)
MX_FUNC = {"binding": "MXF", "always_allow_keywords": "MXF", "embedsignature": "MCX", "profile": "MCXF"}
MX_ALL = MX_BODY + list(MX_FUNC)

MX_PRELUDE = """cimport cython
cdef class _NC:
    cdef public int x
CTX = (bytes(bytearray(b"abcd")), -7, 2, 2147483647, None)
REG = []
"""

RUN_MX = r"""
import sys, json, importlib
name = sys.argv[1]
m = importlib.import_module(name)
probes, funcs = {}, {}
def handle(i, raw, bound):
    seen = []
    def cb(frame, ev, arg):
        if ev == 'call': seen.append(frame.f_code.co_name)
    try:
        bound(ctx=m.CTX); kw = True
    except TypeError:
        kw = False
    sys.setprofile(cb)
    try:
        r = bound(m.CTX)
    finally:
        sys.setprofile(None)
    funcs[i] = [type(raw).__name__, kw, ('f_%s(' % i) in (raw.__doc__ or ''), ('f_%s' % i) in seen]
    for k, v in r.items():
        if k[0] == 'p': probes[k] = v
        else: handle(k[1:], v, v)
for ent in m.REG:
    if ent[0] == 'f':
        handle(str(ent[1]), ent[2], ent[2])
    else:
        inst = ent[2]()
        for j in ent[3]:
            handle(str(j), ent[2].__dict__['f_%d' % j], getattr(inst, 'f_%d' % j))
print(json.dumps({"probes": probes, "funcs": funcs}))
"""


def mx_node(k, sets=(), ch=(), obs=()):
    return {"k": k, "id": 0, "sets": [list(x) for x in sets], "ch": list(ch), "obs": list(obs)}


MX_QUICK = {"decorator on def", "decorator on def in cdef class", "decorator on class", "decorator on cdef class",
            "decorator on outer def", "first decorator wins", "with around def", "with around statements",
            "with in decorated def"}


def mx_patterns(d, v, extra, quick=False):
    """the placements of one directive setting d=v (nv = the opposite value): list of (name, forest);
    the quick tier keeps the MX_QUICK placements"""
    nv = not v
    S, N = [(d, v)], [(d, nv)]
    po = ([d] if d in MX_BODY else []) + [x for x in extra if x != d]

    def P(): return mx_node("P", obs=po)
    def F(sets=(), ch=()): return mx_node("F", sets, list(ch) + [P()])
    def C(sets=(), ch=()): return mx_node("C", sets, ch)
    def X(sets=(), ch=()): return mx_node("X", sets, ch)
    def W(sets, ch): return mx_node("W", sets, ch)
    pats = [
        ("decorator on def", [F(S), F()]),
        ("decorator on def in class", [C([], [F(S), F(), F(N)])]),
        ("decorator on def in cdef class", [X([], [F(S), F(), F(N)])]),
        ("decorator on class", [C(S, [F(), F(N), F()]), F()]),
        ("decorator on cdef class", [X(S, [F(), F(N), F()]), F()]),
        ("decorator on outer def", [F(S, [F(), F(N), F()]), F()]),
        ("decorator on class, def in def in class", [C(S, [F([], [F()])])]),
        ("decorator on cdef class, def in def in cdef class", [X(S, [F([], [F(N, [F()])])])]),
        ("first decorator wins", [F(S + N), X(N + S, [F()])]),
        ("with around def", [W(S, [F(), F(N)]), F()]),
        ("with around class", [W(S, [C([], [F()]), C(N, [F()])])]),
        ("with in class body", [C([], [W(S, [F()]), F()])]),
        ("with in with around def", [W(S, [W(N, [F()]), F()])]),
        ("decorator on def in with", [W(S, [F(N, [F()])])]),
    ]
    if d in MX_STMT:
        pats += [
            ("with around statements", [F([], [W(S, [P()]), P()])]),
            ("with in with around statements", [F([], [W(S, [W(N, [P()]), P()]), P()])]),
            ("with in decorated def", [F(S, [W(N, [P()]), P()])]),
            ("with around statements in method of decorated cdef class", [X(S, [F([], [W(N, [P()])])])]),
        ]
    return [x for x in pats if not quick or x[0] in MX_QUICK]


def mx_number(nodes, counter):
    for nd in nodes:
        counter[0] += 1
        nd["id"] = counter[0]
        mx_number(nd["ch"], counter)


def mx_methods(nodes):
    """ids of the defs of a class body (directly or inside with blocks)"""
    out = []
    for nd in nodes:
        if nd["k"] == "F": out.append(nd["id"])
        elif nd["k"] == "W": out += mx_methods(nd["ch"])
    return out


def mx_lit(v):
    return repr(v)


def emit_mx(nodes, ind, ctxkind, L):
    pad = "    " * ind
    for nd in nodes:
        k, i = nd["k"], nd["id"]
        if k == "P":
            items = []
            for o in nd["obs"]:
                if o == "cdivision":
                    items.append("'cdivision': a // b")
                elif o in ("wraparound", "boundscheck"):
                    L += [pad + "try: _%s = s[%s]" % (o[0], "i" if o == "wraparound" else "j"), pad + "except IndexError: _%s = 'E'" % o[0]]
                    items.append("'%s': _%s" % (o, o[0]))
                elif o == "overflowcheck":
                    L += [pad + "try: _o = big + one", pad + "except OverflowError: _o = 'E'"]
                    items.append("'overflowcheck': _o")
                elif o == "nonecheck":
                    L += [pad + "try:", pad + "    _n = nc.x", pad + "    _n = 'V'", pad + "except AttributeError: _n = 'E'"]
                    items.append("'nonecheck': _n")
                elif o == "infer_types":
                    L += [pad + "x1_%d = 1" % i, pad + "x1_%d = x1_%d + 1" % (i, i), pad + "x2_%d = 1.5" % i]
                    items.append("'infer_types': (cython.typeof(x1_%d), cython.typeof(x2_%d))" % (i, i))
            L.append(pad + "out['p%d'] = {%s}" % (i, ", ".join(items)))
        elif k == "W":
            L.append(pad + "with %s:" % ", ".join("cython.%s(%s)" % (n, mx_lit(v)) for n, v in nd["sets"]))
            emit_mx(nd["ch"], ind + 1, ctxkind, L)
        elif k == "F":
            for n, v in nd["sets"]:
                L.append(pad + "@cython.%s(%s)" % (n, mx_lit(v)))
            L.append(pad + ("def f_%d(self, ctx):" if ctxkind == "C" else "def f_%d(ctx):") % i)
            L += [pad + "    cdef bytes s = ctx[0]", pad + "    cdef int a = ctx[1], b = ctx[2], i = -1, j = 4, big = ctx[3], one = 1",
                  pad + "    cdef _NC nc = ctx[4]", pad + "    out = {}"]
            emit_mx(nd["ch"], ind + 1, "F", L)
            L.append(pad + "    return out")
            if ctxkind == "M":
                L.append(pad + "REG.append(('f', %d, f_%d))" % (i, i))
            elif ctxkind == "F":
                L.append(pad + "out['g%d'] = f_%d" % (i, i))
        else:
            for n, v in nd["sets"]:
                L.append(pad + "@cython.%s(%s)" % (n, mx_lit(v)))
            L.append(pad + ("cdef class K_%d:" if k == "X" else "class K_%d:") % i)
            emit_mx(nd["ch"], ind + 1, "C", L)
            L.append(pad + "REG.append(('c', %d, K_%d, %r))" % (i, i, mx_methods(nd["ch"])))


MX_DECODE = {
    "cdivision": {-3: True, -4: False},
    "wraparound": {100: True, "E": False, 255: False},
    "boundscheck": {"E": True, 0: False},
    "overflowcheck": {"E": True, -2147483648: False},
    "nonecheck": {"E": True, "V": False},
    "infer_types": {("int object", "double"): None, ("long", "double"): True, ("Python object", "Python object"): False},
}


def mx_decode(d, raw):
    if isinstance(raw, list):
        raw = tuple(raw)
    try:
        return MX_DECODE[d].get(raw, "UNDECODABLE")
    except TypeError:
        return "UNDECODABLE"


def mx_source(header_lines, forest):
    L = ["# generated by props/C41.py (placement matrix)", "#"] + ["# cython: %s" % h for h in header_lines] + [MX_PRELUDE]
    emit_mx(forest, 0, "M", L)
    return "\n".join(L) + "\n"


def gen_matrix(ctx, idx, dirs, T, both_polarities, quick=False):
    """one module: header/options chosen per directive (none / option / header / both, opposite), then every
    placement pattern of every directive in dirs with the value that differs from the module-level one"""
    rng = ctx.rng
    options, header = {}, {}
    for n, d in enumerate(MX_ALL):
        c, val = (n + idx) % 4, rng.random() < 0.5
        if c == 1: options[d] = val
        elif c == 2: header[d] = val
        elif c == 3: options[d], header[d] = (not val), val
    mv = {d: header.get(d, options.get(d, T["defaults"][d])) for d in MX_ALL}
    hitems = ["%s=%s" % (k, v) for k, v in header.items()]
    rng.shuffle(hitems)
    cut = rng.randrange(len(hitems) + 1)
    hlines = [x for x in (", ".join(hitems[:cut]), ",".join(hitems[cut:])) if x]
    forest, groups, counter = [], [], [0]
    for n, d in enumerate(dirs):
        flip = (not mv[d]) if mv[d] is not None else (rng.random() < 0.5)
        vals = [flip] + ([mv[d]] if both_polarities and mv[d] is not None else [])
        for v in vals:
            extra = [MX_STMT[(n + idx + int(v)) % len(MX_STMT)]]
            for pname, pf in mx_patterns(d, v, extra, quick):
                mx_number(pf, counter)
                groups.append({"directive": d, "value": v, "pattern": pname, "forest": pf})
                forest += pf
    return {"name": "c41_m%d" % idx, "source": mx_source(hlines, forest), "options": options, "header_lines": hlines,
            "header": header, "mv": mv, "body": forest, "groups": groups}


def model_visit(ctx, model, inp, options, header_lines, q, body):
    """header text through the model's parse_directive_list, then visit_module -> (module values, per-node values)"""
    hdr = {}
    for h in header_lines:
        ml = model.batch(["pl %d 0 1 - %s -" % (STRICT, enc(h))])[0]
        if not ml.startswith("OK "):
            ctx.corr_break("directives:header-parse", inp, h, ml)
        else:
            hdr.update(dec_dict(ml[3:]))
    line = "vm %s %s %s %s" % (enc_dict(options), enc_dict(hdr), ";".join(enc(x) for x in q), " ".join(tokens(body)))
    mo = model.batch([line])[0].split(" ")
    if not mo[0].startswith("M:") or mo[-1] != "S:1" or mo[-2] != "R:":
        ctx.corr_break("directives:visit_module", inp, "accepted program", mo[-3:])
        return None
    dv = lambda x: None if x in ("?", "N") else dec_val(x)
    mvals = dict(zip(q, [dv(x) for x in mo[0][2:].split("~")]))
    mnode = {}
    for nd, tok in zip(preorder(body, []), mo[1:-2]):
        if tok.startswith("P:"):
            mnode["p%d" % nd["id"]] = dict(zip(q, [dv(x) for x in tok[2:].split("~")]))
        else:
            a, b = tok[2:].split("/")
            mnode["n%d" % nd["id"]] = (dict(zip(q, [dv(x) for x in a.split("~")])), dict(zip(q, [dv(x) for x in b.split("~")])))
    return mvals, mnode


def run_matrix(ctx, T, built_later):
    """returns (specs, finish): the build specs of the matrix modules and the function that evaluates them"""
    quick = ctx.tier == "quick"
    wd = os.path.join(ctx.workdir, "matrix")
    if quick:
        order = list(MX_ALL)
        ctx.rng.shuffle(order)
        progs = [gen_matrix(ctx, i, order[i::2], T, False, quick=True) for i in range(2)]
    else:
        progs = [gen_matrix(ctx, i, MX_ALL[(i % 2)::2], T, True) for i in range(8)]
    specs = [dict(name=p["name"], source=p["source"], workdir=wd, directives=dict(p["options"]), cflags=["-O0"]) for p in progs]

    def finish(built):
        model = ctx.model("directives")
        for p, (so, err) in zip(progs, built):
            inp = {"program": p["name"], "options": p["options"], "header": p["header_lines"], "matrix": True}
            if err is not None:
                ctx.corr_break("directives:matrix-build", inp, str(err)[-1500:], "module builds")
                continue
            r = cybuild.run_script(RUN_MX, wd, name="run_mx.py", args=[p["name"]])
            if r["json"] is None:
                ctx.corr_break("directives:matrix-run", inp, (r["err"] or r["out"])[-1200:], "module runs")
                continue
            obs = r["json"]
            mv = model_visit(ctx, model, inp, p["options"], p["header_lines"], MX_ALL, p["body"])
            if mv is None:
                continue
            mvals, mnode = mv
            for d in MX_ALL:                     # module level: header, else option, else default
                ctx.case("matrix/module value", dict(inp, directive=d), sig=(p["name"], "mv", d))
                if mvals[d] != p["mv"][d]:
                    ctx.corr_break("directives:matrix module value", dict(inp, directive=d), p["mv"][d], mvals[d])
            spec = {}
            spec_walk(p["body"], dict(p["mv"]), "M", spec)
            for g in p["groups"]:
                d = g["directive"]
                ginp = {"program": p["name"] + "_min", "matrix": True, "options": p["options"], "header": p["header_lines"],
                        "directive": d, "value": g["value"], "placement": g["pattern"]}
                src = None
                for nd in preorder(g["forest"], []):
                    i = nd["id"]
                    if nd["k"] == "P":
                        key = "p%d" % i
                        o = obs["probes"].get(key)
                        for od in nd["obs"]:
                            pin = dict(ginp, probe=key, observed_directive=od)
                            ctx.case("matrix/%s/%s" % (g["pattern"], "probe"), pin, sig=(p["name"], key, od))
                            got = mx_decode(od, (o or {}).get(od, "MISSING"))
                            if got != mnode[key][od]:
                                ctx.corr_break("directives:matrix effective " + od, pin, o, mnode[key][od])
                            if got != spec[key][od]:
                                src = src or mx_source(p["header_lines"], g["forest"])
                                ctx.fail("effective_value_" + od, dict(pin, source=src), o, {od: spec[key][od]})
                    elif nd["k"] == "F":
                        o = obs["funcs"].get(str(i))
                        env_f, parent = spec["f%d" % i]
                        mnd = mnode["n%d" % i][0]
                        for n, od in enumerate(MX_FUNC):
                            if parent not in MX_FUNC[od]:
                                continue
                            pin = dict(ginp, func="f_%d" % i, parent=parent, observed_directive=od)
                            ctx.case("matrix/%s/%s" % (g["pattern"], "function object"), pin, sig=(p["name"], "f", i, od))
                            got = "MISSING" if o is None else (
                                {"cython_function_or_method": True, "builtin_function_or_method": False,
                                 "method_descriptor": False}.get(o[0], "UNDECODABLE") if od == "binding" else o[n])
                            if got != mnd[od]:
                                ctx.corr_break("directives:matrix effective " + od, pin, o, mnd[od])
                            if got != env_f[od]:
                                src = src or mx_source(p["header_lines"], g["forest"])
                                ctx.fail("effective_value_" + od, dict(pin, source=src), o, {od: env_f[od]})
    return specs, finish


def run_tables(ctx, T):
    """the running immediate_decorator_directives against the documented list (Prop C41_immediate_table proves the same
    over the dump; here each differing name is reported)"""
    model = ctx.model("directives")
    docimm = {dec(x) for x in model.batch(["docimm"])[0].split(";")}
    docbeh = {dec(x) for x in model.batch(["docbeh"])[0].split(";")}
    for d in sorted(docimm | T["immediate"] | docbeh):
        ctx.case("tables/immediate", {"directive": d}, sig=("immediate", d))
        if (d in T["immediate"]) != (d in docimm):
            ctx.fail("immediate_table_differs_from_documented", {"table": "Options.immediate_decorator_directives", "directive": d},
                     {"immediate": d in T["immediate"]}, {"immediate": d in docimm})

# ---------------------------------------------------------------- scope legality, (directive, scope) pairs
COMPILE_WORKER = r"""
import sys, os, json, io
import pyload; pyload.install()
from Cython.Compiler import Main, Options
pyload.assert_sources()
out = []
for c in json.load(sys.stdin):
    src = os.path.join(os.getcwd(), c["name"] + ".pyx")
    open(src, "w").write(c["source"])
    d = dict(Options.get_directive_defaults()); d["language_level"] = 3
    opts = Main.CompilationOptions(Main.default_options, compiler_directives=d, output_file=src[:-4] + ".c")
    err, old = io.StringIO(), sys.stderr
    res = {"ok": False, "crash": None}
    try:
        sys.stderr = err
        try:
            r = Main.compile(src, opts)
            res["ok"] = r.num_errors == 0
        finally:
            sys.stderr = old
    except BaseException as e:
        res["crash"] = "%s: %s" % (type(e).__name__, e)
    res["errors"] = err.getvalue()[-6000:]
    out.append(res)
print(json.dumps(out))
"""

CONTEXTS = [("module", "module"), ("function", "function"), ("class", "class"), ("cclass", "cclass"), ("with", "with statement")]


def scope_program(T, d, context):
    t = T["types"].get(d)
    if t is None or t[0] == "TDefer":
        return None
    if context != "module" and any(part in ("cdef", "DEF", "IF") for part in d.split(".")):
        return None          # not spellable as cython.<name> (reserved word)
    arg = {"TBool": "(True)", "TStr": "('x')", "TEncoding": "('utf8')", "TInt": "(8)", "TNoValue": "", "TList": "('//x')"}.get(t[0])
    if t[0] == "TEnum":
        arg = "(%r)" % t[1][0]
    if t[0] == "TCallCrash":
        arg = {"type": "(cython.int)", "dict": "(x=cython.int)"}.get(t[1])
    if arg is None:
        return None
    if context == "module":
        if d not in T["names"] or t[0] in ("TCallCrash", "TInt"):
            return None
        if t[0] == "TNoValue" and STRICT:
            return None      # a value-less directive cannot be written in a header at all since the parser repair
        val = {"TBool": "True", "TStr": "x", "TEncoding": "utf8", "TNoValue": "True", "TList": "//x"}.get(t[0]) or (t[0] == "TEnum" and t[1][0])
        return "# cython: %s=%s\ndef f(): pass\n" % (d, val)
    use = "cython.%s%s" % (d, arg)
    body = {"function": "@%s\ndef f(x): pass\n", "class": "@%s\nclass A: pass\n", "cclass": "@%s\ncdef class A: pass\n",
            "with": "with %s:\n    pass\n"}[context] % use
    return "cimport cython\n" + body


def run_scopes(ctx, T):
    quick = ctx.tier == "quick"
    model = ctx.model("directives")
    # (np_pythran is refused earlier with "can only be used in C++ mode": not observable in a C build)
    docnames = {dec(x) for x in model.batch(["docscn"])[0].split(";")}
    pairs = [(d, c, sc) for d in sorted(set(T["scopes"]) | docnames, key=lambda d: (d not in T["scopes"], list(T["scopes"]).index(d) if d in T["scopes"] else d))
             if d != "np_pythran" for c, sc in CONTEXTS]
    pairs += [(d, c, sc) for d in ("cdivision", "boundscheck", "binding", "nonecheck", "profile") for c, sc in CONTEXTS]
    cases = []
    for d, c, sc in pairs:
        src = scope_program(T, d, c)
        if src is not None:
            cases.append((d, c, sc, src))
    # the documented placement table (M_DirectivesDoc.doc_scopes) is the oracle; every (directive, scope) pair on which
    # the running directive_scopes differs from it is reported and its program is always compiled
    dnames = sorted(set(T["scopes"]) | docnames | {x[0] for x in cases})
    dres = iter(model.batch(["docsc %s %s" % (enc(d), enc(sc)) for d in dnames for _, sc in CONTEXTS]))
    doc_legal = {(d, sc): next(dres) == "1" for d in dnames for _, sc in CONTEXTS}
    differ = set()
    for (d, sc), ok in sorted(doc_legal.items()):
        run_ok = sc in T["scopes"].get(d, [sc])
        ctx.case("tables/directive_scopes", {"directive": d, "scope": sc}, sig=("scopes-table", d, sc))
        if run_ok != ok:
            differ.add((d, sc))
            ctx.fail("scope_table_differs_from_documented", {"table": "Options.directive_scopes", "directive": d, "scope": sc},
                     {"legal": run_ok}, {"legal": ok})
    if quick:
        must = [x for x in cases if (x[0], x[2]) in differ]
        rest = [x for x in cases if x not in must]
        illegal = [x for x in rest if not doc_legal[(x[0], x[2])]]
        legal = [x for x in rest if x not in illegal]
        cases = must + ctx.rng.sample(illegal, min(21, len(illegal))) + ctx.rng.sample(legal, min(7, len(legal)))
    NW = 7
    chunks = [cases[i::NW] for i in range(NW)]
    import concurrent.futures as cf
    def work(j):
        return cybuild.run_script(COMPILE_WORKER, os.path.join(ctx.workdir, "scopes%d" % j),
                                  stdin_obj=[{"name": "s%d_%d" % (j, i), "source": x[3]} for i, x in enumerate(chunks[j])],
                                  name="compile_worker.py")
    with cf.ThreadPoolExecutor(max_workers=NW) as ex:
        results = list(ex.map(work, range(NW)))
    mres = iter(model.batch(["sc %s %s" % (enc(x[0]), enc(x[2])) for ch in chunks for x in ch]))
    for ch, r in zip(chunks, results):
        if r["json"] is None or len(r["json"]) != len(ch):
            ctx.corr_break("directives:compile-worker", "worker", (r["err"] or r["out"])[-600:], "one result per case")
            for _ in ch: next(mres)
            continue
        for (d, c, sc, src), res in zip(ch, r["json"]):
            m_ok = next(mres) == "1"
            inp = {"directive": d, "scope": sc, "source": src}
            ctx.case("scope-legality/" + c, inp, sig=("scope", d, c))
            msg = "The %s compiler directive is not allowed in %s scope" % (d, sc)
            rejected = msg in (res["errors"] or "") or msg in (res.get("crash") or "")
            if rejected and res["ok"]:
                ctx.corr_break("directives:scope error reported but compilation succeeded", inp, res, "failure")
            if rejected == m_ok:
                ctx.corr_break("directives:scope_ok", inp, {"rejected": rejected, "errors": res["errors"][-300:]}, {"scope_ok": m_ok})
            exp_reject = not doc_legal[(d, sc)]
            if (exp_reject and res["ok"]) or (not exp_reject and rejected):
                ctx.fail("scope_violation_not_rejected" if exp_reject else "legal_scope_rejected", inp,
                         {"rejected": rejected, "ok": res["ok"], "errors": res["errors"][-300:]}, {"rejected": exp_reject})


def run(ctx):
    import time
    T = tables(ctx)
    t0 = time.time()
    run_parse(ctx, T)
    t1 = time.time()
    run_scopes(ctx, T)
    t2 = time.time()
    run_nesting(ctx, T)
    run_tables(ctx, T)
    ctx.note("phase wall seconds: coq+tables %.0f, parser %.0f, scope legality %.0f, nestings+matrix %.0f" % (
        t0 - ctx.t0, t1 - t0, t2 - t1, time.time() - t2))


def replay(ctx, obj):
    """re-run one recorded input against the implementation"""
    inp = obj["input"]
    if "f" in inp:                                   # a directive string
        c = {"f": inp["f"], "s": inp["s"], "relaxed": inp.get("relaxed", False), "ignore": inp.get("ignore", False),
             "cur": inp.get("cur"), "name": inp.get("name")}
        r = cybuild.run_script(PARSE_WORKER, os.path.join(ctx.workdir, "parse"), stdin_obj=[c], name="parse_worker.py")
        print("replayed:", json.dumps(c), "->", r["json"], "expected", obj.get("expected"))
    elif inp.get("matrix") and "source" in inp:      # one placement of the matrix
        wd = os.path.join(ctx.workdir, "matrix")
        cybuild.build(inp["program"], inp["source"], wd, directives=dict(inp.get("options") or {}), cflags=["-O0"])
        r = cybuild.run_script(RUN_MX, wd, name="run_mx.py", args=[inp["program"]])
        print("replayed:", inp["program"], inp.get("placement"), inp.get("probe") or inp.get("func"), "->",
              (r["json"] or {}).get("probes", {}).get(inp.get("probe")), (r["json"] or {}).get("funcs", {}).get((inp.get("func") or "")[2:]),
              "expected", obj.get("expected"))
    elif "source" in inp and "program" in inp:       # a nesting program
        wd = os.path.join(ctx.workdir, "nest")
        opts = dict(inp.get("options") or {})
        if opts.get("c_string_type") == "unicode": opts["c_string_type"] = "str"
        if opts.get("c_string_encoding") == "default": opts["c_string_encoding"] = "utf8"
        cybuild.build(inp["program"], inp["source"], wd, directives=opts)
        r = cybuild.run_script(RUN_PROG, wd, name="run_prog.py", args=[inp["program"]])
        key = inp.get("probe") or inp.get("func")
        print("replayed:", inp["program"], key, "->", (r["json"] or {}).get("probes", {}).get(key), (r["json"] or {}).get("funcs", {}).get((key or "")[2:]),
              "expected", obj.get("expected"))
    elif "source" in inp:                            # a scope-legality program
        r = cybuild.run_script(COMPILE_WORKER, os.path.join(ctx.workdir, "scopes0"), stdin_obj=[{"name": "replay", "source": inp["source"]}],
                               name="compile_worker.py")
        print("replayed:", json.dumps(inp), "->", r["json"], "expected", obj.get("expected"))
    else:
        print(json.dumps(obj, indent=1))
