"""C27 - cpdef calls reach the most-derived override (DESIGN 7/C27)."""
import json, os
import cybuild
import props.C27_vtable as vtab

TITLE = "cpdef calls reach the most-derived override"
EXTRACTS = ["Override"]
RULE = ("generated forests of extension types (depth <= 3; cpdef / plain def / inherited m; with and without "
        "`cdef dict __dict__`) compiled once per build variant (default, -DCYTHON_USE_DICT_VERSIONS=1); per case up to 3 "
        "Python subclasses (with/without __slots__, optional mixin before/after the extension base) and a history "
        "(length 4..16) of set/replace/delete of attribute m on classes and instances, instance creation, o.m() from "
        "Python, o.m() from a cdef-typed caller (vtable), K.m(o); distinct by (variant, hierarchy, history); every "
        "history contains at least one C-level call.  Vtable part (props/C27_vtable.py): forests of depth <= 4 whose m is per class "
        "undeclared / cdef / cpdef / plain def with 0..2 optional arguments, final cdef methods, final classes, parent-calling "
        "bodies (8 fixed chains covering every branch of declare_cfunction / generate_wrapper_functions + random ones); call sites "
        "`T o; o.m()`, `o.m(5)`, `self.m()` for EVERY class T of the chain; histories additionally with super()-calling overrides and "
        "bound methods kept across mutations; every object is finally called through every static type of its chain")
EXPLANATION = ("theorems: for every well-formed hierarchy and every history the generated override check (pre-filter, "
               "GetAttr + IsSameCFunction, skip_dispatch) invokes the implementation Python attribute lookup selects when "
               "the dict-version cache is compiled out (default on CPython 3.12) - provided no extension subclass "
               "re-defines the cpdef method with a plain def (documented restriction, refuted otherwise); pre-filter "
               "soundness under the same restriction; with the cache on, equality for histories that mutate only classes "
               "without subclasses, refuted in general (stale cache after a base-class mutation), and equality for all "
               "histories for the repaired variant fx (result cached only for types whose bases are all immutable static types). partial: custom "
               "__getattribute__/__getattr__, metaclasses, data descriptors named m, __class__ assignment and "
               "multiple-inheritance MROs beyond one mixin are outside the model; the MRO is data of the hierarchy.  Vtable: for every "
               "chain of cdef/cpdef declarations the compiler accepts and every static type, the slot reached through the vtable "
               "(own function, or adapter with forwarded / constant skip_dispatch) runs the most-derived declaration with "
               "skip_dispatch = 0 (C27_vtable_call_correct), composed with the override check for all histories "
               "(C27_vdispatch_eq_*); an adapter passing 1 is refuted; slots, adapter bodies and call sites are parsed from the "
               "generated C and compared with the extracted vtable.  partial: argument VALUES (optional-argument struct contents, "
               "arity of the override) are only tested against the oracle; cimported/external declarations, fused cpdef methods, "
               "inline methods and cpdef module functions are not generated.")
TRUSTED = ["CPython attribute lookup (PyObject_GenericGetAttr/_PyType_Lookup) modelled as MRO search + instance dict shadowing of non-data descriptors",
           "CPython's ma_version_tag contract (every dict mutation yields a tag no dict had before; 0 = no dict)",
           "static extension types are immutable (type_setattro rejects), so their dict entry for m never changes",
           "CPython executing the equivalent pure-Python hierarchy as the property oracle (cdef m = private attribute _c_m, cpdef m = _c_m redirecting to self.m())",
           "regular expressions recognising vtable initialisation, adapter bodies and call sites in the generated C",
           "C struct layout: `vtable.__pyx_base = *parent` copies every inherited slot; the vtable pointer of an object is the one of its extension base type"]
ASSUMPTIONS = ["CPython 3.12 non-limited API build (CYTHON_USE_TYPE_SLOTS=1, CYTHON_USE_TYPE_SPECS=0): extension types are static types",
               "classes use the default type/object attribute protocol"]

HEAPTYPE = 1 << 9


# ----------------------------------------------------------------------------------------------
# extension-type forests
def gen_tree(rng, ti, fixed=None):
    """list of ext classes: dict(name, parent(index or None), decl 'c'|'n'|'d', dd(bool declares dict), tag)"""
    if fixed is not None:
        cl = [dict(name="T%d_%d" % (ti, i), parent=p, decl=d, dd=dd, tag=9000 + 100 * ti + i)
              for i, (p, d, dd) in enumerate(fixed)]
        return cl
    cl = [dict(name="T%d_0" % ti, parent=None, decl="c", dd=rng.random() < 0.3, tag=9000 + 100 * ti)]
    depth = [1]
    for i in range(1, rng.randrange(2, 6)):
        cand = [j for j in range(len(cl)) if depth[j] < 3]
        p = rng.choice(cand)
        anc_dd, q = False, p
        while q is not None:
            anc_dd = anc_dd or cl[q]["dd"]; q = cl[q]["parent"]
        r = rng.random()
        cl.append(dict(name="T%d_%d" % (ti, i), parent=p, decl=("c" if r < 0.45 else "n" if r < 0.82 else "d"),
                       dd=(not anc_dd and rng.random() < 0.25), tag=9000 + 100 * ti + i))
        depth.append(depth[p] + 1)
    return cl


FIXED_TREES = [
    [(None, "c", False), (0, "n", False), (1, "c", False)],
    [(None, "c", True), (0, "c", False), (1, "n", False)],
    [(None, "c", False), (0, "c", True), (1, "c", False), (0, "n", False)],
    [(None, "c", False), (0, "d", False), (1, "n", False), (0, "n", True)],
]


def pyx_source(trees):
    L = ["# cython: language_level=3", ""]
    for t in trees:
        for c in t:
            L.append("cdef class %s%s:" % (c["name"], "(%s)" % t[c["parent"]]["name"] if c["parent"] is not None else ""))
            if c["dd"]:
                L.append("    cdef dict __dict__")
            if c["decl"] == "c":
                L += ["    cpdef m(self):", "        return 'B:%s'" % c["name"]]
            elif c["decl"] == "d":
                L += ["    def m(self):", "        return 'F:%d'" % c["tag"]]
            elif not c["dd"]:
                L.append("    pass")
        L += ["def call_%s(%s o):" % (t[0]["name"], t[0]["name"]), "    return o.m()", ""]
    return "\n".join(L) + "\n"


def oracle_source(trees):
    """the equivalent pure-Python hierarchy"""
    L = []
    for t in trees:
        for c in t:
            L.append("class %s%s:" % (c["name"], "(%s)" % t[c["parent"]]["name"] if c["parent"] is not None else ""))
            anc_dd, q = False, t.index(c)
            while q is not None:
                anc_dd = anc_dd or t[q]["dd"]; q = t[q]["parent"]
            if not anc_dd:
                L.append("    __slots__ = ()")
            if c["decl"] == "c":
                L += ["    def m(self):", "        return 'B:%s'" % c["name"]]
            elif c["decl"] == "d":
                L += ["    def m(self):", "        return 'F:%d'" % c["tag"]]
            elif anc_dd:
                L.append("    pass")
        r = t[0]["name"]
        L += ["def call_%s(o):" % r, "    if not isinstance(o, %s): raise TypeError('incorrect type')" % r,
              "    return o.m()", ""]
    return "\n".join(L) + "\n"


# ----------------------------------------------------------------------------------------------
# cases: local hierarchy (ext classes of one tree, then Python classes) + history
def ext_mro(t, i):
    out = []
    while i is not None:
        out.append(i); i = t[i]["parent"]
    return out


def ext_classes(t):
    classes = []          # local description for the model
    for i, c in enumerate(t):
        m = ext_mro(t, i)
        classes.append(dict(kind="E", mro=m, decl=c["decl"], tag=c["tag"], dd=c["dd"],
                            dk="E" if any(t[j]["dd"] for j in m) else "N", ext=c["name"]))
    return classes


def gen_case(rng, ti, t, maxlen):
    ne = len(t)
    classes = ext_classes(t)
    npy = rng.choice([0, 1, 1, 2, 2, 3])
    mixin = None
    tag = [100]

    def newtag():
        tag[0] += 1
        return tag[0]
    pyspecs = []
    if npy and rng.random() < 0.35:
        mixin = len(classes)
        sl = rng.random() < 0.4
        d = newtag() if rng.random() < 0.3 else None
        classes.append(dict(kind="P", mro=[mixin], decl=("d" if d else "n"), tag=d, dd=False, dk="N" if sl else "M",
                            py=dict(name="Mx", bases=[], slots=sl, decl=d)))
    mixin_used = False
    first_py = len(classes)
    for j in range(npy):
        cid = len(classes)
        cand = list(range(ne)) + list(range(first_py, cid))
        b = rng.choice(cand[-4:] if rng.random() < 0.6 else cand)
        sl = rng.random() < 0.3
        d = newtag() if rng.random() < 0.4 else None
        bases, mro = [b], [cid] + classes[b]["mro"]
        if mixin is not None and not mixin_used and rng.random() < 0.6:
            mixin_used = True
            if rng.random() < 0.5:
                bases, mro = [mixin, b], [cid, mixin] + classes[b]["mro"]
            else:
                bases, mro = [b, mixin], [cid] + classes[b]["mro"] + [mixin]
        if any(classes[k]["dk"] == "E" for k in mro[1:]):
            dk = "E"
        elif sl and all(classes[k]["dk"] == "N" for k in mro[1:]):
            dk = "N"
        else:
            dk = "M"
        classes.append(dict(kind="P", mro=mro, decl=("d" if d else "n"), tag=d, dd=False, dk=dk,
                            py=dict(name="P%d" % j, bases=bases, slots=sl, decl=d)))
    n = len(classes)
    pycls = [i for i in range(n) if classes[i]["kind"] == "P"]
    inst_cls = [i for i in range(n) if i != mixin]
    ops, objs = [], []

    def new(c):
        ops.append(["N", c]); objs.append(c)
    new(rng.choice(inst_cls[-3:]))
    if rng.random() < 0.6:
        new(rng.choice(inst_cls))
    for _ in range(rng.randrange(4, maxlen + 1)):
        r = rng.random()
        o = rng.randrange(len(objs))
        if r < 0.14 and pycls:
            c = rng.choice(pycls)
            wr = [k for k in classes[c]["mro"] if classes[k]["decl"] == "c"]
            if wr and rng.random() < 0.15:
                ops.append(["SC", c, "W", rng.choice(wr)])
            else:
                ops.append(["SC", c, "F", newtag()])
        elif r < 0.22 and pycls:
            ops.append(["DC", rng.choice(pycls)])
        elif r < 0.24:
            c = rng.randrange(ne)      # mutation of an immutable static type: must be rejected
            ops.append(["SC", c, "F", newtag()] if rng.random() < 0.5 else ["DC", c])
        elif r < 0.30:
            new(rng.choice(inst_cls if rng.random() < 0.9 else list(range(n))))
        elif r < 0.40:
            ops.append(["SI", o, newtag()])
        elif r < 0.47:
            ops.append(["DI", o])
        elif r < 0.62:
            ops.append(["CP", o])
        elif r < 0.93:
            ops.append(["CC", o])
        else:
            c = rng.choice(classes[objs[o]]["mro"])
            ops.append(["CV", c, o])
    for o in range(len(objs)):
        ops.append(["CC", o]); ops.append(["CP", o])
    return dict(tree=ti, classes=classes, ops=ops, objs=objs)


def hier_text(classes):
    out = []
    for c in classes:
        d = "c" if c["decl"] == "c" else ("n" if c["decl"] == "n" else "d%d" % c["tag"])
        out.append("%s,%s,%s,%d,%s" % (c["kind"], ".".join(map(str, c["mro"])), d, 1 if c["dd"] else 0, c["dk"]))
    return ";".join(out)


def ops_text(ops):
    return " ".join(":".join(str(x) for x in op) for op in ops)


DRIVER = r'''
import sys, json, importlib
spec = json.load(sys.stdin)
mode = spec["mode"]
if mode == "compiled":
    ns = importlib.import_module(spec["modname"]).__dict__
else:
    ns = {}
    exec(compile(spec["oracle_src"], "oracle.py", "exec"), ns)
HEAP = 1 << 9
def fn_self(n):
    def f(self): return "F:%d" % n
    return f
def fn0(n):
    def g(): return "F:%d" % n
    return g
def call(f):
    try:
        return f()
    except TypeError: return "TE"
    except AttributeError: return "AE"
    except RecursionError: return "REC"
    except Exception as e: return "EXC:" + type(e).__name__
out = []
for case in spec["cases"]:
    classes, isext = [], []
    for cd in case["classes"]:
        if cd["kind"] == "E":
            classes.append(ns[cd["ext"]]); isext.append(True)
        else:
            p = cd["py"]; body = {}
            if p["slots"]: body["__slots__"] = ()
            if p["decl"] is not None: body["m"] = fn_self(p["decl"])
            classes.append(type(p["name"], tuple(classes[b] for b in p["bases"]), body)); isext.append(False)
    callC = ns["call_" + case["classes"][0]["ext"]]
    info = []
    for c in classes:
        off = c.__dictoffset__
        info.append([[classes.index(k) for k in c.__mro__ if k is not object],
                     "N" if off == 0 else ("E" if off > 0 else "M"), bool(c.__flags__ & HEAP)])
    objs, res, notes = [], [], []
    for op in case["ops"]:
        k = op[0]
        if k in ("SC", "DC"):
            c = classes[op[1]]
            if isext[op[1]]:
                if mode == "compiled":
                    try:
                        if k == "SC": setattr(c, "m", fn_self(op[3]))
                        else: delattr(c, "m")
                        notes.append("static type accepted mutation")
                    except TypeError: pass
                continue
            if k == "SC":
                setattr(c, "m", fn_self(op[3]) if op[2] == "F" else classes[op[3]].__dict__["m"])
            else:
                try: delattr(c, "m")
                except AttributeError: pass
        elif k == "N": objs.append(classes[op[1]]())
        elif k == "SI":
            try: setattr(objs[op[1]], "m", fn0(op[2]))
            except AttributeError: pass
        elif k == "DI":
            try: delattr(objs[op[1]], "m")
            except AttributeError: pass
        elif k == "CP": o = objs[op[1]]; res.append(call(lambda: o.m()))
        elif k == "CC": o = objs[op[1]]; res.append(call(lambda: callC(o)))
        elif k == "CV": o = objs[op[2]]; c = classes[op[1]]; res.append(call(lambda: c.m(o)))
    out.append({"res": res, "info": info, "notes": notes})
print(json.dumps(out))
'''


def canon(case, res):
    names = {c["ext"]: i for i, c in enumerate(case["classes"]) if c["kind"] == "E"}
    out = []
    for r in res:
        if r.startswith("B:"):
            out.append("B%d" % names.get(r[2:], -1))
        elif r.startswith("F:"):
            out.append("F" + r[2:])
        else:
            out.append(r)
    return out


def call_ops(case):
    """indices (into ops) of the result-producing ops"""
    return [i for i, op in enumerate(case["ops"]) if op[0] in ("CP", "CC", "CV")]


def classify(case, variant, opi):
    """class of a failing call, computed from the input only"""
    op = case["ops"][opi]
    cl = case["classes"]
    if op[0] == "CC":
        c = case["objs"][op[1]]
        mro = cl[c]["mro"]
        pre = []
        for k in mro:
            if cl[k]["decl"] == "c":
                break
            pre.append(k)
        if cl[c]["kind"] == "E" and cl[c]["dk"] == "N" and any(cl[k]["kind"] == "E" and cl[k]["decl"] == "d" for k in pre):
            return "def_override_in_cdef_subclass"
        if variant == "dictver" and any(o[0] in ("SC", "DC") and o[1] in mro[1:] and cl[o[1]]["kind"] == "P"
                                        for o in case["ops"][:opi]):
            return "stale_cache_base_class_mutation"
    return "wrong_implementation_invoked"


VARIANTS = [("default", None, "0"), ("dictver", ["CYTHON_USE_DICT_VERSIONS=1"], "1")]
FX = os.environ.get("C27_FX", "0")      # default -> "1" once proposed_fixes/C27-stale_cache_base_class_mutation.diff is applied (model variant fx)


def build_all(ctx, trees, tagname, extra=None):
    """extra: one more build spec (the vtable module) built in parallel; its (so, err) is stored in extra['built']"""
    src = pyx_source(trees)
    specs = [dict(name="c27_%s_%s" % (tagname, v), source=src, workdir=os.path.join(ctx.workdir, "%s_%s" % (tagname, v)),
                  macros=mac, cflags=["-O0"]) for v, mac, _ in VARIANTS]
    if extra is not None:
        built = cybuild.build_many(specs + [extra["spec"]], jobs=3)
        extra["built"] = built[-1]
        built = built[:-1]
    else:
        built = cybuild.build_many(specs, jobs=2)
    ok = []
    for sp, (so, err), (v, mac, cached) in zip(specs, built, VARIANTS):
        if err is not None:
            if v == "dictver":
                ctx.note("build with -DCYTHON_USE_DICT_VERSIONS=1 failed: %s" % str(err)[:300])
                continue
            ctx.corr_break("build " + sp["name"], sp["name"], str(err)[:1500], "module builds")
            continue
        ok.append((v, cached, sp))
    return ok


def run_cases(ctx, trees, cases, variants):
    model = ctx.model("override")
    osrc = oracle_source(trees)
    ro = cybuild.run_script(DRIVER, os.path.join(ctx.workdir, "oracle"), {"mode": "oracle", "oracle_src": osrc, "cases": cases}, timeout=900)
    if ro["json"] is None:
        ctx.corr_break("oracle driver", "oracle", (ro["err"] or ro["out"])[-800:], "runs")
        return
    hts = [hier_text(c["classes"]) for c in cases]
    ots = [ops_text(c["ops"]) for c in cases]
    mpy = model.batch(["py %s %s" % (h, o) for h, o in zip(hts, ots)])
    minfo = model.batch(["info %s" % h for h in hts])
    for case, orc, mp, mi in zip(cases, ro["json"], mpy, minfo):
        ores = canon(case, orc["res"])
        # the model's specification side against CPython itself (INV = TypeError of the typed caller)
        if ",".join(ores) != mp.replace("INV", "TE"):
            ctx.corr_break("override:run_py-vs-CPython", {"classes": case["classes"], "ops": case["ops"]}, ores, mp)
        if "wf=1" not in mi:
            ctx.corr_break("override:wf_hier", {"classes": case["classes"]}, "generated hierarchy", mi)
    for v, cached, sp in variants:
        rc = cybuild.run_script(DRIVER, sp["workdir"], {"mode": "compiled", "modname": sp["name"], "cases": cases}, timeout=900)
        if rc["json"] is None:
            ctx.corr_break("compiled driver " + v, sp["name"], (rc["err"] or rc["out"])[-800:], "runs")
            continue
        mcy = model.batch(["cy %s %s %s %s" % (cached, FX if cached == "1" else "0", h, o) for h, o in zip(hts, ots)])
        for case, got, orc, mc, mi in zip(cases, rc["json"], ro["json"], mcy, minfo):
            inp = {"variant": v, "tree": trees[case["tree"]], "classes": case["classes"], "ops": case["ops"], "objs": case["objs"]}
            npy = sum(1 for c in case["classes"] if c["kind"] == "P")
            ctx.case("%s/py%d/%s" % (v, npy, "mut" if any(o[0] in ("SC", "DC") for o in case["ops"]) else "nomut"),
                     inp, sig=(v, hier_text(case["classes"]), ops_text(case["ops"])))
            cres, ores = canon(case, got["res"]), canon(case, orc["res"])
            if got["notes"]:
                ctx.corr_break("override:immutable-static-type", inp, got["notes"], "TypeError")
            # hierarchy data of the model against the real classes: MRO, dict kind, heap-type flag
            for i, (c, (mro, dk, heap)) in enumerate(zip(case["classes"], got["info"])):
                if mro != c["mro"] or dk != c["dk"] or heap != (c["kind"] == "P"):
                    ctx.corr_break("override:hierarchy", inp, [i, mro, dk, heap], [c["mro"], c["dk"], c["kind"]])
                    break
            pre = mi.split("pre=")[1].split()[0]
            for i, (mro, dk, heap) in enumerate(got["info"]):
                if (pre[i] == "1") != (dk != "N" or heap):
                    ctx.corr_break("override:prefilter", inp, [i, dk, heap], pre)
            # tie: compiled module vs extracted dispatch_cy
            if ",".join(cres) != mc.replace("INV", "TE"):
                ctx.corr_break("override:run_cy(%s)" % v, inp, cres, mc)
                with open(os.path.join(ctx.workdir, "corr_breaks.jsonl"), "a") as f:
                    f.write(json.dumps({"variant": v, "hier": hier_text(case["classes"]), "ops": ops_text(case["ops"]),
                                        "impl": cres, "model": mc, "oracle": ores}) + "\n")
            # property: compiled module vs the equivalent pure-Python hierarchy under CPython
            if cres != ores:
                idx = call_ops(case)
                bad = [j for j, (a, b) in enumerate(zip(cres, ores)) if a != b]
                j = bad[0] if bad else 0
                ctx.fail(classify(case, v, idx[j]) if len(cres) == len(ores) else "wrong_implementation_invoked",
                         dict(inp, failing_op=idx[j]), cres, ores, note="model: %s" % mc)


def run(ctx):
    quick = ctx.tier == "quick"
    rounds = 1 if quick else 3
    ncases = 500 if quick else 2500
    maxlen = 10 if quick else 16
    for rd in range(rounds):
        trees = [gen_tree(ctx.rng, i, FIXED_TREES[i]) for i in range(len(FIXED_TREES))]
        trees += [gen_tree(ctx.rng, i) for i in range(len(trees), len(trees) + (3 if quick else 6))]
        vtrees = vtab.make_trees(ctx)
        vextra = {"spec": vtab.build_spec(ctx, vtrees, "r%d" % rd)}
        variants = build_all(ctx, trees, "r%d" % rd, extra=vextra)
        so, err = vextra["built"]
        if err is not None:
            ctx.corr_break("build " + vextra["spec"]["name"], {"trees": vtrees}, str(err)[:1500], "module builds")
        else:
            vtab.run_cases(ctx, vtrees, vextra["spec"], vtab.gen_cases(ctx, vtrees))
        if not variants:
            return
        ctx.extra.setdefault("variants_built", []).append([v for v, _, _ in variants])
        cases = []
        for i in range(ncases):
            ti = i % len(trees)
            cases.append(gen_case(ctx.rng, ti, trees[ti], maxlen))
        # the two witnesses of the refutation theorems, replayed on the real code
        t0 = trees[0]
        cl = ext_classes(t0)
        n = len(cl)
        cl.append(dict(kind="P", mro=[n] + cl[0]["mro"], decl="n", tag=None, dd=False, dk="M", py=dict(name="P", bases=[0], slots=False, decl=None)))
        cl.append(dict(kind="P", mro=[n + 1, n] + cl[0]["mro"], decl="n", tag=None, dd=False, dk="M", py=dict(name="Q", bases=[n], slots=False, decl=None)))
        cases.append(dict(tree=0, classes=cl, ops=[["N", n + 1], ["CC", 0], ["SC", n, "F", 7], ["CC", 0], ["CP", 0]], objs=[n + 1]))
        t3 = trees[3]
        cl3 = ext_classes(t3)
        cases.append(dict(tree=3, classes=cl3, ops=[["N", 1], ["CC", 0], ["CP", 0]], objs=[1]))
        run_cases(ctx, trees, cases, variants)


def replay(ctx, obj):
    inp = obj["input"]
    tree = inp["tree"]
    ti = int(tree[0]["name"].split("_")[0][1:])
    trees = [tree]
    case = dict(tree=0, classes=inp["classes"], ops=inp["ops"], objs=inp["objs"])
    variants = build_all(ctx, trees, "replay")
    osrc = oracle_source(trees)
    ro = cybuild.run_script(DRIVER, os.path.join(ctx.workdir, "oracle"), {"mode": "oracle", "oracle_src": osrc, "cases": [case]})
    print("oracle  :", canon(case, ro["json"][0]["res"]) if ro["json"] else ro["err"][-400:])
    for v, cached, sp in variants:
        rc = cybuild.run_script(DRIVER, sp["workdir"], {"mode": "compiled", "modname": sp["name"], "cases": [case]})
        print("%-8s:" % v, canon(case, rc["json"][0]["res"]) if rc["json"] else rc["err"][-400:])
    print("expected:", obj.get("expected"))
