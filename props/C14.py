"""C14 -- Optimised loops iterate exactly like Python loops (DESIGN 7/C14)."""
import json, os, itertools
import cybuild

TITLE = "Optimised loops iterate exactly like Python loops"
EXTRACTS = ["Range"]
RULE = ("typed range loops: one compiled function per (C type, constant step, forward/reversed, bound kind); "
        "cases = (start, stop, break-at) triples: the full (-10..10)^2 grid (0..20 for unsigned) per step in "
        "-10..10, a boundary lattice around the type limits, literal-bound functions for object targets and "
        "constant reversed bounds; containers: dict/set/str/bytes/bytearray/C-array loops x contents x "
        "break/continue x mutation histories.  Distinct by (function, arguments); non-trivial = at least one "
        "iteration, or the empty/else/exception branch of its stratum")
EXPLANATION = ("theorems: for every width, signedness, start, stop and non-zero constant step the C loop emitted by "
               "ForFromStatNode for range()/reversed(range()) (constant and runtime bound computation) runs an "
               "arbitrary body (break/continue, target reassignment) exactly like Python's loop over "
               "range()/reversed(range()): same values in the same order, same final state/target, else clause "
               "iff no break -- under the explicit hypothesis that no loop-variable value leaves the C type "
               "(refuted without it: F16); object targets need no hypothesis; enumerate counters. "
               "partial: dict/set/str/bytes/bytearray/C-array iteration and mutation detection are compared "
               "differentially against CPython only.")
TRUSTED = ["model of C arithmetic: integer promotions to 32-bit int, signed overflow = UB (explicit outcome), "
           "unsigned and narrowing conversions modular (Lib/CInt.v wrap)",
           "gcc as a conforming C compiler for the generated module",
           "CPython 3.12 as the oracle for container iteration"]
ASSUMPTIONS = ["LP64: char 8, short 16, int 32, long/Py_ssize_t 64 bits",
               "runtime start bound of reversed(range()): for |step| >= 0x7FFF the division is emitted in Py_ssize_t; the "
               "model carries it out in the bounds' own type, which differs only for unsigned long operands >= 2^63 "
               "(counted under the F16 class)",
               "range bounds fit the loop target's C type (otherwise the argument conversion raises/truncates first)"]

# flip to True once proposed_fixes/C14-reversed_range_bound_uses_cdivision.diff is applied to /repo: the start
# bound of reversed(range()) then uses Python's // under every directive setting (model flag floor=true)
CDIV_BOUND_FIXED = os.environ.get("C14_CDIV_BOUND_FIXED", "1") == "1"

CAP = 40           # every body breaks at the CAP-th visit at the latest (wrapped loops would not end)
INIT = 77          # initial value of the target

# (ctype, name, width, signed)
TYPES = [("int", "int", 32, True), ("long", "long", 64, True), ("unsigned int", "uint", 32, False),
         ("Py_ssize_t", "ssize_t", 64, True), ("short", "short", 16, True), ("unsigned char", "uchar", 8, False),
         ("signed char", "schar", 8, True), ("unsigned long", "ulong", 64, False)]
STEPS = [s for s in range(-10, 11) if s != 0] + [100, -100]
BIGSTEPS = [1000000007, -1000000007]


def rng_of(w, sg):
    return (-(2 ** (w - 1)), 2 ** (w - 1) - 1) if sg else (0, 2 ** w - 1)


def sname(s):
    return ("m%d" % -s) if s < 0 else "p%d" % s


BODY = """    cdef {T} i = 77
    cdef bint ran_else = False
    cdef int nvisit = 0
    log = []
    for i in {ITER}:
        log.append(i); nvisit += 1
        if nvisit >= brk: break
        if i & 1: continue
        log.append('e')
    else:
        ran_else = True
    return log, i, ran_else
"""
BODY_OBJ = BODY.replace("    cdef {T} i = 77\n", "    i = 77\n")


FEWSTEPS = [1, -1, 2, -2, 3, -3, 7, -7, 10, -10, 100, -100]
_QUICK = [True]


def steps_for(w, nm=None):
    base = STEPS if (not _QUICK[0] or nm in ("int", "uint")) else FEWSTEPS
    return base + (BIGSTEPS if w >= 32 else [])


def hex_suffix_bad(kind, a, b, s):
    """reversed loop over literal bounds: the start bound is printed as a hex literal directly followed by
    the relation offset (`0xFE-1`), which is not valid C when the last hex digit is E"""
    if kind != "revc":
        return False
    A = abs(s)
    if A == 1:
        b1 = b
    elif s < 0:
        b1 = a - A * ((a - b - 1) // A) - 1
    else:
        b1 = a + A * ((b - a - 1) // A) + 1
    return b1 >= 100 and ("%X" % b1).endswith("E")


def gen_typed(ct, nm, w, sg):
    L = ["# cython: language_level=3", ""]
    for s in steps_for(w, nm):
        L += ["def fwd_%s_%s(%s a, %s b, int brk):" % (nm, sname(s), ct, ct),
              BODY.format(T=ct, ITER="range(a, b, %d)" % s)]
        L += ["def rev_%s_%s(%s a, %s b, int brk):" % (nm, sname(s), ct, ct),
              BODY.format(T=ct, ITER="reversed(range(a, b, %d))" % s)]
    # two-argument / one-argument forms
    L += ["def fwd2_%s(%s a, %s b, int brk):" % (nm, ct, ct), BODY.format(T=ct, ITER="range(a, b)")]
    L += ["def fwd1_%s(%s a, %s b, int brk):" % (nm, ct, ct), BODY.format(T=ct, ITER="range(b)")]
    L += ["def rev1_%s(%s a, %s b, int brk):" % (nm, ct, ct), BODY.format(T=ct, ITER="reversed(range(b))")]
    return "\n".join(L)


MISC_STEPS = [1, -1, 2, -2, 3, -3, 7, -7]


def gen_misc(cdiv):
    """object bounds with typed targets, inferred targets, enumerate, zero/variable step"""
    L = ["# cython: language_level=3" + (", cdivision=True" if cdiv else ""), ""]
    for ct, nm in [("int", "int"), ("long", "long")]:
        for s in MISC_STEPS:
            L += ["def obfwd_%s_%s(a, b, int brk):" % (nm, sname(s)), BODY.format(T=ct, ITER="range(a, b, %d)" % s)]
            L += ["def obrev_%s_%s(a, b, int brk):" % (nm, sname(s)), BODY.format(T=ct, ITER="reversed(range(a, b, %d))" % s)]
            if cdiv:
                L += ["def rev_%s_%s(%s a, %s b, int brk):" % (nm, sname(s), ct, ct),
                      BODY.format(T=ct, ITER="reversed(range(a, b, %d))" % s)]
    if cdiv:
        return "\n".join(L)
    for s in MISC_STEPS:
        L += ["def inffwd_%s(int a, int b, int brk):" % sname(s), BODY_OBJ.format(ITER="range(a, b, %d)" % s)]
        L += ["def infrev_%s(int a, int b, int brk):" % sname(s), BODY_OBJ.format(ITER="reversed(range(a, b, %d))" % s)]
    for kt, kn in [("int", "int"), ("object", "obj"), ("unsigned char", "uchar")]:
        for s in [1, -1, 2, -3]:
            L += ["def enum_%s_%s(int a, int b, start, int brk):" % (kn, sname(s)),
                  "    cdef int i = 77",
                  ("    cdef %s k = 55" % kt) if kt != "object" else "    k = 55",
                  "    cdef bint ran_else = False", "    log = []",
                  "    for k, i in enumerate(range(a, b, %d), start):" % s,
                  "        log.append((k, i))", "        if len(log) >= brk: break",
                  "    else:", "        ran_else = True", "    return log, k, i, ran_else", ""]
    L += ["def enum0_int(int a, int b, int brk):", "    cdef int i = 77, k = 55", "    cdef bint ran_else = False",
          "    log = []", "    for k, i in enumerate(range(a, b)):", "        log.append((k, i))",
          "        if len(log) >= brk: break", "    else:", "        ran_else = True",
          "    return log, k, i, ran_else", ""]
    for ct, nm in [("int", "int"), ("unsigned int", "uint"), ("object", "obj")]:
        decl = ("    cdef %s i = 77" % ct) if ct != "object" else "    i = 77"
        L += ["def zero_%s(a, b, int brk):" % nm, decl, "    log = []", "    for i in range(a, b, 0):",
              "        log.append(i)", "    return log, i, False", ""]
        L += ["def var_%s(a, b, s, int brk):" % nm, decl, "    cdef bint ran_else = False", "    log = []",
              "    for i in range(a, b, s):", "        log.append(i)", "        if len(log) >= brk: break",
              "    else:", "        ran_else = True", "    return log, i, ran_else", ""]
    # body reassigns the target / the bound variable: iteration must not change
    L += ["def reassign_int(int a, int b, int brk):", "    cdef int i = 77", "    cdef bint ran_else = False",
          "    log = []", "    for i in range(a, b, 2):", "        log.append(i)", "        if len(log) >= brk: break",
          "        i = 1000 + i", "        b = b + 5", "        a = a - 5", "    else:", "        ran_else = True",
          "    return log, i, ran_else", ""]
    L += ["def reassign_rev_int(int a, int b, int brk):", "    cdef int i = 77", "    cdef bint ran_else = False",
          "    log = []", "    for i in reversed(range(a, b, 3)):", "        log.append(i)",
          "        if len(log) >= brk: break", "        i = 1000 + i", "        b = b + 5", "        a = a - 5",
          "    else:", "        ran_else = True", "    return log, i, ran_else", ""]
    return "\n".join(L)


def lit_functions(triples):
    """literal bounds: object targets (transformed only for small literals) and typed targets with the
    constant form of the reversed bound -> [(function name, source text, case dict)]"""
    F = []
    for k, (a, b, s) in enumerate(triples):
        small = all(-2 ** 30 <= v < 2 ** 30 for v in (a, b, s))
        fits32 = -2 ** 31 <= a < 2 ** 31 and -2 ** 31 <= b < 2 ** 31
        fits64 = -2 ** 63 <= a < 2 ** 63 and -2 ** 63 <= b < 2 ** 63
        rg = "range(%d, %d, %d)" % (a, b, s)
        # object target: C long loop variable when all three are small literals, else generic iteration
        F.append(("litfwd_obj_%d" % k, BODY_OBJ.format(ITER=rg),
                  dict(kind="fwd", typed=small, w=64, sg=True, a=a, b=b, s=s, where="literal-obj")))
        F.append(("litrev_obj_%d" % k, BODY_OBJ.format(ITER="reversed(%s)" % rg),
                  dict(kind="revc", typed=small, w=64, sg=True, a=a, b=b, s=s, where="literal-obj")))
        if fits32:
            F.append(("litrev_int_%d" % k, BODY.format(T="int", ITER="reversed(%s)" % rg),
                      dict(kind="revc", typed=True, w=32, sg=True, a=a, b=b, s=s, where="literal-int")))
            if k % 3 == 0 or max(abs(a), abs(b)) > 100:
                F.append(("litfwd_int_%d" % k, BODY.format(T="int", ITER=rg),
                          dict(kind="fwd", typed=True, w=32, sg=True, a=a, b=b, s=s, where="literal-int")))
        if fits64 and (k % 3 == 1 or max(abs(a), abs(b)) > 100):
            F.append(("litrev_long_%d" % k, BODY.format(T="long", ITER="reversed(%s)" % rg),
                      dict(kind="revc", typed=True, w=64, sg=True, a=a, b=b, s=s, where="literal-long")))
    return F


def gen_lit_module(funcs):
    L = ["# cython: language_level=3", ""]
    for name, body, c in funcs:
        L += ["def %s(int brk):" % name, body]
    return "\n".join(L)


# --------------------------------------------------------------------------------------------------
# oracle: Python's own loop (independent of the model)
def py_loop(vals, brk, init=INIT):
    log = []
    i = init
    ran_else = False
    n = 0
    for i in vals:
        log.append(i); n += 1
        if n >= brk:
            break
        if i & 1:
            continue
        log.append('e')
    else:
        ran_else = True
    return log, i, ran_else


def oracle(rev, a, b, s, brk):
    try:
        r = range(a, b, s)
    except ValueError as e:
        return ("exc", "ValueError")
    return py_loop(reversed(r) if rev else r, brk)


def range_len(a, b, s):
    if s > 0:
        return (b - a - 1) // s + 1 if a < b else 0
    return (a - b - 1) // (-s) + 1 if b < a else 0


def leaves_type(kind, w, sg, cw, csg, a, b, s):
    """classification from the input: does a loop-variable value (or an intermediate of the reversed
    bound computation) leave the C type?  kind: fwd | revr (runtime bound) | revc (constant bound)"""
    lo, hi = rng_of(w, sg)
    A = abs(s)
    pw, psg = (32, True) if w < 32 else (w, sg)
    plo, phi = rng_of(pw, psg)
    n = range_len(a, b, s)
    neg = s < 0
    if kind == "fwd":
        if not sg and neg:
            return not (a + A <= hi and b + A <= phi)
        return not (lo <= a + s * n <= hi)
    # reversed
    if A == 1:
        b1 = b
    else:
        clo, chi = rng_of(max(cw, 32), csg if cw >= 32 else True)
        if neg:
            d = a - b; d1 = d - 1; m = A * (d1 // A); x = a - m; b1 = x - 1
        else:
            d = b - a; d1 = d - 1; m = A * (d1 // A); x = a + m; b1 = x + 1
        if kind == "revr" and not all(clo <= v <= chi for v in (d, d1, m, x, b1)):
            return True
        if kind == "revr" and A >= 0x7FFF and not (-2 ** 63 <= d1 < 2 ** 63):
            # wide step constant: the division is carried out in Py_ssize_t (spanning_step_type), the
            # unsigned long operand is converted to a signed type
            return True
    off = 1 if neg else -1
    if not (lo <= b1 <= hi):
        return True
    if not sg and not neg:
        return not (lo <= b1 + off + A <= hi and a + A <= phi)
    return not (lo <= b1 + off <= hi and lo <= a - s <= hi)


def cdiv_truncates(a, b, s):
    A = abs(s)
    if A == 1:
        return False
    d1 = (a - b - 1) if s < 0 else (b - a - 1)
    return d1 < 0 and d1 % A != 0


def classify(case):
    kind = case["kind"]
    if case.get("typed") and kind in ("fwd", "revr", "revc"):
        if leaves_type(kind, case["w"], case["sg"], case.get("cw", case["w"]), case.get("csg", case["sg"]),
                       case["a"], case["b"], case["s"]):
            return "typed_range_wraps_at_type_bound"
        if case.get("cdiv") and not CDIV_BOUND_FIXED and kind == "revr" and cdiv_truncates(case["a"], case["b"], case["s"]):
            return "reversed_range_bound_uses_cdivision"
    return "wrong_iteration_" + kind


DRIVER = r"""
import sys, json, importlib
spec = json.load(sys.stdin)
jobs = spec["jobs"]
mods = {}
for ji in range(spec["start"], len(jobs)):
    mn, fn, argl = jobs[ji]
    m = mods.get(mn) or mods.setdefault(mn, importlib.import_module(mn))
    f = getattr(m, fn)
    res = []
    for ai, args in enumerate(argl):
        if ai < spec["skip"].get(str(ji), 0):
            res.append({"e": "CRASH", "m": "process died in this call"}); continue
        sys.stderr.write("@ %d %d\n" % (ji, ai)); sys.stderr.flush()
        try:
            r = f(*args)
            res.append(list(r))
        except Exception as e:
            res.append({"e": type(e).__name__, "m": str(e)[:120]})
    sys.stdout.write("\n" + json.dumps([ji, res]) + "\n"); sys.stdout.flush()
"""


def run_jobs(ctx, jobs):
    """run all jobs in a subprocess; a call that kills the process is recorded as CRASH and the run resumes"""
    results = [None] * len(jobs)
    start, skip, crashes = 0, {}, []
    while start < len(jobs) and len(crashes) < 20:
        r = cybuild.run_script(DRIVER, ctx.workdir, stdin_obj={"jobs": jobs, "start": start, "skip": skip}, timeout=1500)
        for line in r["out"].splitlines():
            if line.startswith("["):
                ji, res = json.loads(line)
                results[ji] = res
        done = [i for i in range(len(jobs)) if results[i] is not None]
        start = (max(done) + 1) if done else start
        if r["rc"] == 0 and start >= len(jobs):
            break
        marks = [l for l in r["err"].splitlines() if l.startswith("@ ")]
        if not marks:
            return None, "rc=%s %s" % (r["rc"], r["err"][-800:])
        _, ji, ai = marks[-1].split()
        crashes.append((int(ji), int(ai), r["rc"]))
        skip[ji] = int(ai) + 1
        start = int(ji)
    return results, crashes


def grid_pairs(sg):
    lo, hi = (-10, 10) if sg else (0, 20)
    return [(a, b) for a in range(lo, hi + 1) for b in range(lo, hi + 1)]


def lattice(w, sg, quick, rng):
    lo, hi = rng_of(w, sg)
    ds = [0, 1, 2, 3, 5, 9, 10, 11] if quick else [0, 1, 2, 3, 4, 5, 6, 7, 9, 10, 11, 19, 20, 21, 99, 100, 101]
    pts = set()
    for d in ds:
        pts.add(lo + d); pts.add(hi - d)
    pts |= ({-2, -1, 0, 1, 2} if sg else {hi // 2, hi // 2 + 1})
    for _ in range(2 if quick else 8):
        pts.add(rng.randrange(lo, hi + 1))
    return sorted(p for p in pts if lo <= p <= hi)


def canon_impl(r):
    if isinstance(r, dict):
        return ("exc", r["e"])
    return tuple(r)


def strip_e(log):
    return [x for x in log if x != 'e']


def parse_model(m):
    """-> (kind, (log, tgt, else), safe)"""
    parts = m.split(" ")
    if parts[0] == "U":
        return "U", None, parts[1] == "1" if len(parts) > 1 else False
    if parts[0] == "F":
        return "F", None, False
    log_s, tgt, e = parts[1].split("|")
    log = [] if log_s == "-" else [int(x) for x in log_s.split(",")]
    return "D", (log, INIT if tgt == "N" else int(tgt), e == "1"), (parts[2] == "1" if len(parts) > 2 else None)


def lit_triples(quick, rng):
    T = set()
    allt = [(a, b, s) for a in range(-10, 11) for b in range(-10, 11) for s in range(-10, 11) if s != 0]
    T.update(rng.sample(allt, 30 if quick else 300))
    B = 2 ** 30
    T.update([(B - 5, B - 1, 2), (-B, -B + 7, 3), (B - 1, B - 9, -3), (-B + 9, -B, -4), (0, B - 1, B - 2),
              (B - 1, -B, -(B - 1)), (-B, B - 1, B - 1), (B - 3, B, 2), (B, B + 5, 2), (-B - 1, -B + 3, 2),
              (0, 5, B), (5, 0, -B - 1), (0, 0, 3), (0, 0, -3), (3, 3, 2), (2, 11, 3), (11, 2, -3),
              (2 ** 31 - 2, 2 ** 31 - 1, 2), (-2 ** 31 + 1, -2 ** 31, -2), (2 ** 31 - 9, 2 ** 31 - 1, 3),
              (-2 ** 31, -2 ** 31 + 9, 4), (2 ** 31 - 1, 2 ** 31 - 9, -3), (-2 ** 31 + 9, -2 ** 31, -4),
              (2 ** 62, 2 ** 62 + 9, 2), (0, 254, 1), (5, 750, 3), (0, 238, 1), (300, 5, -3), (1000, 0, -7)])
    return sorted(T)


def run(ctx):
    quick = ctx.tier == "quick"
    _QUICK[0] = quick
    rng = ctx.rng
    triples = lit_triples(quick, rng)
    types = [t for t in TYPES if not (quick and t[1] == "ssize_t")]      # Py_ssize_t == long on LP64: thorough only
    specs = [dict(name="c14_%s" % nm, source=gen_typed(ct, nm, w, sg), workdir=ctx.workdir) for ct, nm, w, sg in types]
    specs.append(dict(name="c14_misc", source=gen_misc(False), workdir=ctx.workdir))
    specs.append(dict(name="c14_cdiv", source=gen_misc(True), workdir=ctx.workdir))
    litf = lit_functions(triples)
    lit_good = [f for f in litf if not hex_suffix_bad(f[2]["kind"], f[2]["a"], f[2]["b"], f[2]["s"])]
    lit_bad = [f for f in litf if hex_suffix_bad(f[2]["kind"], f[2]["a"], f[2]["b"], f[2]["s"])]
    nlit = 3
    for j in range(nlit):
        specs.append(dict(name="c14_lit%d" % j, source=gen_lit_module(lit_good[j::nlit]), workdir=ctx.workdir))
    if lit_bad:
        specs.append(dict(name="c14_litbad", source=gen_lit_module(lit_bad), workdir=ctx.workdir))
    import props.C14_containers as cont
    specs.append(dict(name="c14_cont", source=cont.source(True), workdir=ctx.workdir))
    built = cybuild.build_many(specs, jobs=8)
    litbad_ok = True
    for (so, err), sp in zip(built, specs):
        if err is not None:
            if sp["name"] == "c14_litbad" and "invalid suffix" in str(err):
                # the generated C does not compile: `0x...E-1` / `0x...E+1` is one preprocessing number
                litbad_ok = False
                for name, body, c in lit_bad:
                    ctx.case("revc/literal-hexE", {"module": "c14_litbad", "func": name}, sig=("c14_litbad", name))
                    ctx.fail("reversed_literal_bound_hex_E_offset_invalid_c",
                             {"module": "c14_litbad", "func": name, "loop": "reversed(range(%d, %d, %d))" % (c["a"], c["b"], c["s"])},
                             "C compiler error: invalid suffix on integer constant", "module builds and iterates like CPython")
                continue
            ctx.corr_break("build " + sp["name"], sp["name"], str(err)[:1500], "module builds")
            return
    model = ctx.model("range")

    jobs = []     # (module, function, [args...])
    metas = []    # per job: list of case dicts
    def add(mod, fn, argl, cases):
        jobs.append((mod, fn, argl)); metas.append(cases)

    brks = [CAP, 1, 3] if quick else [CAP, 1, 2, 3, 7]
    for ct, nm, w, sg in types:
        gp = grid_pairs(sg)
        lat = lattice(w, sg, quick, rng)
        lp = [(a, b) for a in lat for b in lat]
        for s in steps_for(w, nm):
            for kind, pre in (("fwd", "fwd"), ("revr", "rev")):
                argl, cases = [], []
                pairs = [(a, b, "grid") for a, b in gp] if abs(s) <= 10 else []
                lps = lp if (not quick or abs(s) <= 3 or abs(s) >= 100) else rng.sample(lp, min(len(lp), 60))
                pairs += [(a, b, "bound") for a, b in lps]
                for a, b, where in pairs:
                    for brk in (brks if where == "grid" and (a + b) % 4 == 0 else [CAP]):
                        argl.append([a, b, brk])
                        cases.append(dict(kind=kind, typed=True, w=w, sg=sg, a=a, b=b, s=s, brk=brk, where=where))
                add("c14_" + nm, "%s_%s_%s" % (pre, nm, sname(s)), argl, cases)
        for fn, kind, mk in (("fwd2_" + nm, "fwd", lambda a, b: (a, b, 1)), ("fwd1_" + nm, "fwd", lambda a, b: (0, b, 1)),
                             ("rev1_" + nm, "revr", lambda a, b: (0, b, 1))):
            argl, cases = [], []
            for a, b in gp[::3] + lp[::2]:
                a2, b2, s2 = mk(a, b)
                argl.append([a, b, CAP])
                cases.append(dict(kind=kind, typed=True, w=w, sg=sg, a=a2, b=b2, s=s2, brk=CAP, where="short-form"))
            add("c14_" + nm, fn, argl, cases)
    # object bounds / inferred / cdivision
    for cdiv, mod in ((False, "c14_misc"), (True, "c14_cdiv")):
        for ct, nm, w in (("int", "int", 32), ("long", "long", 64)):
            lat = lattice(w, True, True, rng)
            pairs = grid_pairs(True)[::2] + [(a, b) for a in lat for b in lat][::3]
            for s in MISC_STEPS:
                kinds = [("fwd", "obfwd"), ("revr", "obrev")] + ([("revr", "rev")] if cdiv else [])
                for kind, pre in kinds:
                    argl = [[a, b, CAP] for a, b in pairs]
                    cases = [dict(kind=kind, typed=True, w=w, sg=True, cw=(64 if pre.startswith("ob") else w), csg=True,
                                  a=a, b=b, s=s, brk=CAP, cdiv=cdiv, where="objbounds" if pre.startswith("ob") else "cdiv")
                             for a, b in pairs]
                    add(mod, "%s_%s_%s" % (pre, nm, sname(s)), argl, cases)
    lat = lattice(32, True, True, rng)
    pairs = grid_pairs(True)[::2] + [(a, b) for a in lat for b in lat][::3]
    for s in MISC_STEPS:
        for kind, pre in (("fwd", "inffwd"), ("revr", "infrev")):
            add("c14_misc", "%s_%s" % (pre, sname(s)), [[a, b, CAP] for a, b in pairs],
                [dict(kind=kind, typed=True, w=32, sg=True, a=a, b=b, s=s, brk=CAP, where="inferred") for a, b in pairs])
    # literal bounds
    groups = [("c14_lit%d" % j, lit_good[j::nlit]) for j in range(nlit)]
    if lit_bad and litbad_ok:
        groups.append(("c14_litbad", lit_bad))
    for mod, fl in groups:
        for name, body, c in fl:
            for brk in (CAP, 2):
                add(mod, name, [[brk]], [dict(c, brk=brk, generic=not c["typed"])])
    # reassignment of target and bounds inside the body
    pairs = grid_pairs(True)[::2]
    add("c14_misc", "reassign_int", [[a, b, CAP] for a, b in pairs],
        [dict(kind="fwd", typed=True, w=32, sg=True, a=a, b=b, s=2, brk=CAP, where="reassign", reassign=True) for a, b in pairs])
    add("c14_misc", "reassign_rev_int", [[a, b, CAP] for a, b in pairs],
        [dict(kind="revr", typed=True, w=32, sg=True, a=a, b=b, s=3, brk=CAP, where="reassign", reassign=True) for a, b in pairs])
    # zero / variable step (not transformed: must still behave like Python)
    zpairs = [(0, 5), (5, 0), (0, 0), (-3, 3)]
    for nm in ("int", "uint", "obj"):
        add("c14_misc", "zero_" + nm, [[a, b, CAP] for a, b in zpairs if nm != "uint" or a >= 0],
            [dict(kind="zero", a=a, b=b, s=0, brk=CAP, where="zero-step") for a, b in zpairs if nm != "uint" or a >= 0])
        vs = [(a, b, s) for a, b in [(0, 7), (7, 0), (2, 2), (0, 20)] for s in (1, -1, 2, -3, 0, 5)]
        add("c14_misc", "var_" + nm, [[a, b, s, CAP] for a, b, s in vs],
            [dict(kind="var", a=a, b=b, s=s, brk=CAP, where="variable-step") for a, b, s in vs])
    # enumerate
    epairs = [(a, b) for a in range(-4, 5) for b in range(-4, 5)]
    for kn, kw, ksg in (("int", 32, True), ("obj", 0, True), ("uchar", 8, False)):
        starts = {"int": [0, 5, -3, 2 ** 31 - 3, -2 ** 31], "obj": [0, 5, -3, 2 ** 70, -2 ** 63 - 1],
                  "uchar": [0, 5, 250, 255]}[kn]
        for s in (1, -1, 2, -3):
            argl, cases = [], []
            for a, b in epairs:
                for st in starts:
                    for brk in (CAP, 2):
                        argl.append([a, b, st, brk])
                        cases.append(dict(kind="enum", kw=kw, ksg=ksg, start=st, a=a, b=b, s=s, brk=brk, where="enumerate"))
            add("c14_misc", "enum_%s_%s" % (kn, sname(s)), argl, cases)
    add("c14_misc", "enum0_int", [[a, b, CAP] for a, b in epairs],
        [dict(kind="enum", kw=32, ksg=True, start=0, a=a, b=b, s=1, brk=CAP, where="enumerate") for a, b in epairs])

    results, crashes = run_jobs(ctx, jobs)
    if results is None or any(x is None for x in results):
        ctx.corr_break("range driver", "all jobs", str(crashes)[-1500:], "results for every job")
        return

    # model queries
    mq = []
    for (mod, fn, argl), cases in zip(jobs, metas):
        for c in cases:
            k = c["kind"]
            fuel = CAP + 5
            if k == "fwd" and c.get("typed"):
                mq.append("fwd %d %d %d %d %d %d %d" % (c["w"], c["sg"], c["a"], c["b"], c["s"], c["brk"], fuel))
            elif k == "revr" and c.get("typed"):
                mq.append("revr %d %d %d %d %d %d %d %d %d %d" % (0 if (c.get("cdiv") and not CDIV_BOUND_FIXED) else 1, c["w"], c["sg"], c.get("cw", c["w"]),
                                                                 c.get("csg", c["sg"]), c["a"], c["b"], c["s"], c["brk"], fuel))
            elif k == "revc" and c.get("typed"):
                mq.append("revc %d %d %d %d %d %d %d" % (c["w"], c["sg"], c["a"], c["b"], c["s"], c["brk"], fuel))
            elif k == "enum":
                typed = 1 if c["kw"] else 0
                mq.append("enum 32 1 %d %d %d %d %d %d %d %d %d" % (c["kw"] or 64, c["ksg"], typed, c["start"], c["a"], c["b"],
                                                                   c["s"], c["brk"], fuel))
            else:
                mq.append("pyfor %d %d %d %d %d" % (1 if k == "revc" else 0, c["a"], c["b"], c["s"] or 1, c["brk"]))
    mres = model.batch(mq)
    mi = 0
    nbad = {}
    if crashes:
        ctx.note("calls that killed the process (recorded as CRASH outcomes): %s" % ([(jobs[j][1], jobs[j][2][i], rc) for j, i, rc in crashes[:10]],))
    for (mod, fn, argl), cases, res in zip(jobs, metas, results):
        for args, c, got_raw in zip(argl, cases, res):
            m = mres[mi]; mi += 1
            inp = {"module": mod, "func": fn, "args": args}
            k = c["kind"]
            got = canon_impl(got_raw)
            stratum = "%s/%s/%s" % (k, c.get("where", ""), ("w%d%s" % (c["w"], "s" if c["sg"] else "u")) if "w" in c else "-")
            ctx.case(stratum, inp, sig=(mod, fn, tuple(args)))
            if k == "enum":
                _check_enum(ctx, inp, c, got, m)
                continue
            # ---- property oracle
            exp = oracle(k in ("revr", "revc"), c["a"], c["b"], c["s"], c["brk"])
            if exp[0] != "exc" and (k in ("zero", "var") or c.get("reassign")):
                exp = (strip_e(exp[0]), exp[1], exp[2])      # these bodies write no 'e' markers
            if c.get("reassign") and exp[0] != "exc":
                log, fin, e = exp
                if log and not (len(strip_e(log)) >= c["brk"]):
                    fin = 1000 + fin          # body re-assigned the target after the last visit
                elif log and len(strip_e(log)) >= c["brk"]:
                    pass
                exp = (log, fin, e)
            if exp[0] == "exc":
                ok = got == exp
            else:
                ok = got[0] != "exc" and (list(got[0]), got[1], bool(got[2])) == (exp[0], exp[1], exp[2])
            if not ok and nbad.get(classify(c), 0) < (300 if classify(c) in getattr(ctx, "known_classes", {}) else 3):
                nbad[classify(c)] = nbad.get(classify(c), 0) + 1
                ctx.fail(classify(c), dict(inp, **{x: c[x] for x in ("kind", "a", "b", "s")}), _short(got), _short(exp),
                         note="model says %s" % m[:200])
            # ---- tie: model vs implementation
            if k in ("zero", "var") or not c.get("typed") or c.get("reassign"):
                continue
            mk, mv, safe = parse_model(m)
            if k == "revr" and abs(c["s"]) >= 0x7FFF and not c["sg"] and c["w"] == 64 and classify(c) == "typed_range_wraps_at_type_bound":
                continue        # division in Py_ssize_t for wide step constants: outside the model (and the theorem's hypothesis)
            if mk == "U":
                continue        # the C text has undefined behaviour here: nothing to tie (oracle still applied above)
            if mk == "F" or got[0] == "exc":
                ctx.corr_break("range:" + k, inp, _short(got), m[:200]); continue
            if (strip_e(list(got[0])), got[1], bool(got[2])) != (mv[0], mv[1], mv[2]):
                ctx.corr_break("range:" + k, inp, _short(got), m[:300])
            if safe and not ok and not c.get("cdiv"):
                ctx.corr_break("range-safe-flag:" + k, inp, _short(got), "model claims the safe hypothesis holds: " + m[:200])
    cont.run(ctx, quick)


def _check_enum(ctx, inp, c, got, m):
    a, b, s, st, brk = c["a"], c["b"], c["s"], c["start"], c["brk"]
    log = []; k = 55; i = INIT; ran_else = False
    for k, i in enumerate(range(a, b, s), st):
        log.append([k, i])
        if len(log) >= brk:
            break
    else:
        ran_else = True
    n = range_len(a, b, s)
    if c["kw"]:
        lo, hi = rng_of(c["kw"], c["ksg"])
        if not (lo <= st <= hi):
            # a typed counter cannot take a start value outside its type: OverflowError at conversion time
            if not (got[0] == "exc" and got[1] == "OverflowError"):
                ctx.fail("enumerate_start_conversion", inp, _short(got), "OverflowError")
            return
        if st + max(n - 1, 0) > hi:
            return          # Python's counter values do not fit the declared C type: outside the property
    if got[0] == "exc":
        ctx.fail(classify(c), inp, _short(got), _short((log, k, i, ran_else)))
        return
    g = ([list(p) for p in got[0]], got[1], got[2], bool(got[3]))
    if g != (log, k, i, ran_else):
        ctx.fail(classify(c), inp, _short(g), _short((log, k, i, ran_else)), note="model " + m[:200])
    if m.startswith("D "):
        body = m[2:].split("|")
        ml = [] if body[0] == "-" else [[int(x) for x in p.split(":")] for p in body[0].split(",")]
        if (ml, body[1] == "1") != (g[0], g[3]):
            ctx.corr_break("range:enum", inp, _short(g), m[:300])
    else:
        ctx.corr_break("range:enum", inp, _short(g), m[:300])


def _short(x):
    s = repr(x)
    return s if len(s) < 600 else s[:600] + "..."


def replay(ctx, obj):
    inp = obj["input"]
    print("replay: rerun ./check C14 (modules are generated deterministically from the seed); failing call:",
          json.dumps(inp), "observed", obj.get("observed"), "expected", obj.get("expected"))
