"""C07 — power operator follows the documented cpow rules (DESIGN 7/C07)."""
import os, json, math, time, sys


def _t(ctx, label):
    if os.environ.get("C07_TIMING"):
        sys.stderr.write("[C07 %.1fs] %s\n" % (time.time() - ctx.t0, label))
import cybuild, framework

TITLE = "Power operator follows the documented cpow rules"
EXTRACTS = ["IntPow"]
RULE = ("(C type, base, exponent) triples for the integer helper: all exponents -3..70 x boundary/PRNG bases per type; "
        "2**n object fast path on a boundary set of n; result-type matrix (operand types x exponent kinds x cpow) "
        "dumped via cython.typeof from the running compiler; destination rule: one generated function per (cpow unset/True/False "
        "x set by decorator/with-block/header, operand class incl. C int widths, float/double, double complex, object, constant bases, "
        "exponent kind incl. negative/non-negative/integral-float/fractional constants and run-time int/unsigned/float/complex/object, "
        "destination: none, inferred local, C int/long, C double/float, double complex, object by assignment, typed cdef return, "
        "C argument, cast, C arithmetic) - analysed tree dumped (type of the power node, compile error, fallback warning) and "
        "accepted functions run on boundary operand values; distinct by (function, operands)")
EXPLANATION = ("theorems: __Pyx_pow_<T>(b,e) = b^e reduced mod 2^w for every width/signedness/base/exponent>=0 (exact when it "
               "fits), 0 for negative exponents, loop terminates; 2**n fast path = 2^n with defined shifts; the compiler's "
               "result-type table (regenerated each run) lies inside the documented cpow table (finite, by computation); "
               "destination rule (PowNode.compute_c_result_type + coerce_to): model = documented rule for all settings/operand "
               "classes/exponent kinds/destinations, an explicit cpow value is never re-typed by the destination, unset = False "
               "except the warned direct-C-real fallback, under explicit False C semantics only reach a destination where they "
               "coincide with Python's and a non-real soft-complex value raises TypeError; the table dumped from the analysed tree "
               "of the running compiler equals the documented function on every row (finite, by computation). "
               "partial: float/complex pow is libm's pow()/cpow(), compared differentially only; casts of complex/soft-complex "
               "powers and typed in-place **= are not described by the model.")
TRUSTED = ["libm pow/powf and C99 cpow (not modelled)", "cython.typeof as the observer of the result type",
           "the documented table transcribed by hand in Model/M_PowDoc.v",
           "the analysed tree (type of the PowNode after AnalyseExpressionsTransform, error/warning lines mapped to functions) as the "
           "observer of the destination rule; run-time values confirm it on accepted functions",
           "the unset-directive fallback (comment in PowNode.coerce_to: direct assignment to a C int/float is treated as cpow=True, "
           "with a level-0 warning) is taken as specified although the user guide only documents default=False"]
ASSUMPTIONS = ["LP64", "signed overflow in the integer helper is UB in C: compared only where b^e fits or the type is unsigned",
               "operand classes stand for their members: C int widths short/int/long, unsigned int/long, float/double, double complex, "
               "object / Python int annotation, int and float constants as bases"]

A = [("int", "int", "AInt"), ("long", "long", "AInt"), ("unsigned int", "uint", "AUInt"), ("short", "short", "AInt"),
     ("unsigned long", "ulong", "AUInt"), ("float", "float", "AFloat"), ("double", "double", "AFloat")]
BC = [("negc", "-2", "BNegIntConst"), ("negc1", "-1", "BNegIntConst"), ("posc", "3", "BNonNegIntConst"),
      ("zeroc", "0", "BNonNegIntConst"), ("negfc", "-2.0", "BIntegralFloatConst"), ("posfc", "2.5", "BFloatConst"),
      ("posfic", "2.0", "BIntegralFloatConst")]
BT = [("int", "int", "BRuntimeSignedInt"), ("unsigned int", "uint", "BRuntimeUnsignedInt"), ("long", "long", "BRuntimeSignedInt"),
      ("unsigned char", "uchar", "BRuntimeUnsignedInt"), ("double", "double", "BRuntimeFloat"), ("float", "float", "BRuntimeFloat")]


def typeof_source():
    L = ["# cython: language_level=3", "cimport cython"]
    rows = []
    for cp in (True, False):
        for at, an, ak in A:
            for bn, bv, bk in BC:
                fn = "t_%s_%s_%d" % (an, bn, cp)
                rows.append((fn, cp, ak, bk, 1))
                L += ["@cython.cpow(%s)" % cp, "def %s(%s a):" % (fn, at), "    return cython.typeof(a ** %s)" % bv]
            for bt, bn, bk in BT:
                fn = "t_%s_r%s_%d" % (an, bn, cp)
                rows.append((fn, cp, ak, bk, 2))
                L += ["@cython.cpow(%s)" % cp, "def %s(%s a, %s b):" % (fn, at, bt), "    return cython.typeof(a ** b)"]
    return "\n".join(L) + "\n", rows


INT_TYPES = {"char", "signed char", "unsigned char", "short", "unsigned short", "int", "unsigned int", "long",
             "unsigned long", "long long", "unsigned long long", "Py_ssize_t", "size_t"}


def rcat(t):
    t = t.strip("'\"")
    if t in INT_TYPES:
        return "RInt"
    if t in ("float", "double", "long double"):
        return "RFloat"
    if t.startswith("soft ") and "complex" in t:
        return "RSoftComplex"
    return "ROther"


def dump_table(workdir):
    src, rows = typeof_source()
    cybuild.build("c07_types", src, workdir)
    res = cybuild.call_cases(workdir, [["c07_types.%s" % r[0], [1] * r[4]] for r in rows], setup="import c07_types")
    out = []
    for r, v in zip(rows, res):
        out.append((r[0], r[1], r[2], r[3], rcat(v.get("r", "")) if "r" in v else "ROther", v.get("r", v.get("e"))))
    return out


# ------------------------------------------------------------------------------------------------
# destination (coercion) rule: PowNode.compute_c_result_type + PowNode.coerce_to
# One generated cdef function per (cpow setting x how it is set, type of a, kind of b, destination x
# coercion context).  The analysed tree of the running compiler is dumped (type of the PowNode,
# compile errors and the fallback warning per function) -> Gen_Pow.pow_crows; accepted functions are
# also built and run.
C_A = [("short", "short", "AInt"), ("int", "int", "AInt"), ("long", "long", "AInt"), ("unsigned int", "uint", "AUInt"),
       ("unsigned long", "ulong", "AUInt"), ("float", "float", "AFloat"), ("double", "double", "AFloat"),
       ("double complex", "dcplx", "AComplex"), ("object", "obj", "AObj"), ("pyint", "pyint", "AObj"),
       # constant bases (op1_is_definitely_positive through constant_result); the parameter `a` is unused
       # (negative constant bases are left out: their constant nodes are re-typed with the power and the unset
       #  fallback then does not recognise them - see the report; not part of the documented table)
       ("int", "cpos3", "APosIntConst"), ("double", "cpos2f", "APosFloat")]
C_ACONST = {"cpos3": ("3", [3]), "cpos2f": ("2.0", [2.0])}
C_BC = [("negc", "-2", "BNegIntConst"), ("negc1", "-1", "BNegIntConst"), ("posc", "3", "BNonNegIntConst"),
        ("zeroc", "0", "BNonNegIntConst"), ("negfc", "-2.0", "BIntegralFloatConst"), ("posfic", "2.0", "BIntegralFloatConst"),
        ("posfc", "2.5", "BFloatConst"), ("halfc", "0.5", "BFloatConst"), ("nhalfc", "-0.5", "BFloatConst"),
        ("cplxc", "2j", "BComplexConst")]
C_BT = [("int", "int", "BRuntimeSignedInt"), ("long", "long", "BRuntimeSignedInt"), ("unsigned int", "uint", "BRuntimeUnsignedInt"),
        ("unsigned char", "uchar", "BRuntimeUnsignedInt"), ("double", "double", "BRuntimeFloat"), ("float", "float", "BRuntimeFloat"),
        ("double complex", "dcplx", "BRuntimeComplex"), ("object", "obj", "BObj")]
# (name, C type, context, model destination)
C_D = [("none", None, "expr", "DNone"), ("none", None, "infer", "DNone"),     # infer: untyped local, type inference
       ("int", "int", "assign", "DCInt"), ("long", "long", "assign", "DCInt"),
       ("double", "double", "assign", "DCFloat"), ("float", "float", "assign", "DCFloat"),
       ("dcplx", "double complex", "assign", "DCComplex"), ("obj", "object", "assign", "DPyObj"),
       ("int", "int", "ret", "DCInt"), ("double", "double", "ret", "DCFloat"),
       ("int", "int", "carg", "DCInt"), ("double", "double", "carg", "DCFloat"),
       ("int", "int", "cast", "DCastInt"), ("double", "double", "cast", "DCastFloat"),
       ("int", "int", "arith", "DArithInt"), ("double", "double", "arith", "DArithFloat")]
C_CFG = [("CUnset", None, "unset"), ("CTrue", True, "deco"), ("CFalse", False, "deco"), ("CTrue", True, "with"),
         ("CFalse", False, "with"), ("CTrue", True, "header"), ("CFalse", False, "header")]
Q_A = {"int", "uint", "double", "dcplx", "obj", "cpos3", "cpos2f"}
Q_B = {"negc", "posc", "posfic", "halfc", "cplxc", "rint", "ruint", "rdouble", "rdcplx", "robj"}
Q_D_SMALL = {("none", "expr"), ("int", "assign"), ("double", "assign"), ("dcplx", "assign"), ("obj", "assign")}


def _arg(t, n):
    if t == "object":
        return n
    if t == "pyint":
        return "%s: int" % n
    return "%s %s" % (t, n)


def coerce_funcs(ccls, cp, how, quick):
    """-> list of dict(fn, sig, src lines ...): `cdef object fn(args)` with the power expression in
    the given coercion context; identical text in the dump module and in the run-time module"""
    out = []
    tag = {"CUnset": "u", "CTrue": "t", "CFalse": "f"}[ccls] + how[0]
    for at, an, ak in C_A:
        if quick and an not in Q_A:
            continue
        bs = [(n, v, k, None) for n, v, k in C_BC] + [("r" + n, "b", k, t) for t, n, k in C_BT]
        for bn, bv, bk, bt in bs:
            if quick and bn not in Q_B:
                continue
            if an in C_ACONST and bt is None:
                continue          # constant ** constant is folded before analysis: no power node left
            for dn, dt, cx, dcls in C_D:
                if quick and how in ("with", "header") and (dn, cx) not in Q_D_SMALL:
                    continue
                fn = "k_%s_%s_%s_%s_%s" % (tag, an, bn, dn, cx)
                args = _arg(at, "a") + ("" if bt is None else ", " + _arg(bt, "b"))
                e = "%s ** %s" % (C_ACONST.get(an, ("a",))[0], bv)
                deco = ["@cython.cpow(%s)" % cp] if how == "deco" else []
                wth = ["with cython.cpow(%s):" % cp] if how == "with" else None
                L = []
                if cx == "ret":
                    body = ["return %s" % e]
                    if wth:
                        body = wth + ["    " + b for b in body]
                    L += deco + ["cdef %s h%s(%s):" % (dt, fn, args)] + ["    " + b for b in body]
                    L += ["cdef object %s(%s):" % (fn, args), "    return h%s(a%s)" % (fn, "" if bt is None else ", b")]
                else:
                    pre = []
                    if cx == "expr":
                        body = ["return %s" % e]
                    elif cx == "infer":
                        body = ["r = %s" % e, "return r"]
                    elif cx == "assign":
                        pre, body = ["cdef %s r" % dt], ["r = %s" % e, "return r"]
                    elif cx == "carg":
                        body = ["return id_%s(%s)" % (dn, e)]
                    elif cx == "cast":
                        body = ["return <%s>(%s)" % (dt, e)]
                    else:
                        pre, body = ["cdef %s one = 1" % dt], ["return (%s) * one" % e]
                    if wth:
                        body = wth + ["    " + b for b in body]
                    L += deco + ["cdef object %s(%s):" % (fn, args)] + ["    " + b for b in pre + body]
                out.append({"fn": fn, "sig": (at, bt), "lines": L, "c": ccls, "how": how, "an": an, "ak": ak, "at": at,
                            "bn": bn, "bk": bk, "bt": bt, "bv": bv, "dn": dn, "dt": dt, "cx": cx, "d": dcls})
    return out


def coerce_module(funcs, cp, how):
    """module text + line -> function map + dispatcher names"""
    L = []
    if how == "header":
        L.append("# cython: cpow=%s" % cp)
    L += ["cimport cython", "cdef int id_int(int x): return x", "cdef double id_double(double x): return x"]
    lines = {}
    sigs = {}
    for i, f in enumerate(funcs):
        st = len(L) + 1
        L += f["lines"]
        for k in range(st, len(L) + 1):
            lines[k] = f["fn"]
        sigs.setdefault(f["sig"], []).append((i, f["fn"]))
    disp = {}
    for n, ((at, bt), fl) in enumerate(sorted(sigs.items(), key=repr)):
        dn = "disp%d" % n
        disp[(at, bt)] = dn
        args = _arg(at, "a") + ("" if bt is None else ", " + _arg(bt, "b"))
        L += ["def %s(int i, %s):" % (dn, args)]
        for i, fn in fl:
            L += ["    if i == %d: return %s(a%s)" % (i, fn, "" if bt is None else ", b")]
        L += ["    raise KeyError(i)"]
    return "\n".join(L) + "\n", lines, disp


DUMP_SCRIPT = r"""
import sys, os, io, json, re
import pyload; pyload.install()
from Cython.Compiler import Main, Options, Errors, Pipeline
from Cython.Compiler.Visitor import TreeVisitor
from Cython.Compiler.ParseTreeTransforms import AnalyseExpressionsTransform
pyload.assert_sources()
spec = json.load(sys.stdin)

class Dump(TreeVisitor):
    def __init__(self):
        super().__init__(); self.rows = {}; self.fn = None
    def visit_FuncDefNode(self, node):
        old = self.fn; self.fn = node.entry.name
        self.visitchildren(node); self.fn = old
    def visit_PowNode(self, node):
        self.rows.setdefault(self.fn, []).append(str(node.type))
        self.visitchildren(node)
    def visit_Node(self, node):
        self.visitchildren(node)

path = spec["path"]
directives = dict(Options.get_directive_defaults()); directives["language_level"] = 3
opts = Main.CompilationOptions(Main.default_options, compiler_directives=directives, output_file=os.path.splitext(path)[0] + ".c")
ctx = Main.Context.from_options(opts)
src = Main.CompilationSource(Main.FileSourceDescriptor(path, path), spec["name"], os.getcwd())
result = Main.create_default_resultobj(src, opts)
pipeline = Pipeline.create_pyx_pipeline(ctx, opts, result)
cut = [i for i, p in enumerate(pipeline) if isinstance(p, AnalyseExpressionsTransform)][0]
d = Dump()
def dump(node):
    d.visit(node); return node
err = io.StringIO(); old = sys.stderr; sys.stderr = err
try:
    Errors.init_thread(); Errors.LEVEL = 0
    Errors.open_listing_file(None, echo_to_stderr=True)
    e, data = Pipeline.run_pipeline(pipeline[:cut + 1] + [dump], src)
finally:
    sys.stderr = old
errs = []
for m in re.finditer(r"^(warning: )?([^\n:]+):(\d+):\d+: (.*)$", err.getvalue(), re.M):
    errs.append([int(m.group(3)), bool(m.group(1)), m.group(4)[:160]])
print(json.dumps({"rows": d.rows, "errs": errs, "exc": repr(e) if e is not None else None,
                  "tail": err.getvalue()[-600:] if (e is not None and not errs) else ""}))
"""


def rcat2(t):
    r = rcat(t)
    if r != "ROther":
        return r
    if t.endswith("complex"):
        return "RComplex"
    if t.endswith("object"):
        return "RObj"
    return "ROther"


def dump_coerced(workdir, quick):
    """run the analysis phase of the compiler under test over one module per cpow configuration"""
    import concurrent.futures as cf
    os.makedirs(workdir, exist_ok=True)
    jobs = []
    for n, (ccls, cp, how) in enumerate(C_CFG):
        funcs = coerce_funcs(ccls, cp, how, quick)
        src, lines, disp = coerce_module(funcs, cp, how)
        name = "c07_cd%d" % n
        wd = os.path.join(workdir, name)
        os.makedirs(wd, exist_ok=True)
        path = os.path.join(wd, name + ".pyx")
        with open(path, "w") as f:
            f.write(src)
        jobs.append((name, wd, path, funcs, lines, (ccls, cp, how)))

    def one(j):
        name, wd, path, funcs, lines, cfg = j
        r = cybuild.run_script(DUMP_SCRIPT, wd, {"path": path, "name": name}, timeout=900)
        return r
    with cf.ThreadPoolExecutor(max_workers=len(jobs)) as ex:
        results = list(ex.map(one, jobs))
    entries, problems = [], []
    for (name, wd, path, funcs, lines, cfg), r in zip(jobs, results):
        js = r["json"]
        if not js or js.get("exc") and not js.get("errs"):
            problems.append((name, (r["err"] or "")[-600:] + str(js and js.get("tail"))))
            continue
        errs, warns = {}, {}
        for ln, w, msg in js["errs"]:
            fn = lines.get(ln)
            if fn is None:
                problems.append((name, "message outside generated functions: line %d %s" % (ln, msg)))
                continue
            (warns if w else errs).setdefault(fn, []).append(msg)
        for f in funcs:
            ts = js["rows"].get(f["fn"]) or js["rows"].get("h" + f["fn"]) or []
            e = dict(f)
            e["mod"] = name
            e["raw"] = ts[0] if len(ts) == 1 else "?%r" % (ts,)
            e["r"] = rcat2(ts[0]) if len(ts) == 1 else "ROther"
            e["errs"] = errs.get(f["fn"], []) + errs.get("h" + f["fn"], [])
            e["rejected"] = bool(e["errs"])
            ws = warns.get(f["fn"], []) + warns.get("h" + f["fn"], [])
            e["warned"] = any("as if 'cython.cpow(True)'" in w for w in ws)
            entries.append(e)
    return entries, problems


def coq_opnd(ak):
    return {"AComplex": "OComplex", "AObj": "OObj", "APosFloat": "OPosFloat", "APosIntConst": "OPosIntConst"}.get(ak, "(OC %s)" % ak)


def coq_ekind(bk):
    return {"BComplexConst": "EComplexConst", "BRuntimeComplex": "ERuntimeComplex", "BObj": "EObj"}.get(bk, "(EC %s)" % bk)


# ---- independent transcription of the documented rule (property oracle for the coerced table):
# docs/src/userguide/cpow_table.csv for the type, the PowNode.coerce_to comment for `unset`
def py_pow_type(cpow, a, b):
    if a == "AObj" or b == "BObj":
        return "RObj"
    if a == "AComplex" or b in ("BComplexConst", "BRuntimeComplex"):
        return "RComplex"
    a_int = a in ("AInt", "AUInt", "APosIntConst")
    b_int = b in ("BNegIntConst", "BNonNegIntConst", "BRuntimeSignedInt", "BRuntimeUnsignedInt")
    if a_int and b == "BNegIntConst":
        return "RFloat"
    if a_int and b in ("BNonNegIntConst", "BRuntimeUnsignedInt"):
        return "RInt"
    if a_int and b == "BRuntimeSignedInt":
        return "RInt" if cpow else "RFloat"
    if b_int:
        return "RFloat"
    if cpow or a in ("AUInt", "APosFloat", "APosIntConst") or b == "BIntegralFloatConst":      # base known >= 0 / exponent integral
        return "RFloat"
    return "RSoftComplex"


def py_assignable(r, d):
    if d == "DCInt":
        return r in ("RInt", "RObj")
    if d == "DCFloat":
        return r in ("RInt", "RFloat", "RSoftComplex", "RObj")
    return r != "ROther"


def py_coerced(c, a, b, d):
    """-> (type, rejected, warned)"""
    if c != "CUnset":
        r = py_pow_type(c == "CTrue", a, b)
        return (r, not py_assignable(r, d), False)
    r0, r1 = py_pow_type(False, a, b), py_pow_type(True, a, b)
    c_real = a in ("AInt", "AUInt", "AFloat", "APosFloat", "APosIntConst") and r0 in ("RInt", "RFloat", "RSoftComplex")
    fb = False
    if d in ("DCInt", "DCFloat") and c_real and r0 != r1:
        fb = r0 == "RSoftComplex" or (d == "DCInt" and r1 == "RInt" and a != "APosIntConst")
    r = r1 if fb else r0
    return (r, not py_assignable(r, d), fb)


def pre_coq(ctx):
    wd = os.path.join(ctx.workdir, "types")
    quick = ctx.tier == "quick"
    import threading
    box = {}

    def bg():
        try:
            box["dump"] = dump_coerced(os.path.join(ctx.workdir, "coerce"), quick)
        except Exception as e:  # noqa
            box["dump_exc"] = repr(e)
    th = threading.Thread(target=bg)
    th.start()
    table = dump_table(wd)
    _t(ctx, 'typeof table built')
    th.join()
    _t(ctx, 'coerced dump done')
    ctx._c07_table = table
    ctx._c07_dump = box
    entries = box.get("dump", ([], []))[0]
    crows = sorted({(e["c"], coq_opnd(e["ak"]), coq_ekind(e["bk"]), e["d"], e["r"], e["rejected"], e["warned"]) for e in entries})
    # run-time modules of the accepted functions are built while Coq runs
    start_runtime_builds(ctx, entries)
    body = ";\n  ".join("(%s, %s, %s, %s)" % ("true" if cp else "false", ak, bk, rc) for _, cp, ak, bk, rc, _ in table)
    cbody = ";\n  ".join("(%s, %s, %s, %s, (%s, %s, %s))" % (c, a, b, d, r, "true" if rej else "false", "true" if w else "false")
                         for c, a, b, d, r, rej, w in crows)
    txt = ("(* generated by props/C07.py from the running compiler: cython.typeof(a ** b) *)\n"
           "From Coq Require Import List Bool.\nFrom CyVerif Require Import Model.M_PowDoc.\nImport ListNotations.\n"
           "Definition pow_rows : list (bool * atype * bkind * rtype) := [\n  %s ].\n"
           "(* analysed tree of the running compiler: (cpow, a, b, destination, (PowNode type, rejected, warned)),\n"
           "   distinct rows over all generated functions *)\n"
           "Definition pow_crows : list crow := [\n  %s ].\n" % (body, cbody))
    p = os.path.join(framework.COQ, "theories", "Gen", "Gen_Pow.v")
    os.makedirs(os.path.dirname(p), exist_ok=True)
    if not os.path.exists(p) or open(p).read() != txt:
        with open(p, "w") as f:
            f.write(txt)


def doc_allows(cpow, a, b, r):
    """independent transcription of docs/src/userguide/cpow_table.csv (the property oracle)"""
    a_int = a in ("AInt", "AUInt")
    b_int = b in ("BNegIntConst", "BNonNegIntConst", "BRuntimeSignedInt", "BRuntimeUnsignedInt")
    if a_int and b == "BNegIntConst":
        return r == "RFloat"
    if a_int and b in ("BNonNegIntConst", "BRuntimeUnsignedInt"):
        return r == "RInt"
    if a_int and b == "BRuntimeSignedInt":
        return r == ("RInt" if cpow else "RFloat")
    if not a_int and b_int:
        return r == "RFloat"
    if cpow:
        return r == "RFloat"
    return r in ("RFloat", "RSoftComplex") and (r == "RSoftComplex" or a == "AUInt" or b == "BIntegralFloatConst")


VAL_TYPES = [("int", "int", 32, True), ("long", "long", 64, True), ("unsigned int", "uint", 32, False),
             ("unsigned long", "ulong", 64, False), ("long long", "longlong", 64, True)]


def value_source():
    L = ["# cython: language_level=3, cpow=True", "cimport cython"]
    for ct, nm, w, sg in VAL_TYPES:
        L += ["def p_%s(%s b, %s e):" % (nm, ct, ct), "    return b ** e"]
        for c in (0, 1, 2, 3, 4, 5, 31, 63):
            L += ["def pc_%s_%d(%s b):" % (nm, c, ct), "    return b ** %d" % c]
    L += ["def p_obj(a, b):", "    return a ** b", "def p2(n):", "    return 2 ** n",
          "def p2_inplace(n):", "    x = 2", "    x **= n", "    return x",
          "@cython.cpow(False)", "def pf_int_int(int a, int b):", "    return a ** b",
          "@cython.cpow(False)", "def pf_dbl_dbl(double a, double b):", "    return a ** b",
          "@cython.cpow(False)", "def pf_int_negc(int a):", "    return a ** -2",
          "@cython.cpow(True)", "def pt_int_negc(int a):", "    return a ** -2",
          "@cython.cpow(True)", "def pt_dbl_dbl(double a, double b):", "    return a ** b"]
    return "\n".join(L) + "\n"


def rng_of(w, sg):
    return (-(2 ** (w - 1)), 2 ** (w - 1) - 1) if sg else (0, 2 ** w - 1)


def run(ctx):
    quick = ctx.tier == "quick"
    # ---- result-type table (the Coq theorem over Gen_Pow.v is the obligation; here the same
    #      rows are judged by an independent transcription of the documented table)
    table = getattr(ctx, "_c07_table", None) or dump_table(os.path.join(ctx.workdir, "types"))
    for fn, cp, ak, bk, rc, raw in table:
        inp = {"func": fn, "cpow": cp, "a": ak, "b": bk}
        ctx.case("typetable/cpow=%s" % cp, inp, sig=fn)
        if not doc_allows(cp, ak, bk, rc):
            klass = "cpow_true_negative_int_constant_not_double" if (cp and bk == "BNegIntConst" and ak != "AFloat") else "result_type_outside_table"
            ctx.fail(klass, inp, raw, "a result type allowed by the documented cpow table")
    # ---- destination rule: coerced table + run-time delivery
    run_coerced(ctx)
    _t(ctx, 'run_coerced done')
    # ---- integer helper values
    wd = os.path.join(ctx.workdir, "vals")
    try:
        cybuild.build("c07_vals", value_source(), wd)
    except cybuild.BuildError as e:
        ctx.corr_break("build c07_vals", "c07_vals", str(e)[:1500], "module builds")
        return
    model = ctx.model("intpow")
    cases = []
    for ct, nm, w, sg in VAL_TYPES:
        lo, hi = rng_of(w, sg)
        bases = {0, 1, 2, 3, 5, 7, 10, 15, 16, 255, 256, hi, hi - 1, hi // 2, 46341, 46340, 3037000499, 3037000500, 2097151, 2097152}
        if sg:
            bases |= {-1, -2, -3, -7, -10, lo, lo + 1, -46341, -46340, -3037000500, -2097152}
        for _ in range(6 if quick else 40):
            v = ctx.rng.getrandbits(ctx.rng.randrange(1, w))
            bases.add(-v if (sg and ctx.rng.random() < 0.5) else v)
        bases = sorted(b for b in bases if lo <= b <= hi)
        exps = list(range(-3 if sg else 0, 71)) + [hi, hi - 1] + ([lo] if sg else [])
        for b in bases:
            for e in exps:
                if lo <= e <= hi:
                    cases.append(("p_%s" % nm, [b, e], w, sg, b, e))
            for c in (0, 1, 2, 3, 4, 5, 31, 63):
                cases.append(("pc_%s_%d" % (nm, c), [b], 64 if (sg or w < 64) else 64, sg or w < 64, b, c) if False else
                             ("pc_%s_%d" % (nm, c), [b], w, sg, b, c))
    res = cybuild.call_cases(wd, [["c07_vals.%s" % c[0], c[1]] for c in cases], setup="import c07_vals", alarm=10)
    # NB a literal exponent is a C long: `b ** 3` with int b is computed in long (w=64, signed)
    mq = []
    for fn, args, w, sg, b, e in cases:
        if fn.startswith("pc_"):
            mw, ms = (64, True) if not (not sg and w == 64) else (64, False)
        else:
            mw, ms = w, sg
        mq.append("int_pow %d %d %d %d" % (mw, ms, b, e))
    mres = model.batch(mq)
    for (fn, args, w, sg, b, e), r, q, m in zip(cases, res, mq, mres):
        inp = {"func": fn, "args": args}
        mw, ms = int(q.split()[1]), q.split()[2] == "1"
        lo, hi = rng_of(mw, ms)
        exact = b ** e if e >= 0 and (abs(b) <= 1 or e <= 200) else None
        fits = exact is not None and lo <= exact <= hi
        ctx.case("intpow/%s/%s" % ("neg" if e < 0 else ("small" if e <= 3 else "loop"), "fits" if fits else "overflow"),
                 inp, sig=(fn, b, e))
        got = ("exc", r["e"]) if "e" in r else (r["t"], r["r"])
        if e < 0:
            exp = ("int", "0")
        elif fits:
            exp = ("int", repr(exact))
        else:
            exp = None
        if m == "NONE":
            ctx.corr_break("intpow:out-of-fuel", inp, got, m)
        elif (fits or e < 0 or not ms) and got != ("int", m):
            ctx.corr_break("intpow:int_pow", inp, got, m)
        if exp is not None and got != exp:
            ctx.fail("int_pow_wrong_value", inp, got, exp)
    # ---- 2**n fast path and object pow vs CPython
    ns = [0, 1, 2, 29, 30, 31, 32, 59, 60, 61, 62, 63, 64, 65, 100, 1000, -1, -2, -63, True, False, 2.0, 0.5, -0.5,
          2 ** 31, None, "x", 4096, 4299]
    ocases = []
    for n in ns:
        if isinstance(n, int) and n > 10 ** 7:
            continue
        for fn in ("p2", "p2_inplace"):
            ocases.append((fn, [n]))
    for a, b in [(2, 10), (-2, 3), (2, -2), (0, 0), (0, -1), (2.0, 0.5), (-8.0, 1 / 3), (10, 30), (3, 100), (True, 2), (2, True)]:
        ocases.append(("p_obj", [a, b]))
    for a, b in [(2, 3), (2, -2), (-2, -3), (0, 0), (7, 11), (-7, 11), (10, 18)]:
        ocases.append(("pf_int_int", [a, b]))
    for a, b in [(2.0, 0.5), (-8.0, 2.0), (4.0, -0.5), (0.0, 0.0), (-8.0, 0.5), (-1.0, 1.5)]:
        ocases.append(("pf_dbl_dbl", [a, b]))
        ocases.append(("pt_dbl_dbl", [a, b]))
    for a in (1, 2, -2, 4):
        ocases.append(("pf_int_negc", [a]))
        ocases.append(("pt_int_negc", [a]))
    ores = cybuild.call_cases(wd, [["c07_vals.%s" % f, a] for f, a in ocases], setup="import c07_vals", alarm=20)
    p2q = [str(a[0]) for f, a in ocases if f == "p2" and type(a[0]) is int]
    p2m = dict(zip(p2q, model.batch(["pow2_value %s" % n for n in p2q])))
    for (fn, args), r in zip(ocases, ores):
        inp = {"func": fn, "args": [repr(a) for a in args]}
        ctx.case("objpow/" + fn, inp, sig=(fn, repr(args)))
        try:
            if fn in ("p2", "p2_inplace"):
                pv = 2 ** args[0]
            else:
                pv = args[0] ** args[1] if len(args) == 2 else args[0] ** -2
            exp = ("ok", pv)
        except BaseException as e:
            exp = ("exc", type(e).__name__)
        if "e" in r:
            got = ("exc", r["e"])
        else:
            got = ("ok", r)
        if fn in ("p2", "p2_inplace", "p_obj"):
            # Python-object result: type and value must be CPython's
            if exp[0] == "exc":
                if got != exp:
                    ctx.fail("objpow_exception", inp, got, exp)
            else:
                canon = cybuild_canon(exp[1])
                if got[0] != "ok" or (got[1]["t"], got[1]["r"]) != (canon["t"], canon["r"]):
                    ctx.fail("objpow_value", inp, got, canon)
            if fn == "p2" and type(args[0]) is int and args[0] >= 0 and str(args[0]) in p2m:
                if got[0] == "ok" and got[1]["r"] != p2m[str(args[0])]:
                    ctx.corr_break("intpow:pow2_value", inp, got, p2m[str(args[0])])
        else:
            # C result types: numeric value must agree with CPython's where CPython yields a real
            # number (documented: the *type* may differ, e.g. int ** negative int -> C double)
            if fn == "pt_int_negc":
                # cpow=True, negative constant exponent: documented result type is C double
                if got[0] == "ok" and got[1]["t"] != "float":
                    ctx.fail("cpow_true_negative_int_constant_not_double", inp, got, "float %r" % (pv if exp[0] == "ok" else exp,))
                continue
            if exp[0] == "exc":
                continue
            if isinstance(pv, complex):
                if fn == "pt_dbl_dbl":
                    continue      # cpow=True: NaN documented
                if got[0] != "ok" or got[1]["t"] != "complex":
                    ctx.fail("softcomplex_lost", inp, got, repr(pv))
                continue
            if got[0] != "ok":
                ctx.fail("cpow_value_exception", inp, got, repr(pv))
                continue
            gv = got[1]["r"]
            gvf = float.fromhex(gv) if got[1]["t"] == "float" else (float(int(gv)) if got[1]["t"] == "int" else None)
            if gvf is None or not (gvf == float(pv) or abs(gvf - float(pv)) <= 1e-12 * abs(float(pv))):
                klass = "cpow_value_differs"
                if fn == "pf_dbl_dbl" and args[0] < 0 and args[1] == int(args[1]):
                    klass = "softcomplex_negative_base_integral_exponent"
                elif fn == "pf_dbl_dbl" and args[0] == 0 and args[1] == 0:
                    klass = "softcomplex_zero_pow_zero"
                ctx.fail(klass, inp, got, repr(pv))


# ---- run-time side of the destination rule --------------------------------------------------------
Q_PAIRS = ({(a, b) for a in ("int", "double") for b in ("negc", "posc", "halfc", "posfic", "rint", "ruint", "rdouble")} |
           {("uint", "rdouble"), ("uint", "rint"), ("dcplx", "rint"), ("dcplx", "rdouble"), ("obj", "rint"), ("obj", "robj"),
            ("double", "rdcplx"), ("int", "robj"), ("uint", "halfc"), ("cpos3", "rdouble"), ("cpos3", "rint"),
            ("cpos2f", "rdouble"), ("cpos2f", "rint")})
Q_PAIRS_SMALL = {("double", "rdouble"), ("int", "rint"), ("int", "rdouble"), ("double", "halfc")}
C_WIDTH = {"char": (8, True), "signed char": (8, True), "unsigned char": (8, False), "short": (16, True), "unsigned short": (16, False),
           "int": (32, True), "unsigned int": (32, False), "long": (64, True), "unsigned long": (64, False),
           "long long": (64, True), "unsigned long long": (64, False), "Py_ssize_t": (64, True), "size_t": (64, False)}
VALS_A = {"AInt": [-3, -2, -1, 0, 1, 2, 3, 7], "AUInt": [0, 1, 2, 3, 7],
          "AFloat": [-8.0, -1.0, -0.5, 0.0, 0.5, 2.0, 4.0, 9.0],
          "APosFloat": [2.0], "APosIntConst": [3], "AComplex": ["1j", "(-2+0j)", "(1.5+0.5j)", "(2+0j)"], "AObj": ["2", "-2", "0", "2.0", "-8.0", "(1+1j)"]}
VALS_B = {"BRuntimeSignedInt": [-2, -1, 0, 1, 2, 3, 5], "BRuntimeUnsignedInt": [0, 1, 2, 3, 5],
          "BRuntimeFloat": [-1.0, -0.5, 0.0, 0.5, 1.5, 2.0, 3.0], "BRuntimeComplex": ["(2+0j)", "0.5j", "(0.5+0j)"],
          "BObj": ["2", "-1", "0.5", "3"]}
RT_SETUP = r"""
def sweep(mod, disp, idx, As, Bs):
    f = getattr(mod, disp)
    out = []
    for a in As:
        for b in (Bs if Bs is not None else [None]):
            try:
                out.append(f(idx, a) if Bs is None else f(idx, a, b))
            except BaseException as e:
                out.append(["!exc", type(e).__name__])
    return out
"""


def rt_select(entries, quick):
    sel = {}
    for e in entries:
        if e["rejected"] or e["r"] == "ROther":
            continue
        if quick:
            pairs = Q_PAIRS if e["how"] in ("unset", "deco") else Q_PAIRS_SMALL
            if (e["an"], e["bn"]) not in pairs:
                continue
        if e["an"] == "pyint" and e["bn"] == "robj" and quick:
            continue
        sel.setdefault(e["mod"], []).append(e)
    return sel


def start_runtime_builds(ctx, entries):
    import threading
    quick = ctx.tier == "quick"
    sel = rt_select(entries, quick)
    specs, info = [], []
    for n, (ccls, cp, how) in enumerate(C_CFG):
        funcs = sel.get("c07_cd%d" % n, [])
        if not funcs:
            continue
        src, lines, disp = coerce_module(funcs, cp, how)
        name = "c07_rt%d" % n
        specs.append(dict(name=name, source=src, workdir=os.path.join(ctx.workdir, "rt"), cflags=["-O0"]))
        info.append((name, funcs, disp))
    box = {"info": info}

    def bg():
        try:
            box["built"] = cybuild.build_many(specs, jobs=7)
        except Exception as e:  # noqa
            box["exc"] = repr(e)
    th = threading.Thread(target=bg)
    th.start()
    ctx._c07_rt = (th, box)


def _approx(g, x, tol):
    if x != x:
        return g != g
    if g != g:
        return False
    if x in (float("inf"), float("-inf")) or g in (float("inf"), float("-inf")):
        return g == x
    return g == x or abs(g - x) <= tol * max(abs(x), 1e-300)


def _wrapw(v, w, sg):
    v &= (1 << w) - 1
    return v - (1 << w) if sg and v >> (w - 1) else v


def _pyval(cls, ctype, v):
    """the Python value a C operand of this class carries"""
    if cls in ("AInt", "AUInt", "APosIntConst", "BRuntimeSignedInt", "BRuntimeUnsignedInt", "BNegIntConst", "BNonNegIntConst"):
        return int(v)
    if cls in ("AFloat", "APosFloat", "BRuntimeFloat", "BFloatConst", "BIntegralFloatConst"):
        return float(v)
    return eval(v) if isinstance(v, str) else v


def expected_delivery(e, x, y):
    """-> (kind, value) judged from the DOCUMENTED type (py_coerced) and CPython's value.
    kind: 'skip' | 'exact' (type+value) | 'float' | 'complex' | 'exc'.  Independent of the Coq model."""
    r, rej, _w = py_coerced(e["c"], e["ak"], e["bk"], e["d"])
    d = e["d"]
    if rej or d in ("DCastInt", "DCastFloat") and r in ("RObj", "RComplex", "RSoftComplex"):
        return ("skip", None)
    tolf = 1e-6 if ("float" in (e["at"], e["bt"]) or e["dt"] == "float") else 1e-12
    if r == "RInt":
        w, sg = C_WIDTH.get(e["raw"], (None, None))
        if w is None:
            return ("skip", None)
        if not sg:
            # both operands are converted to the unsigned result type; arithmetic is modular
            v = pow(x % (1 << w), y % (1 << w), 1 << w)
        elif y < 0:
            v = 0
        else:
            v = x ** y
            if not (-(1 << (w - 1)) <= v < (1 << (w - 1))):
                return ("skip", None)          # signed overflow: UB
        if d in ("DCInt", "DCastInt"):
            dw, dsg = C_WIDTH[e["dt"]]
            return ("exact", _wrapw(v, dw, dsg))
        if d in ("DCFloat", "DCastFloat", "DArithFloat"):
            return ("float", (float(v), tolf))
        if d == "DCComplex":
            return ("complex", (complex(v), tolf))
        return ("exact", v)
    if r in ("RFloat", "RSoftComplex"):
        try:
            pv = float(x) ** float(y)
        except (ZeroDivisionError, OverflowError):
            return ("skip", None)               # C arithmetic yields inf here, documented C behaviour
        if isinstance(pv, complex):
            if r == "RFloat":
                pv = float("nan")               # documented: NaN if the result would be complex
            elif d == "DCFloat":
                return ("exc", "TypeError")
            else:
                return ("complex", (pv, tolf))
        if d == "DCComplex":
            return ("complex", (complex(pv, 0.0), tolf))
        if d == "DCastInt":
            if pv != pv or abs(pv) >= 2 ** 31 or pv != int(pv):
                return ("skip", None)
            return ("exact", int(pv))
        return ("float", (pv, tolf))
    if r == "RComplex":
        try:
            pv = complex(x) ** complex(y)
        except (ZeroDivisionError, OverflowError):
            return ("skip", None)
        return ("complex", (pv, max(tolf, 1e-9)))
    if r == "RObj":
        try:
            pv = x ** y
            if d == "DArithInt":
                pv = pv * 1
            elif d == "DArithFloat":
                pv = pv * 1.0
        except BaseException as ex:  # noqa
            return ("exc", type(ex).__name__)
        if d == "DCInt":
            if type(pv) is not int:
                return ("skip", None) if isinstance(pv, float) else ("exc", "TypeError")
            dw, dsg = C_WIDTH[e["dt"]]
            return ("exact", pv) if -(1 << (dw - 1)) <= pv < (1 << (dw - 1)) else ("exc", "OverflowError")
        if d == "DCFloat":
            if isinstance(pv, complex):
                return ("exc", "TypeError")
            return ("float", (float(pv), tolf))
        if d == "DCComplex":
            return ("complex", (complex(pv), 1e-15))
        return ("exact", pv)
    return ("skip", None)


def got_matches(got, exp):
    kind, v = exp
    if kind == "exc":
        return got == ["!exc", v] or got == {"t": "list", "r": [{"t": "str", "r": "'!exc'"}, {"t": "str", "r": repr(v)}]}
    if not isinstance(got, dict) or "t" not in got:
        return False
    if kind == "exact":
        c = cybuild_canon(v)
        return (got["t"], got["r"]) == (c["t"], c["r"])
    if kind == "float":
        if got["t"] != "float":
            return False
        g = float("nan") if got["r"] == "nan" else float.fromhex(got["r"])
        return _approx(g, v[0], v[1])
    if kind == "complex":
        if got["t"] != "complex":
            return False
        gr, gi = [float("nan") if z == "nan" else float.fromhex(z) for z in got["r"]]
        x, tol = v
        scale = max(abs(x), 1.0) if abs(x) == abs(x) and abs(x) != float("inf") else 1.0
        ok = lambda g, t: (g != g) == (t != t) and (g == t or t != t or abs(g - t) <= tol * scale)   # noqa
        return ok(gr, x.real) and ok(gi, x.imag)
    return True


def got_delivery(got):
    """observed delivery class of one result"""
    if isinstance(got, dict) and got.get("t") == "list":
        return "V" + got["r"][1]["r"].strip("'")
    return {"int": "int", "float": "float", "complex": "complex"}.get(got.get("t"), "?") if isinstance(got, dict) else "?"


def coerce_class(e, x, y, exp):
    """stable class names for failing (function, operands)"""
    if e["how"] == "with" and e["cx"] == "infer" and e["c"] == "CTrue":
        # the local's type is inferred with the function-level directive (unset), not the block's
        if py_pow_type(True, e["ak"], e["bk"]) != py_pow_type(False, e["ak"], e["bk"]):
            return "with_block_cpow_ignored_by_local_type_inference"
    if py_coerced(e["c"], e["ak"], e["bk"], e["d"])[0] == "RSoftComplex":
        try:
            fx, fy = float(x), float(y)
            if fx < 0 and fy == int(fy):
                return "softcomplex_negative_base_integral_exponent"
            if fx == 0 and fy == 0:
                return "softcomplex_zero_pow_zero"
        except Exception:  # noqa
            pass
    return "coerced_pow_value_differs"


def describe(e):
    return {"module_header": "# cython: cpow=%s" % (e["c"] == "CTrue") if e["how"] == "header" else "",
            "source": "\n".join(e["lines"]), "cpow": e["c"], "set_by": e["how"], "a": e["ak"], "b": e["bk"], "dest": e["d"],
            "context": e["cx"]}


FX_PYINT = os.environ.get("C07_FX_PYINT", "1") == "1"     # flip after proposed_fixes/C07-pyint_pow_result_typed_int.diff


def run_coerced(ctx):
    quick = ctx.tier == "quick"
    box = getattr(ctx, "_c07_dump", None)
    if box is None:
        box = {}
        try:
            box["dump"] = dump_coerced(os.path.join(ctx.workdir, "coerce"), quick)
        except Exception as e:  # noqa
            box["dump_exc"] = repr(e)
    if "dump" not in box:
        ctx.corr_break("coerced-table dump", "analysis-phase dump of the generated modules", box.get("dump_exc"), "a table")
        return
    entries, problems = box["dump"]
    for name, msg in problems:
        ctx.corr_break("coerced-table dump", name, msg, "every compiler message lies inside a generated function")
    if not hasattr(ctx, "_c07_rt"):
        start_runtime_builds(ctx, entries)
    _t(ctx, 'run_coerced start')
    model = ctx.model("intpow")
    # ---- static: every function against the documented rule (oracle) and the extracted model (tie)
    keys = sorted({(e["c"], e["ak"], e["bk"], e["d"]) for e in entries})
    mres = dict(zip(keys, model.batch(["coerced %s %s %s %s" % k for k in keys])))
    dres = dict(zip(keys, model.batch(["doc_coerced %s %s %s %s" % k for k in keys])))
    nstatic = 0
    for e in entries:
        k = (e["c"], e["ak"], e["bk"], e["d"])
        inp = describe(e)
        ctx.case("coerced/%s/%s/%s" % (e["c"], e["how"], e["cx"]), inp, sig=(e["mod"], e["fn"]))
        obs = (e["r"], e["rejected"], e["warned"])
        exp = py_coerced(*k)
        obs_s = "%s %d %d" % (e["r"], e["rejected"], e["warned"])
        if obs != exp:
            nstatic += 1
        if obs != exp and nstatic <= 15:       # leave room in the failure list for run-time witnesses
            ctx.fail("coerced_pow_type_outside_rules", inp,
                     {"pow_node_type": e["raw"], "rejected": e["rejected"], "errors": e["errs"][:2], "fallback_warning": e["warned"]},
                     {"type": exp[0], "rejected": exp[1], "fallback_warning": exp[2]},
                     note="type of the power node after analysis / compile error / unset-fallback warning")
        if mres[k] != obs_s:
            ctx.corr_break("powdoc:pow_coerced", inp, obs_s, mres[k])
        if dres[k] != mres[k]:
            ctx.corr_break("powdoc:doc_coerced-vs-pow_coerced", inp, dres[k], mres[k])
    if nstatic > 15:
        ctx.note("%d functions deviate from the documented destination rule (first 15 reported)" % nstatic)
    ctx.extra["coerced_table"] = {"functions": len(entries), "distinct_rows": len({(k, e["r"], e["rejected"], e["warned"]) for e in entries for k in [(e["c"], e["ak"], e["bk"], e["d"])]}),
                                  "rejected": sum(1 for e in entries if e["rejected"]), "fallback_warned": sum(1 for e in entries if e["warned"])}
    # ---- run time
    _t(ctx, 'static done')
    th, rbox = ctx._c07_rt
    th.join()
    _t(ctx, 'rt builds joined')
    if "built" not in rbox:
        ctx.corr_break("build c07_rt", "run-time modules", rbox.get("exc"), "modules build")
        return
    wd = os.path.join(ctx.workdir, "rt")
    cases, meta = [], []
    for (name, funcs, disp), (so, err) in zip(rbox["info"], rbox["built"]):
        if so is None:
            ctx.corr_break("build " + name, {"functions": len(funcs)}, str(err)[:1500], "functions accepted by the analysis phase compile to C and build")
            continue
        for i, e in enumerate(funcs):
            As = VALS_A[e["ak"]]
            Bs = VALS_B[e["bk"]] if e["bt"] is not None else None
            if e["an"] == "pyint":
                As = ["2", "-2", "0", "7"]
            if e["an"] in C_ACONST:
                As = C_ACONST[e["an"]][1]
            lit = lambda vs: None if vs is None else {"py": "[%s]" % ", ".join(str(v) for v in vs)}   # noqa
            groups = [Bs]
            if e["an"] == "pyint" and e["bk"] == "BRuntimeSignedInt":
                groups = [[v for v in Bs if v >= 0], [v for v in Bs if v < 0]]     # isolate the known crash family
            for g in groups:
                cases.append(["sweep", [{"py": name}, disp[e["sig"]], i, lit(As), lit(g)]])
                meta.append((e, As, g))
    names = sorted({c[1][0]["py"] for c in cases})
    res = cybuild.call_cases(wd, cases, setup="import %s\n%s" % (", ".join(names), RT_SETUP), alarm=30,
                             max_crashes=400) if cases else []
    _t(ctx, 'rt calls done')
    dq, dmeta = [], []
    for (e, As, Bs), r in zip(meta, res):
        inp0 = describe(e)
        if "e" in r or r.get("t") != "list":
            if (r.get("e") == "CRASH" and e["an"] == "pyint" and not FX_PYINT
                    and (e["bk"] == "BNegIntConst" or (e["bk"] == "BRuntimeSignedInt" and Bs and min(Bs) < 0))):
                # Python int ** (possibly negative) int is typed `int object`; int-specialised code then reads a float
                ctx.fail("pyint_pow_result_typed_int", dict(inp0, a_values=As, b_values=Bs), r, "CPython values")
                continue
            ctx.corr_break("coerced run", inp0, r, "a list of results")
            continue
        pairs = [(a, b) for a in As for b in (Bs if Bs is not None else [e["bv"]])]
        for (a, b), got in zip(pairs, r["r"]):
            x, y = _pyval(e["ak"], e["at"], a), _pyval(e["bk"], e["bt"], b)
            inp = dict(inp0, a_value=repr(x), b_value=repr(y))
            exp = expected_delivery(e, x, y)
            ctx.case("coerced-run/%s/%s/%s" % (e["c"], e["d"], py_coerced(e["c"], e["ak"], e["bk"], e["d"])[0]), inp,
                     sig=(e["mod"], e["fn"], repr(x), repr(y)))
            if exp[0] == "skip":
                continue
            bad = not got_matches(got, exp)
            if bad:
                ctx.fail(coerce_class(e, x, y, exp), inp, got, {"kind": exp[0], "value": repr(exp[1])},
                         note="documented result type + CPython value, delivered to the destination")
            # tie with the extracted model: delivery class for the OBSERVED static type
            try:
                pv = (complex(x) ** complex(y)) if e["r"] == "RComplex" else (x ** y if e["r"] == "RObj" else float(x) ** float(y))
                real = not isinstance(pv, complex)
            except Exception:  # noqa
                continue
            if not bad:
                dq.append("deliver %s %s %d" % (e["r"], e["d"], real))
                dmeta.append((inp, got, exp))
    for q, m, (inp, got, exp) in zip(dq, model.batch(dq) if dq else [], dmeta):
        gd = got_delivery(got)
        okd = {"VInt": gd in ("int", "float", "complex"), "VFloat": gd in ("float", "complex", "int"),
               "VPyReal": gd in ("float", "int"), "VPyComplex": gd == "complex", "VTypeError": gd == "VTypeError",
               "VNoValue": True}.get(m, False)
        if m == "VNoValue" and exp[0] not in ("skip",) and q.split()[2] not in ("DCastInt", "DCastFloat"):
            okd = False
        if not okd:
            ctx.corr_break("powdoc:deliver", inp, got, m + " for " + q)


def cybuild_canon(v):
    if isinstance(v, float):
        return {"t": "float", "r": v.hex() if v == v else "nan"}
    if isinstance(v, complex):
        return {"t": "complex", "r": [cybuild_canon(v.real)["r"], cybuild_canon(v.imag)["r"]]}
    return {"t": type(v).__name__, "r": repr(v)}
