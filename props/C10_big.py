"""C10 helper (not a property): generator and harness for LARGE module string tables.

A module is laid out so that its string table (text block, sorted; then interned names; then the
bytes block, sorted) contains repeats at chosen byte distances: for a target (eo, ln) a unique marker
of ln bytes is placed at byte a and again at byte a + ln + eo, so that LZSS.py stores the second one
as a back reference with end offset eo and length ln.  Guard bytes around both occurrences keep the
match from growing.  Everything else is filler (random characters, local duplicates, runs, words).
The literals carry ascending two-character punctuation prefixes, so the sorted table order is the
order of construction and byte distances in the table are the distances in the generated stream.
"""
import os, re, json, hashlib, random, subprocess, struct
import concurrent.futures as cf
import cybuild

# ------------------------------------------------------------------ thresholds (Prop/C10.v: C10_form_ranges)
EO_BOUNDS = [0, 1, 2, 63, 64, 126, 127, 128, 129, 130, 131, 135, 136, 143, 144, 159, 160, 191, 192, 255, 256,
             383, 384, 638, 639, 640, 641, 1151, 1152, 2175, 2176, 4223, 4224, 8319, 8320, 8321, 12415, 12416,
             16382, 16510, 16511, 16512, 16513, 16640, 17000]
LEN_BOUNDS = [3, 4, 5, 6, 7, 10, 11, 18, 19, 34, 35, 36, 66, 67, 130, 131, 257, 258, 259, 261, 300, 520]

PFX1 = list("!#$%&()*+,-./:;<=>")                       # sort before '?' (a constant of every module) and letters
PFX2 = [chr(c) for c in range(0x21, 0x7F) if chr(c) not in "\"'\\{}"]
ASCII = [chr(c) for c in range(0x20, 0x7F)]
LATIN1 = [chr(c) for c in range(0xA1, 0x100)]
BMP = [chr(c) for c in [0x100, 0x17F, 0x391, 0x3A9, 0x3B1, 0x3C0, 0x416, 0x5D0, 0x7FF, 0x800, 0x20AC, 0x2028, 0x3042, 0x4E00,
                        0x540D, 0x524D, 0xD7FF, 0xE000, 0xFFFD, 0xFFFF]]
ASTRAL = [chr(c) for c in [0x10000, 0x1F600, 0x1F601, 0x2F800, 0xFFFFF, 0x100000, 0x10FFFF]]
CTRL = ["\x00", "\t", "\n", "\r", "\x1b", "\x7f", "\x01"]
IDENT = list("abcdefghijklmnopqrstuvwxyzABCDEFGHIJKLMNOPQRSTUVWXYZ0123456789_")
WORDS = ["self", "value", "index", "__init__", "return", "lambda", "item", "Error", "name", "result", "=", "  ",
         "://", "\u00e9t\u00e9", "\u540d\u524d", "\U0001F600", "None", "import "]


def u8(c):
    return len(c.encode("utf-8"))


class Block:
    """one sorted block of the table (text or bytes) as a stream of units"""

    def __init__(self, r, kind, alpha, lit_sizes):
        self.r, self.kind, self.alpha, self.lit_sizes = r, kind, alpha, lit_sizes
        self.units = []          # every unit emitted (flat)
        self.pos = 0             # bytes emitted
        self.lits = []           # finished literals (lists of units, prefix included)
        self.cur = None
        self.cur_bytes = 0
        self.cur_target = 0
        self.echoes = []         # pending far echoes: dict(q, marker, g1, g2, eo, ln)
        self.realised = []       # (eo, ln, how)
        self.markers = []        # (byte position, marker units) of every original, for cross-block echoes
        self.open_lit()

    # ---- units
    def size(self, u):
        return 1 if self.kind == "b" else u8(u)

    def rand_unit(self, maxsize):
        if self.kind == "b":
            return self.r.randrange(256)
        for _ in range(8):
            u = self.r.choice(self.alpha)
            if u8(u) <= maxsize:
                return u
        return self.r.choice(ASCII)

    def guard(self, avoid_byte):
        """a one-byte unit whose byte differs from avoid_byte"""
        while True:
            u = self.r.randrange(0x20, 0x7F)
            if u != avoid_byte:
                return u if self.kind == "b" else chr(u)

    def first_byte(self, u):
        return u if self.kind == "b" else u.encode("utf-8")[0]

    def last_byte(self, u):
        return u if self.kind == "b" else u.encode("utf-8")[-1]

    def emit(self, units):
        for u in units:
            k = self.size(u)
            self.units.append(u); self.cur.append(u); self.pos += k; self.cur_bytes += k

    # ---- literals
    def prefix(self, i):
        if self.kind == "b":
            return list(struct.pack(">H", 0x0101 + i))
        return [PFX1[i // len(PFX2)], PFX2[i % len(PFX2)]]

    def open_lit(self):
        self.cur = []
        self.cur_bytes = 0
        self.cur_target = self.r.choice(self.lit_sizes)
        self.emit(self.prefix(len(self.lits)))

    def close_lit(self):
        self.lits.append(self.cur)
        self.open_lit()

    def can_open_more(self):
        return len(self.lits) + 2 < (60000 if self.kind == "b" else len(PFX1) * len(PFX2))

    # ---- markers and filler
    def marker(self, ln, ident=False):
        out, left = [], ln
        while left > 0:
            if ident:
                u = self.r.choice(IDENT)
            else:
                u = self.rand_unit(left)
            if self.size(u) <= left:
                out.append(u); left -= self.size(u)
        return out

    def filler(self, maxbytes):
        r = self.r
        n = min(maxbytes, r.choice([1, 2, 3, 5, 8, 13, 21, 40, 80, 200]))
        c = r.random()
        out, left = [], n
        if c < 0.40 or len(self.units) < 8:                     # random units
            while left > 0:
                u = self.rand_unit(left)
                if self.size(u) <= left:
                    out.append(u); left -= self.size(u)
        elif c < 0.70:                                          # local duplicate -> near references
            back = r.choice([1, 2, 3, 4, 7, 16, 33, 64, 100, 127, 128, 129, 200, 400])
            j = max(0, len(self.units) - back)
            for u in self.units[j:j + max(3, n)]:
                if self.size(u) > left:
                    break
                out.append(u); left -= self.size(u)
        elif c < 0.82:                                          # run of one unit (doubling lengths up to 258)
            u = self.rand_unit(min(left, 4))
            k = min(left // self.size(u), r.choice([3, 4, 9, 30, 259, 260, 600]))
            out = [u] * max(k, 0)
        elif self.kind == "t":                                  # words (repeats at natural distances)
            for u in r.choice(WORDS):
                if self.size(u) > left:
                    break
                out.append(u); left -= self.size(u)
        else:
            out = [r.choice([0, 0, 255, 0x5C, 0x22, 0x3F])] * min(left, r.choice([1, 2, 5]))
        if not out:
            out = [self.guard(-1)]
        self.emit(out)

    def intervals_free(self, lo, hi):
        return all(hi <= e["q"] or e["q"] + e["ln"] + 2 <= lo for e in self.echoes)

    def try_place(self, eo, ln, gap, ident=False):
        """place the original (and, for near targets, the copy) of a target; False if it does not fit now"""
        m = self.marker(ln, ident)
        if eo <= 300:
            # inline: g1 M F M h2
            fill, left = [], eo
            while left > 0:
                u = self.rand_unit(left)
                if self.size(u) <= left:
                    fill.append(u); left -= self.size(u)
            seq = m + fill + m
            total = 1 + sum(map(self.size, seq)) + 1
            if total > gap:
                return False
            g1 = self.guard(self.last_byte((m + fill)[-1]))
            h2 = self.guard(self.first_byte((fill + m)[0]))
            self.markers.append((self.pos + 1, m))
            self.emit([g1] + seq + [h2])
            self.realised.append((eo, ln, "inline"))
            return True
        if 1 + ln + 1 > gap:
            return False
        a = self.pos + 1
        b = a + ln + eo
        if not self.intervals_free(b - 1, b + ln + 1):
            return False
        g1, g2 = self.guard(-1), self.guard(-1)
        self.markers.append((a, m))
        self.emit([g1] + m + [g2])
        self.echoes.append({"q": b - 1, "marker": m, "g1": g1, "g2": g2, "eo": eo, "ln": ln})
        return True

    def build(self, total, targets, place_p=0.5, ident_markers=0, extra_echoes=()):
        """targets: list of (eo, ln); extra_echoes: marker unit lists (from another block) to drop in"""
        r = self.r
        targets = list(targets)
        r.shuffle(targets)
        extra = list(extra_echoes)
        idents = []
        tries = 0
        while True:
            if self.pos >= total and not targets and not self.echoes and not extra:
                break
            if self.pos > total + 40000 or tries > 400000:
                break
            tries += 1
            nxt = min((e["q"] for e in self.echoes), default=None)
            if nxt is not None and nxt == self.pos:
                e = [x for x in self.echoes if x["q"] == nxt][0]
                self.echoes.remove(e)
                g1b = self.first_byte(e["g1"]); g2b = self.first_byte(e["g2"])
                self.emit([self.guard(g1b)] + e["marker"] + [self.guard(g2b)])
                self.realised.append((e["eo"], e["ln"], "far"))
                continue
            gap = (nxt - self.pos) if nxt is not None else 10 ** 9
            if (self.cur_bytes >= self.cur_target and gap >= 2 and self.can_open_more()):
                self.close_lit()
                continue
            if targets and r.random() < place_p:
                eo, ln = targets[-1]
                if self.try_place(eo, ln, gap):
                    targets.pop()
                    continue
                if r.random() < 0.2:            # rotate, so that one awkward target does not block the others
                    targets.insert(0, targets.pop())
            if ident_markers and r.random() < 0.02 and gap > 60 and self.kind == "t":
                m = self.marker(r.choice([6, 9, 14, 23, 40]), ident=True)
                self.emit([self.guard(-1)] + m + [self.guard(-1)])
                idents.append("".join(m)); ident_markers -= 1
                continue
            if extra and r.random() < 0.05 and gap > len(extra[-1]) + 2:
                m = extra.pop()
                self.emit([self.guard(-1)] + m + [self.guard(-1)])
                continue
            self.filler(gap)
        self.lits.append(self.cur)
        self.unplaced = targets + [(e["eo"], e["ln"]) for e in self.echoes]
        return idents


# ------------------------------------------------------------------ source text of a module
def src_text(r, units, fpart=False):
    q = '"'
    out = []
    for c in units:
        o = ord(c)
        if c == "\\":
            out.append("\\\\")
        elif c == q:
            out.append('\\"')
        elif c in "{}" and fpart:
            out.append(c + c)
        elif 0x20 <= o < 0x7F:
            out.append(c if r.random() > 0.02 else "\\x%02x" % o)
        elif o < 0x20 or o == 0x7F:
            out.append({"\n": "\\n", "\t": "\\t", "\r": "\\r"}.get(c) if c in "\n\t\r" and r.random() < 0.7 else "\\x%02x" % o)
        elif o < 0x100:
            out.append(r.choice([c, c, "\\x%02x" % o, "\\u%04x" % o]))
        elif o == 0x2028 or o >= 0xFFFE and o <= 0xFFFF:
            out.append("\\u%04x" % o)
        elif o < 0x10000:
            out.append(r.choice([c, c, "\\u%04X" % o]))
        else:
            out.append(r.choice([c, c, "\\U%08x" % o]))
    return "".join(out)


def src_bytes(r, units):
    out = []
    for b in units:
        if b == 0x5C:
            out.append("\\\\")
        elif b == 0x22:
            out.append('\\"')
        elif 0x20 <= b < 0x7F and r.random() > 0.02:
            out.append(chr(b))
        else:
            out.append("\\x%02x" % b)
    return "".join(out)


def make_module(r, name, text_total, text_targets, bytes_total, bytes_targets, alpha, lit_sizes,
                ident_markers=6, cross=3, extras=True):
    """-> dict(name, source, n_values, planned)"""
    tb = Block(r, "t", alpha, lit_sizes)
    idents = tb.build(text_total, text_targets, ident_markers=ident_markers)
    cross_m = []
    for pos, m in tb.markers[:]:
        if len(cross_m) < cross and all(ord(c) < 0x80 for c in m) and len(m) >= 4 and r.random() < 0.5:
            cross_m.append([ord(c) for c in m])
    bb = Block(r, "b", None, [n for n in lit_sizes if n <= 4000] or [50])
    bb.build(bytes_total, bytes_targets, extra_echoes=cross_m)
    items = []          # (source expression, tag)
    texts = list(tb.lits)
    fidx = set(r.sample(range(len(texts)), min(len(texts) // 2 * 2, 2 * max(1, len(texts) // 12))))
    plain = [t for i, t in enumerate(texts) if i not in fidx]
    fl = [texts[i] for i in sorted(fidx)]
    r.shuffle(fl)
    for t in plain:
        items.append(('"%s"' % src_text(r, t), "str"))
    for i in range(0, len(fl) - 1, 2):
        items.append(('f"%s{X}%s"' % (src_text(r, fl[i], True), src_text(r, fl[i + 1], True)), "fstring"))
    if len(fl) % 2:
        items.append(('"%s"' % src_text(r, fl[-1]), "str"))
    for b in bb.lits:
        items.append(('b"%s"' % src_bytes(r, b), "bytes"))
    if extras:
        items.append(('"\\ud800 lone surrogates \\udfff do not travel in the table"', "surrogate"))
        items.append(('"" ""', "empty")); items.append(('b""', "empty"))
    r.shuffle(items)
    lines = ["# cython: language_level=3", "X = 'x\\u00e9v'", "VALUES = ["]
    lines += ["    %s," % e for e, _ in items]
    lines.append("]")
    names = []
    for k, m in enumerate(idents):
        nm = "g%s_z%d" % (m, k)
        names.append(nm); lines.append("%s = %d" % (nm, k))
    if extras:
        for nm in ["na\u00efve_\u03c0_\u540d\u524d", "K" * 70, "_"]:
            names.append(nm); lines.append("%s = %d" % (nm, len(names)))
    return {"name": name, "source": "\n".join(lines) + "\n", "tags": [t for _, t in items],
            "exprs": [e for e, _ in items],
            "planned": {"text": tb.realised, "bytes": bb.realised,
                        "unplaced": tb.unplaced + bb.unplaced}, "names": names}


# ------------------------------------------------------------------ the implementation side
TRANSLATE = r'''
import pyload; pyload.install()
import sys, json, os, io, traceback, time
from Cython.Compiler import Main, Options, Errors, Code
pyload.assert_sources()
spec = json.load(sys.stdin)
REC = {}
def wrap(num, name, fn):
    if fn is None: return (num, name, fn)
    def w(data):
        out = fn(data)
        REC.setdefault("comp", {})[name] = bytes(out).hex()
        REC["data"] = bytes(data).hex()
        return out
    return (num, name, w)
Code.compression_algorithms[:] = [wrap(*a) for a in Code.compression_algorithms]
orig = Code.GlobalState.generate_pystring_constants
def gpc(self, text_strings, byte_strings):
    bl = list(byte_strings)
    r = orig(self, text_strings, byte_strings)
    REC["texts"] = [[ord(c) for c in t] for i, _, t in text_strings]
    REC["interned_from"] = min([k for k, (i, _, _) in enumerate(text_strings) if i], default=len(text_strings))
    REC["bstrs"] = [list(b) for b in sorted(bytes(t.byteencode() if t.encoding else t.utf8encode()) for _, _, t in bl)]
    return r
Code.GlobalState.generate_pystring_constants = gpc
def compile_one(src, outc):
    REC.clear()
    t0 = time.time()
    directives = dict(Options.get_directive_defaults()); directives["language_level"] = 3
    opts = Main.CompilationOptions(Main.default_options, compiler_directives=directives, output_file=outc)
    err = io.StringIO(); old = sys.stderr
    res = {"ok": False, "crash": None}
    try:
        sys.stderr = err
        try:
            r = Main.compile(src, opts)
            res["ok"] = (r.num_errors == 0) and os.path.exists(outc)
        finally:
            sys.stderr = old
    except BaseException as e:
        res["crash"] = "".join(traceback.format_exception(type(e), e, e.__traceback__))[-3000:]
    res["errors"] = err.getvalue()[-3000:]
    res["rec"] = dict(REC); res["t"] = time.time() - t0
    return res
out = [compile_one(m["src"], m["out"]) for m in spec["mods"]]
# threshold sweeps: bisect, per algorithm, the run length at which its branch starts to save 200 bytes
sweeps = []
for sw in spec.get("sweeps", []):
    cache = {}
    def ev(n):
        if n not in cache:
            name = "%s_%d" % (sw["name"], n)
            d = os.path.join(sw["dir"], name)
            os.makedirs(d, exist_ok=True)
            src = os.path.join(d, name + ".pyx")
            with open(src, "w", encoding="utf-8") as f:
                f.write(sw["head"] + sw["unit"] * n + sw["tail"])
            cache[n] = compile_one(src, os.path.join(d, name + ".c"))
        return cache[n]
    def saves(n, algo):
        rec = ev(n)["rec"]
        return algo in rec.get("comp", {}) and len(rec["comp"][algo]) // 2 <= len(rec["data"]) // 2 - 200
    chosen = set()
    for algo in sw["algos"]:
        lo, hi = sw["lo"], sw["hi"]
        if saves(lo, algo) or not saves(hi, algo):
            continue
        while hi - lo > 1:
            mid = (lo + hi) // 2
            if saves(mid, algo): hi = mid
            else: lo = mid
        for k in sw["around"]:
            ev(lo + k); chosen.add(lo + k)
    sweeps.append({"cache": {str(n): r for n, r in cache.items()}, "chosen": sorted(chosen)})
print(json.dumps({"mods": out, "sweeps": sweeps}))
'''

LOADER = r'''
import sys, json, importlib
sys.path.insert(0, sys.argv[1])
try:
    m = importlib.import_module(sys.argv[2])
    res = []
    for v in m.VALUES:
        if isinstance(v, str): res.append(["str", [ord(c) for c in v]])
        elif isinstance(v, bytes): res.append(["bytes", list(v)])
        else: res.append([type(v).__name__, repr(v)])
    names = sorted(k for k in vars(m) if not k.startswith("__"))
    print(json.dumps({"ok": res, "names": names, "namevals": [repr(getattr(m, k)) for k in names if k not in ("VALUES",)]}))
except BaseException as e:
    print(json.dumps({"exc": type(e).__name__, "msg": str(e)[:300]}))
'''


def py_expected(mod):
    ns = {}
    exec(compile(mod["source"], "<%s>" % mod["name"], "exec"), ns)
    vals = []
    for v in ns["VALUES"]:
        vals.append(["str", [ord(c) for c in v]] if isinstance(v, str) else ["bytes", list(v)])
    names = sorted(k for k in ns if not k.startswith("__"))
    return vals, names, [repr(ns[k]) for k in names if k != "VALUES"]


def chain_of(ctext):
    chain = [({"lzss": 90, "zlib": 1, "bz2": 2, "zstd": 3}[a], int(s)) for a, s in
             re.findall(r"#(?:if|elif) [^\n]* /\* compression: (\w+) \((\d+) bytes\) \*/", ctext)]
    dm = re.search(r"#define CYTHON_COMPRESS_STRINGS (\d+)", ctext)
    return list(reversed(chain)), (int(dm.group(1)) if dm else 0)


SWEEP_HEAD = "# cython: language_level=3\nVALUES = [\n    \""
SWEEP_TAIL = "\",\n    b\"\\x00qqqqqqq\",\n]\n"


def sweep_module(sname, unit, n):
    name = "%s_%d" % (sname, n)
    return {"name": name, "source": SWEEP_HEAD + unit * n + SWEEP_TAIL, "tags": ["run", "bytes"],
            "exprs": ['"%s"' % (unit * n), 'b"\\x00qqqqqqq"'],
            "planned": {"text": [], "bytes": [], "unplaced": []}, "names": [], "sweep_n": n}


def translate_all(workdir, mods, sweeps=()):
    """mods: module dicts; sweeps: [(name, unit, lo, hi, algos, around)] -> error text or None.
    Fills m['tr'], m['chain'], m['default']; returns sweep modules through the list sweeps_out."""
    d = os.path.join(workdir, "big")
    os.makedirs(d, exist_ok=True)
    spec = []
    for m in mods:
        md = os.path.join(d, m["name"])
        os.makedirs(md, exist_ok=True)
        m["dir"] = md
        m["pyx"] = os.path.join(md, m["name"] + ".pyx")
        m["c"] = os.path.join(md, m["name"] + ".c")
        with open(m["pyx"], "w", encoding="utf-8") as f:
            f.write(m["source"])
        spec.append({"src": m["pyx"], "out": m["c"]})
    swspec = [{"name": n, "dir": d, "unit": u, "lo": lo, "hi": hi, "algos": algos, "around": around,
               "head": SWEEP_HEAD, "tail": SWEEP_TAIL} for n, u, lo, hi, algos, around in sweeps]
    res = cybuild.run_script(TRANSLATE, d, {"mods": spec, "sweeps": swspec}, timeout=3000, name="translate_big.py")
    if res["json"] is None:
        return (res["err"] or res["out"])[-1500:], [], []
    for m, tr in zip(mods, res["json"]["mods"]):
        m["tr"] = tr
    sw_mods, sw_all = [], []
    for (sname, unit, lo, hi, algos, around), sr in zip(sweeps, res["json"]["sweeps"]):
        for ns, tr in sorted(sr["cache"].items(), key=lambda kv: int(kv[0])):
            m = sweep_module(sname, unit, int(ns))
            m["dir"] = os.path.join(d, m["name"]); m["c"] = os.path.join(m["dir"], m["name"] + ".c")
            m["pyx"] = os.path.join(m["dir"], m["name"] + ".pyx")
            m["tr"] = tr
            sw_all.append(m)
            if int(ns) in sr["chosen"]:
                sw_mods.append(m)
    for m in list(mods) + sw_all:
        if m["tr"].get("ok"):
            with open(m["c"], encoding="utf-8", errors="replace") as f:
                m["chain"], m["default"] = chain_of(f.read())
    return None, sw_mods, sw_all


def build_and_load(m, macros):
    """compile the C file once per macro value, import, dump -> m['outs'][macro]"""
    outs = {}

    def one(mv):
        md = os.path.join(m["dir"], "m_%s" % ("undef" if mv is None else str(mv)))
        os.makedirs(md, exist_ok=True)
        so = os.path.join(md, m["name"] + cybuild.EXT)
        rc, err = cybuild.cc(m["c"], so, cflags=["-O0"], macros=None if mv is None else ["CYTHON_COMPRESS_STRINGS=%d" % mv])
        if rc != 0:
            return mv, {"cc": err[-600:]}
        p = subprocess.run([cybuild.PY, "-c", LOADER, md, m["name"]], capture_output=True, text=True,
                           env=cybuild.base_env(), timeout=600)
        try:
            js = json.loads(p.stdout.strip().splitlines()[-1])
        except Exception:
            js = {"exc": "CRASH", "msg": "rc=%s %s" % (p.returncode, p.stderr[-300:])}
        return mv, js
    with cf.ThreadPoolExecutor(max_workers=4) as ex:
        for mv, js in ex.map(one, macros):
            outs[mv] = js
    m["outs"] = outs
    return m


# ------------------------------------------------------------------ plan, work (thread), accounting
MIXED = ASCII * 3 + LATIN1 + BMP * 3 + ASTRAL * 2 + CTRL * 2
ALL_MACROS = [None, 0, 1, 2, 3, 90, 5, 91, -1]
NEAR = [e for e in EO_BOUNDS if e <= 641]
FAR = [e for e in EO_BOUNDS if e >= 640]


def pick(r, eos, lens, per):
    return [(eo, ln) for eo in eos for ln in r.sample(lens, min(per, len(lens)))]


def plan(tier, r):
    """-> (modules, sweeps)"""
    mods = []
    if tier == "quick":
        mods.append(make_module(r, "c10bt_forms", 4000, pick(r, NEAR, [3, 4, 5, 34, 35, 36, 258], 2), 800,
                                pick(r, [0, 127, 128, 639, 640], [3, 4, 35], 1), MIXED, [5, 20, 60, 150, 400]))
        mods.append(make_module(r, "c10bt_window", 24000, pick(r, FAR, [4, 5, 35, 36, 258, 300], 2) + [(640, 3), (8320, 3)],
                                2500, pick(r, [129, 641, 2176, 2300], [4, 36], 1), ASCII, [20, 80, 200, 600, 2100]))
        mods.append(make_module(r, "c10bt_64k", 66000, pick(r, r.sample(EO_BOUNDS, 25), LEN_BOUNDS, 2), 4000,
                                pick(r, r.sample(NEAR, 6), LEN_BOUNDS, 1), MIXED, [50, 300, 300, 300, 1000, 2100, 17000]))
        mods.append(make_bz2_module(r, "c10bt_bz2", 36000))
        sweeps = [("c10sw_z", "z", 150, 600, ["lzss", "zlib"], [0, 1])]
    else:
        alphas = [MIXED, ASCII, ASCII + LATIN1 * 2, BMP + ASTRAL + CTRL + ASCII, IDENT + [" ", ".", "("], MIXED]
        for k in range(6):
            mods.append(make_module(r, "c10bt_forms%d" % k, 4000, pick(r, NEAR, LEN_BOUNDS, 4), 1500,
                                    pick(r, NEAR, LEN_BOUNDS, 1), alphas[k], [5, 20, 60, 150, 400, 2100]))
        for k in range(6):
            mods.append(make_module(r, "c10bt_window%d" % k, r.choice([17500, 24000, 33000, 40000]),
                                    pick(r, FAR, [l for l in LEN_BOUNDS if l != 3], 4) + [(e, 3) for e in (640, 641, 8320, 16511)],
                                    r.choice([300, 3000, 9000]), pick(r, EO_BOUNDS, LEN_BOUNDS, 1) if k % 2 else [],
                                    alphas[(k + 1) % 6], [20, 80, 200, 600, 2100, 4100]))
        # table sizes around the saving threshold, the offset-bit limits and the window limit
        for k, size in enumerate([300, 600, 1024, 2100, 4400, 8300, 8500, 8700, 16384, 16700, 17100, 33000]):
            tg = [(eo, ln) for eo, ln in pick(r, EO_BOUNDS, LEN_BOUNDS, 2) if eo + 2 * ln + 60 <= size - 250]
            mods.append(make_module(r, "c10bt_size%d" % k, size - 250, r.sample(tg, min(len(tg), 8)), 60, [],
                                    alphas[k % 6], [20, 80, 200, 600], ident_markers=1, cross=1, extras=(k % 2 == 0)))
        for k, size in enumerate([66000, 70000, 140000, 210000]):
            mods.append(make_module(r, "c10bt_64k%d" % k, size, pick(r, EO_BOUNDS, LEN_BOUNDS, 3), 6000,
                                    pick(r, r.sample(EO_BOUNDS, 10), LEN_BOUNDS, 1), alphas[k % 6],
                                    [50, 300, 1000, 2100, 17000, 66000]))
        mods.append(make_bz2_module(r, "c10bt_bz2", 36000))
        mods.append(make_bz2_module(r, "c10bt_bz2b", 70000))
        sweeps = [("c10sw_z", "z", 150, 600, ["lzss", "zlib", "bz2"], [-2, -1, 0, 1, 2, 3]),
                  ("c10sw_e", "é", 80, 400, ["lzss", "zlib"], [-1, 0, 1, 2]),
                  ("c10sw_ab", "ab\U0001F600", 30, 300, ["lzss", "zlib"], [-1, 0, 1, 2])]
    return mods, sweeps


def make_bz2_module(r, name, chunk_len):
    """two literals sharing one incompressible chunk at a distance beyond the LZSS window (16 KiB) and the
    zlib window (32 KiB): only bz2 can use the repeat, so the bz2 branch is emitted"""
    chunk = "".join(r.choice(ASCII) for _ in range(chunk_len))
    exprs = ['"%s"' % src_text(r, list("!0" + chunk)), '"%s"' % src_text(r, list("!1" + chunk + "tail")), 'b"\\x00\\xff"']
    src = "# cython: language_level=3\nVALUES = [\n" + "".join("    %s,\n" % e for e in exprs) + "]\n"
    return {"name": name, "source": src, "tags": ["str", "str", "bytes"], "exprs": exprs,
            "planned": {"text": [], "bytes": [], "unplaced": []}, "names": [], "macros": [None, 2]}


def nums(l):
    return ",".join(map(str, l)) if l else "-"


def lol(ll):
    return "/".join(nums(l) for l in ll) if ll else "_"


def work(tier, seed, workdir, model, fxw):
    """everything that needs no ctx: generate, translate, build, load, model batch"""
    import time, zlib, bz2
    t0 = time.time()
    r = random.Random("C10big/%s/%s" % (seed, tier))
    mods, sweeps = plan(tier, r)
    W = {"mods": mods, "t_plan": time.time() - t0}
    err, sw_mods, sw_all = translate_all(workdir, mods, sweeps)
    W["t_translate"] = time.time() - t0
    if err:
        W["error"] = err
        return W
    W["sw_mods"], W["sw_all"] = sw_mods, sw_all
    run_mods = [m for m in mods + sw_mods if m["tr"].get("ok")]
    for m in run_mods:
        m["expected"] = py_expected(m)
    lines, owners = [], []
    for m in mods + sw_all:
        rec = m["tr"].get("rec") or {}
        if not m["tr"].get("ok") or "texts" not in rec:
            continue
        lines.append("bigtab %s %s %s" % (fxw, lol(rec["texts"]), lol(rec["bstrs"])))
        owners.append((m, "bigtab"))
        comp = rec.get("comp", {})
        sizes = "1:%s,2:%s,3:x" % (len(comp["zlib"]) // 2 if "zlib" in comp else "x", len(comp["bz2"]) // 2 if "bz2" in comp else "x")
        lines.append("select %s %s" % (sizes, nums(list(bytes.fromhex(rec["data"])))))
        owners.append((m, "select"))
    macros = (lambda m: m.get("macros") or ([None, 0, 1, 2] if "sweep_n" not in m else [None, 1, 90])) if tier == "quick" else (lambda m: ALL_MACROS)
    with cf.ThreadPoolExecutor(max_workers=5 if tier == "quick" else 4) as ex:
        mf = ex.submit(model.batch, lines)
        futs = [ex.submit(build_and_load, m, macros(m)) for m in run_mods]
        for f in futs:
            f.result()
        try:
            res = mf.result()
        except Exception as e:
            W["error"] = "model batch: %r" % (e,)
            return W
    for (m, what), line in zip(owners, res):
        m[what] = line
    W["run_mods"] = run_mods
    W["t_total"] = time.time() - t0
    return W


def eo_class(eo):
    return "eo=%d" % eo if eo in EO_BOUNDS else "eo<%d" % min(b for b in EO_BOUNDS + [10 ** 6] if b > eo)


def len_class(ln):
    return "len=%d" % ln if ln in LEN_BOUNDS else "len<%d" % min(b for b in LEN_BOUNDS + [10 ** 6] if b > ln)


REQUIRED = ([("f7", "eo", e) for e in (0, 1, 127)] + [("f9", "eo", e) for e in (128, 639)] + [("f9", "len", l) for l in (3, 34)]
            + [("f14", "eo", e) for e in (128, 640, 8319, 8320, 16511)] + [("f14", "len", l) for l in (4, 35, 258)]
            + [("f7", "len", l) for l in (3, 258)])


def account(ctx, W, model, replay_dir):
    if W.get("error"):
        ctx.corr_break("large-table harness", "translate/model driver", W["error"][-1200:], "runs")
        return
    ctx.note("large tables: plan %.1fs translate %.1fs total %.1fs (background thread)" % (W["t_plan"], W["t_translate"], W["t_total"]))
    seen = set()            # (form, "eo"|"len", value) reached in tables whose lzss branch is compiled by default
    bits = {"f7": [0, 0], "f9": [0, 0], "f14": [0, 0]}     # or-mask of offset fields, or-mask of complemented fields
    hit = tot = 0
    for m in W["mods"] + W["sw_all"]:
        tr = m["tr"]
        if tr.get("crash") or not tr.get("ok"):
            ctx.corr_break("large-table module %s does not translate" % m["name"], m["name"],
                           (tr.get("crash") or tr.get("errors") or "")[-800:], "translates")
            continue
        rec = tr["rec"]
        data = bytes.fromhex(rec["data"])
        comp = {k: bytes.fromhex(v) for k, v in rec.get("comp", {}).items()}
        sizeclass = "<%d" % min(b for b in [200, 1024, 8320, 16512, 65536, 10 ** 9] if b > len(data))
        ctx.case("bigtable/table%s/%s" % (sizeclass, "sweep" if "sweep_n" in m else "layout"), m["name"],
                 sig=hashlib.md5(data).hexdigest())
        # ---- tie: model table + model compressor + theorem instance
        bt = m.get("bigtab", "").split(" ")
        if bt[0] != "B":
            ctx.corr_break("bigtab (model) on the table of %s" % m["name"], len(data), "a table", " ".join(bt)[:200])
            continue
        _, dmd5, dlen, cmd5, clen, rt, bad, nlit, refs = bt
        if (dmd5, int(dlen)) != (hashlib.md5(data).hexdigest(), len(data)):
            ctx.corr_break("gen_table data vs concat_bytes of %s" % m["name"], len(data), (hashlib.md5(data).hexdigest(), len(data)), (dmd5, dlen))
        if "lzss" in comp and (cmd5, int(clen)) != (hashlib.md5(comp["lzss"]).hexdigest(), len(comp["lzss"])):
            ctx.corr_break("model compressor vs LZSS.py on the table of %s" % m["name"], len(data),
                           (hashlib.md5(comp["lzss"]).hexdigest(), len(comp["lzss"])), (cmd5, clen))
        if rt != "1" or bad != "0":
            ctx.corr_break("table round trip in the model (theorem instance) on %s" % m["name"], len(data), "rt=1 bad=0", "rt=%s bad=%s" % (rt, bad))
        chain, default = m["chain"], m["default"]
        exp = "%s %s %d" % (nums([a for a, _ in chain]), nums([s for _, s in chain]), default)
        if m.get("select") != exp:
            ctx.corr_break("compression selection on the table of %s" % m["name"], len(data), exp, m.get("select"))
        ctx.case("bigtable/selection/%s" % ("+".join({90: "lzss", 1: "zlib", 2: "bz2", 3: "zstd"}[a] for a, _ in chain) or "none"),
                 m["name"], sig=("sel", m["name"], len(data)))
        reflist = [] if refs == "-" else [tuple(map(int, x.split(":"))) for x in refs.split(",")]
        lz = any(a == 90 for a, _ in chain)
        for n, eo, ln in reflist:
            form = "f14" if n == 3 else ("f7" if eo <= 127 else "f9")
            if lz:
                seen.add((form, "eo", eo)); seen.add((form, "len", ln))
                field = eo if form == "f7" else eo - 128
                width = {"f7": 7, "f9": 9, "f14": 14}[form]
                bits[form][0] |= field; bits[form][1] |= (~field) & ((1 << width) - 1)
        if lz:
            from collections import Counter
            cnt = Counter((("f14" if n == 3 else ("f7" if eo <= 127 else "f9")), eo_class(eo), len_class(ln)) for n, eo, ln in reflist)
            for (form, ec, lc), k in cnt.items():
                ctx.count("bigtable/ref/%s/%s/%s" % (form, ec, lc), k)
            ctx.count("bigtable/ref/literal-token", int(nlit))
            planned = [(eo, ln) for eo, ln, _ in m["planned"]["text"] + m["planned"]["bytes"]]
            have = set((eo, ln) for _, eo, ln in reflist)
            tot += len(planned); hit += sum(1 for p in planned if p in have or p[1] > 258 or p[0] > 16511 or (p[1] == 3 and p[0] >= 640))
    if tot:
        ctx.note("large tables: %d of %d planned (end offset, length) targets are tokens of the model token stream" % (hit, tot))
    missing = [q for q in REQUIRED if q not in seen]
    for form, width in (("f7", 7), ("f9", 9), ("f14", 14)):
        full = (1 << width) - 1
        if bits[form][0] != full or bits[form][1] != full:
            missing.append((form, "offset bits seen as 1 / as 0", "%x/%x" % tuple(bits[form])))
    if missing:
        ctx.corr_break("generator coverage of the back-reference forms (token streams of the generated tables)",
                       "classes required in every run", "missing: %r" % (missing,), "all reached")
    ctx.extra["lzss_reference_coverage"] = {"required_classes": len(REQUIRED), "missing": [list(map(str, q)) for q in missing],
                                           "offset_bit_masks_seen_1_and_0": {k: ["%x" % v[0], "%x" % v[1]] for k, v in bits.items()}}
    # ---- the property: every literal and every name has CPython's value under every storage mode
    qs, qo = [], []
    for m in W["run_mods"]:
        for mv in m["outs"]:
            qs.append("choose %d 0 %s" % (m["default"] if mv is None else mv, nums([a for a, _ in m["chain"]])))
            qo.append((m, mv))
    modes = dict(((m["name"], mv), ch) for (m, mv), ch in zip(qo, model.batch(qs)))
    for m in W["run_mods"]:
        evals, enames, enamevals = m["expected"]
        for mv, js in m["outs"].items():
            mode = {"90": "lzss", "1": "zlib", "2": "bz2", "3": "zstd", "NONE": "none"}.get(modes[(m["name"], mv)], "?")
            fam = re.sub(r"\d+$", "", m["name"].split("_", 1)[1])
            where = {"module": m["name"], "macro": mv, "storage": mode, "table_bytes": len(m["tr"]["rec"]["data"]) // 2}

            def keep_source():
                os.makedirs(replay_dir, exist_ok=True)
                p = os.path.join(replay_dir, "C10-src-%s.pyx" % hashlib.sha1(m["source"].encode()).hexdigest()[:12])
                with open(p, "w", encoding="utf-8") as f:
                    f.write(m["source"])
                return p
            if "cc" in js or "exc" in js:
                ctx.fail("module_init_failure", dict(where, source=keep_source()), str(js)[:400], "module imports")
                continue
            for i, (e, v) in enumerate(zip(evals, js["ok"])):
                ctx.case("bigtable/%s/%s/%s" % (fam, mode, m["tags"][i]), m["exprs"][i][:60], sig=(m["name"], i, mv))
                if [v[0], v[1]] != [e[0], e[1]]:
                    k = next((j for j, (x, y) in enumerate(zip(v[1], e[1])) if x != y), min(len(v[1]), len(e[1])))
                    ctx.fail("literal_value_mismatch", dict(where, literal=m["exprs"][i][:300], index=i, source=keep_source()),
                             "%s len %d, differs from position %d: %s" % (v[0], len(v[1]), k, nums(v[1][k:k + 40])),
                             "%s len %d, at position %d: %s" % (e[0], len(e[1]), k, nums(e[1][k:k + 40])))
            if len(js["ok"]) != len(evals):
                ctx.fail("literal_value_mismatch", dict(where, source=keep_source()), "%d values" % len(js["ok"]), "%d values" % len(evals))
            ctx.case("bigtable/%s/%s/identifiers" % (fam, mode), m["name"], sig=(m["name"], "names", mv))
            if js["names"] != enames or js["namevals"] != enamevals:
                bad = sorted(set(js["names"]) ^ set(enames))
                ctx.fail("literal_value_mismatch", dict(where, identifiers=bad[:6], source=keep_source()),
                         "module namespace %s" % (bad[:6],), "names as in the source")
