"""C47 - Source literal stripping is lossless and complete (DESIGN 7/C47, finding F21)."""
import ast, io, itertools, json, os, re, tokenize, warnings
import cybuild

TITLE = "Source literal stripping is lossless and complete"
EXTRACTS = ["Strip"]
RULE = ("source texts: (a) every string over the alphabet {' \" \\ # f { } a newline} up to length 5 (quick) / 6 "
        "(thorough); (b) generated programs assembled from token kinds (code, comments, plain strings of every "
        "prefix/quote kind with escapes, embedded quotes, triple quotes, empty and adjacent literals, f-strings with "
        "every prefix spelling, nested replacement fields, nested same-quote literals, conversions, format specs, "
        "doubled braces, unclosed literals); (c) .py files of the repository under test.  Distinct by text; "
        "non-trivial = contains at least one quote or '#'")
EXPLANATION = ("theorems, for every input text (list of code points) and both model variants: the scanner terminates with "
               "a result (fuel bound S(length) proved sufficient, no impossible token), substituting the literals back "
               "into the stripped items, and into the rendered text by re.sub(prefix+digits+'_') when the prefix does "
               "not occur in the input, reproduces the input exactly; on texts without f-string prefixes the kept/removed "
               "classification equals, position by position, a character-level reference tokenizer (Python's string/"
               "comment lexical rules).  Correspondence: extracted model == real strip_string_literals output (stripped "
               "text and literal dict) on all cases; losslessness re-checked with re.sub; completeness checked against "
               "Python's tokenize on sources accepted by ast.parse; the reference tokenizer itself compared with tokenize.  "
               "partial: completeness inside f-strings is only tested, and refuted by three witness theorems (F21: "
               "upper-case/fr prefixes, '#'/quote in a format spec, f flag carried over an empty triple-quoted literal).")
TRUSTED = ["Python 3.12 tokenize + ast.parse as the oracle for which characters are string-literal/comment bodies",
           "Python re.sub as the definition of 'substituting the labels back'",
           "regex semantics (leftmost match, ordered alternation, greedy '+') transcribed by hand into M_Strip.find"]
ASSUMPTIONS = ["the label prefix '__Pyx_L' does not occur in the input text (needed by the code: labels are found textually)",
               "format-spec characters of f-strings are code by design (kept by the stripper's own tests); they are neither "
               "required to be stripped nor to be kept"]

# model variant flags.  False = the code as it is.
# FIXP: True after proposed_fixes/C47-fstring_prefix_not_lowercase_f.diff  ((?P<fstring> f )? -> [fF][rR]?)
# FIXE: True after proposed_fixes/C47-fstring_flag_after_empty_triple.diff (is_fstring dropped after '' '' '')
FIXP = True
FIXE = True
if os.environ.get("C47_FIXP") in ("0", "1"):      # testing the proposed fixes in a scratch worktree
    FIXP = os.environ["C47_FIXP"] == "1"
if os.environ.get("C47_FIXE") in ("0", "1"):
    FIXE = os.environ["C47_FIXE"] == "1"

PREFIX = "__Pyx_L"
LABEL_RE = re.compile(r"__Pyx_L[0-9]+_")

IMPL_SCRIPT = r'''
import sys, json
import pyload; pyload.install()
from Cython.Build.Dependencies import strip_string_literals
pyload.assert_sources()
import Cython.Build.Dependencies as D
assert not D.__file__.endswith(".so"), D.__file__
inputs = json.load(sys.stdin)["inputs"]
out = []
for s in inputs:
    try:
        stripped, lits = strip_string_literals(s)
        out.append([stripped, [[k, v] for k, v in lits.items()]])
    except BaseException as e:
        out.append({"e": type(e).__name__, "m": str(e)[:200]})
print(json.dumps(out))
'''


def run_impl(ctx, inputs, tag):
    r = cybuild.run_script(IMPL_SCRIPT, os.path.join(ctx.workdir, "impl_" + tag), {"inputs": inputs}, timeout=1500)
    if r["json"] is None or len(r["json"]) != len(inputs):
        raise RuntimeError("impl runner failed: rc=%s %s" % (r["rc"], r["err"][-1500:]))
    return r["json"]


def run_model(ctx, inputs):
    model = ctx.model("strip")
    enc = [(",".join(str(ord(c)) for c in s) or "-") for s in inputs]
    res = model.batch(["strip %d %d %s" % (1 if FIXP else 0, 1 if FIXE else 0, e) for e in enc] + ["ref " + e for e in enc])
    n = len(inputs)
    return [parse_model(x) for x in res[:n]], res[n:]


def parse_model(line):
    """-> (stripped text, [[label, literal], ...], removed-mask string) or the raw line on error"""
    if not line.startswith("D "):
        return line
    _, si, sl = line.split(" ")
    lits = [] if sl == "~" else [("" if x == "-" else "".join(chr(int(c)) for c in x.split(","))) for x in sl.split(";")]
    text, mask = [], []
    for it in ([] if si == "-" else si.split(",")):
        if it[0] == "L":
            text.append("%s%s_" % (PREFIX, it[1:]))
            mask.append("1" * len(lits[int(it[1:]) - 1]))
        else:
            text.append(chr(int(it)))
            mask.append("0")
    return "".join(text), [["%s%d_" % (PREFIX, i + 1), l] for i, l in enumerate(lits)], "".join(mask)


# ---------------------------------------------------------------- oracles (independent of the model)
def substitute_back(stripped, lits):
    d = dict((k, v) for k, v in lits)
    return LABEL_RE.sub(lambda m: d[m.group()], stripped)


def removed_mask(src, stripped, lits):
    """which input positions were moved into literals ('1'), by walking the real output."""
    d = dict((k, v) for k, v in lits)
    mask, pos = [], 0
    for m in LABEL_RE.finditer(stripped):
        mask.append("0" * (m.start() - pos))
        mask.append("1" * len(d[m.group()]))
        pos = m.end()
    mask.append("0" * (len(stripped) - pos))
    return "".join(mask)


def valid_python(src):
    try:
        with warnings.catch_warnings():
            warnings.simplefilter("ignore")
            ast.parse(src)
        return True
    except (SyntaxError, ValueError, RecursionError, MemoryError):
        return False


def tokenize_bodies(src):
    """-> (set of offsets that are string-literal / comment body characters,
           features dict)  or None when tokenize rejects the text.
    f-strings: literal parts (FSTRING_MIDDLE at field depth 0, incl. the second brace of a doubled brace)
    are bodies; format-spec parts (FSTRING_MIDDLE inside a field) are exempt."""
    starts = [0]
    for i, c in enumerate(src):
        if c == "\n":
            starts.append(i + 1)
    def off(rc):
        return starts[rc[0] - 1] + rc[1] if rc[0] - 1 < len(starts) else len(src)
    body = set()
    feats = {"fprefix_other": False, "spec_special": False, "fstring": False,
             "f_empty_triple_run": re.search(r"[fF][rR]?('{7,}|\"{7,})", src) is not None}
    stack = []          # per open f-string: [field depth, end offset of previous token]
    try:
        with warnings.catch_warnings():
            warnings.simplefilter("ignore")
            toks = list(tokenize.generate_tokens(io.StringIO(src).readline))
    except Exception:       # TokenError, SyntaxError, and CPython 3.12.1's SystemError on some inputs
        return None
    for t in toks:
        a, b = off(t.start), off(t.end)
        if stack and stack[-1][0] == 0 and t.type in (tokenize.FSTRING_MIDDLE, tokenize.FSTRING_END, tokenize.OP):
            body.update(range(stack[-1][1], a))          # gap at literal level = second char of {{ or }}
        if t.type == tokenize.COMMENT:
            if src[a:b] != t.string:
                return None
            body.update(range(a + 1, b))
        elif t.type == tokenize.STRING:
            if src[a:b] != t.string:
                return None
            s = t.string
            i = 0
            while s[i] not in "'\"":
                i += 1
            q = 3 if s[i:i + 3] in ("'''", '"""') and len(s) - i >= 6 else 1
            body.update(range(a + i + q, b - q))
        elif t.type == tokenize.FSTRING_START:
            feats["fstring"] = True
            pre = t.string.rstrip("'\"")
            if not pre.endswith("f"):
                feats["fprefix_other"] = True
            stack.append([0, b])
            continue
        elif t.type == tokenize.FSTRING_MIDDLE:
            if not stack:
                return None
            if stack[-1][0] == 0:
                body.update(range(a, b))
            elif any(c in t.string for c in "#'\""):
                feats["spec_special"] = True
        elif t.type == tokenize.FSTRING_END:
            if not stack:
                return None
            stack.pop()
        elif t.type == tokenize.OP and stack:
            if t.string == "{":
                stack[-1][0] += 1
            elif t.string == "}":
                stack[-1][0] -= 1
        if stack:
            stack[-1][1] = b
    return body, feats


def classify(src, feats):
    """finding class from the input text (features of its token stream)"""
    if feats and feats["spec_special"]:
        return "fstring_format_spec_hash_or_quote"
    if feats and feats["f_empty_triple_run"]:
        return "fstring_flag_after_empty_triple"
    if feats and feats["fprefix_other"]:
        return "fstring_prefix_not_lowercase_f"
    if name_glued_to_quote(src):
        return "name_ending_in_f_taken_as_fstring_prefix"
    return "literal_char_left"


def name_glued_to_quote(src):
    """a NAME token ending in f / fr (if, elif, self.f ...) directly followed by a string literal"""
    try:
        toks = list(tokenize.generate_tokens(io.StringIO(src).readline))
    except Exception:
        return False
    for a, b in zip(toks, toks[1:]):
        if a.type == tokenize.NAME and b.type in (tokenize.STRING, tokenize.FSTRING_START) and a.end == b.start \
                and re.search(r"[fF][rR]?$", a.string):
            return True
    return False


# ---------------------------------------------------------------- generators
PLAIN_PREFIXES = ["", "", "", "r", "u", "b", "br", "rb", "R", "U", "B", "Rb", "bR", "BR"]
F_PREFIXES_OK = ["f", "f", "f", "rf", "Rf"]
F_PREFIXES_OTHER = ["F", "fr", "fR", "Fr", "FR", "rF", "RF"]
QUOTES = ["'", '"', "'''", '"""']
WORDS = ["a", "xyz", "cimport foo", "include", "f", "bf", "rf", " ", "  ", "1", "k", "from x cimport y"]


def gen_body_atoms(rng, q, triple, fstr, n):
    out = []
    other = '"' if q == "'" else "'"
    for _ in range(n):
        r = rng.random()
        if r < 0.35:
            out.append(rng.choice(WORDS))
        elif r < 0.45:
            out.append(other * rng.choice([1, 1, 2, 3]))
        elif r < 0.55:
            out.append("\\" + rng.choice([q, other, "\\", "n", "\n", "f" + q if rng.random() < 0.2 else "t"]))
        elif r < 0.62:
            out.append("\\\\" * rng.choice([1, 2]) + rng.choice(["", "\\" + q, "x"]))
        elif r < 0.70:
            out.append("#" + rng.choice(["", " c", "'"]) if not (r < 0.64 and False) else "#")
        elif r < 0.78:
            out.append(rng.choice(["{{", "}}", "{{}}"]) if fstr else rng.choice(["{", "}", "{}", "{x}", "{{"]))
        elif r < 0.88 and triple:
            out.append(rng.choice([q, q + q, "\n", q + "\n", "\n" + q + q + "x"]))
        else:
            out.append(rng.choice(["f", "abf", "uf"]))
    return out


def gen_plain(rng):
    q = rng.choice(QUOTES)
    triple = len(q) == 3
    n = rng.choice([0, 0, 1, 1, 2, 3, 5])
    body = "".join(gen_body_atoms(rng, q[0], triple, False, n))
    if triple and body.endswith(q[0]) and rng.random() < 0.8:
        body += "z"
    return rng.choice(PLAIN_PREFIXES) + q + body + q


def gen_expr(rng, depth):
    r = rng.random()
    if r < 0.25:
        return rng.choice(["x", "a.b", "f(x)", "x+1", "d[0]", "(a, b)", "x if y else z"])
    if r < 0.45:
        k = rng.choice(['"k"', "'k'", '"cimport q"', "'''t'''", '"}"', "'{'", '"#"'])
        return "d[%s]" % k
    if r < 0.60:
        return gen_plain(rng)
    if r < 0.72:
        return " {1: %s}[1] " % rng.choice(["2", '"v"', "x"])
    if r < 0.90 and depth < 3:
        return gen_fstring(rng, depth + 1)
    return "x"


def gen_spec(rng, depth, risky):
    parts = []
    for _ in range(rng.choice([1, 1, 2])):
        r = rng.random()
        if r < 0.5:
            parts.append(rng.choice([">10", "<5", ".2f", "x", "^8", "", "05d", "=+9"]))
        elif r < 0.8:
            parts.append("{%s}" % rng.choice(["w", "w+1", "d['w']" if depth < 2 else "w"]))
        elif risky:
            parts.append(rng.choice(["#x", "#o", "'^9", '"<7', "#"]))
        else:
            parts.append("e")
    return "".join(parts)


def gen_fstring(rng, depth=0, other_prefix_p=0.25, risky_p=0.08):
    q = rng.choice(QUOTES)
    triple = len(q) == 3
    pre = rng.choice(F_PREFIXES_OTHER) if rng.random() < other_prefix_p else rng.choice(F_PREFIXES_OK)
    parts = []
    for _ in range(rng.choice([1, 1, 2, 3, 4])):
        if rng.random() < 0.5:
            parts.append("".join(gen_body_atoms(rng, q[0], triple, True, rng.choice([1, 1, 2]))))
        else:
            e = gen_expr(rng, depth)
            conv = rng.choice(["", "", "", "!r", "!s", "="])
            spec = (":" + gen_spec(rng, depth, rng.random() < risky_p)) if rng.random() < 0.35 else ""
            parts.append("{" + e + conv + spec + "}")
    body = "".join(parts)
    if triple and body.endswith(q[0]) and rng.random() < 0.8:
        body += "z"
    return pre + q + body + q


CODE_ATOMS = ["x", "{}", "{1: 2}", "(a, b)", "(lambda: 0)", "x[1:2]", "{'a': {1}}", "rf", "f", "bf", "F", "fr", "{x for x in y}"]


def gen_statement(rng, idx, fstrings, other_prefix_p, risky_p):
    toks = []
    for _ in range(rng.choice([1, 2, 2, 3, 4])):
        r = rng.random()
        if r < 0.25:
            toks.append(rng.choice(CODE_ATOMS))
        elif r < 0.6 or not fstrings:
            toks.append(gen_plain(rng))
        else:
            toks.append(gen_fstring(rng, 0, other_prefix_p, risky_p))
        if rng.random() < 0.15:
            toks.append(rng.choice(["''", '""', "", '""""""', "'' 'q'", "\\\n x"]))
    sep = rng.choice([" + ", " + ", ", ", ", ", " + ", " ", ""]) if rng.random() < 0.3 else rng.choice([" + ", ", "])
    line = "v%d = " % idx + sep.join(toks) if rng.random() < 0.8 else sep.join(toks)
    if rng.random() < 0.3:
        line += rng.choice(["  # c", "#", "# it's \"q\" {", "  # '''", "#}", " # cimport z"])
    return line


def gen_program(rng, fstrings=True, other_prefix_p=0.25, risky_p=0.08):
    lines = []
    for _ in range(rng.choice([1, 1, 2, 3, 4, 6])):
        for attempt in range(6):
            line = gen_statement(rng, len(lines), fstrings, other_prefix_p, risky_p)
            if valid_python(line + "\n") or rng.random() < 0.04:
                break
        lines.append(line)
    src = "\n".join(lines) + ("\n" if rng.random() < 0.7 else "")
    if rng.random() < 0.08:
        src += rng.choice(["'unclosed", '"""open\nmore', "f'{x", "f'abc{", "x = '\\", "f'''{f\"{", "#"])
    return src


FIXED_CASES = [
    "x = a if'{' in s else b\n", "x = 1 if'a{b' else 2\n", "y = 0 if'}' in t else 1 # '{'\n", "z = [q for q in s if\"{\" in q]\n",
    "", "abc", " '' ", " '''''''''''' ", '"x"', """ '"' "'" """, """ '''' ''' """, r"'a\'b'", r"'a\\'", r"'a\\\'b'",
    "u'abc'", r"ru'abc\\'", "abc # foo", "abc # 'x'", "'abc#'", "include 'a.pxi' # something here",
    """ func('xyz') + " " + "" '' # '' | "" "123" 'xyz' "' """, " f'f' ", " f'a{123}b' ", " f'{1}{f'xyz'}' ",
    """ f'{f'''xyz{f\"""abc\"""}'''}' """, """ f'{{{{{"abc"}}}}}{{}}{{' == '{{abc}}{}{' """,
    "f'" + ('{x} ' * 250) + "{x:{width}} '", "'''''''x'", "''''''''' a '''", "'''''x'''", "''''x'''",
    'x = F"{d["k"]}"\n', 'x = fr"{d["k"]}"\n', 'x = rf"{d["k"]}"\n', 'x = Rf"{d["k"]}"\n', 'x = rF"{d["k"]}"\n',
    'x = FR"""{d["""k"""]}"""\n',
    's = f"""{x:#x}\nabc"""\n', 'a = f"{x:\'^10}"\nb = \'lit\'\n', 'a = f"{x:#x}"\nb = 1\n',
    "f'''{x # c\n}'''\n", "'abc", "f'abc{x", '"""a', "x = '''a''''\n", "a\\\n'b'\n", "'a\\\nb'\n",
    "f'{x!r:>{w}}' 'y'\n", "f'{ {1:2}[1] }' \"z\"\n", "f\"{'}'}\" '{'\n", "bf'x' + uf\"y\"\n",
    "f'{x}}' '}'\n", "x = f''''''' {}'\n", "x = f\"\"\"\"\"\"\"\"\"{y}\"\"\" '{}'\n", "f''''''''''{x}'''\n", "f'}' 'a'\n", "f'{{' 'a'\n", "'\\\\\\\\' 'a'\n", "'\\\\\\\\\\' 'a'\n",
    "\u00e9 = '\u00fc\u4e2d' # \U0001F600\n",
]


def exhaustive(alphabet, maxlen):
    for n in range(0, maxlen + 1):
        for t in itertools.product(alphabet, repeat=n):
            yield "".join(t)


def stratum_of(src, feats, valid):
    if not valid:
        return "invalid-python/" + ("quote" if ("'" in src or '"' in src) else "noquote")
    if feats is None:
        return "valid/untokenizable"
    if feats["spec_special"]:
        return "valid/fstring-spec-special"
    if feats["f_empty_triple_run"]:
        return "valid/fstring-empty-triple-run"
    if feats["fprefix_other"]:
        return "valid/fstring-other-prefix"
    if feats["fstring"]:
        return "valid/fstring"
    return "valid/plain"


def check_batch(ctx, inputs, tag, exhaustive_domain=False):
    impl = run_impl(ctx, inputs, tag)
    mod, refs = run_model(ctx, inputs)
    nbad = 0
    strata = {}
    for src, iv, mv, rv in zip(inputs, impl, mod, refs):
        if nbad > 40:
            break
        if isinstance(iv, dict):
            ctx.fail("exception", {"code": src}, iv, "a (stripped, literals) pair")
            nbad += 1
            continue
        stripped, lits = iv
        # 1. tie: model == implementation, exactly
        if not isinstance(mv, tuple) or mv[0] != stripped or mv[1] != lits:
            ctx.corr_break("strip:model==impl", {"code": src}, [stripped, lits], mv if not isinstance(mv, tuple) else [mv[0], mv[1]])
            nbad += 1
        has_prefix = PREFIX in src
        # 2. losslessness (definition: re.sub of the labels)
        ok_lossless = True
        if not has_prefix:
            try:
                back = substitute_back(stripped, lits)
            except KeyError as e:
                back = "KeyError %s" % e
            if back != src:
                ok_lossless = False
                ctx.fail("not_lossless", {"code": src}, {"stripped": stripped, "literals": lits, "rebuilt": back}, src)
                nbad += 1
        # 3. completeness vs tokenize (valid Python only)
        valid = valid_python(src)
        tb = tokenize_bodies(src) if valid else None
        feats = tb[1] if tb else None
        if exhaustive_domain:
            st = stratum_of(src, feats, valid)
            strata[st] = strata.get(st, 0) + 1
        else:
            ctx.case(stratum_of(src, feats, valid), {"code": src}, sig=src, nontrivial=("'" in src or '"' in src or "#" in src))
        if ok_lossless and not has_prefix:
            rm = removed_mask(src, stripped, lits)
            if tb is not None:
                left = sorted(i for i in tb[0] if rm[i] == "0")
                if left:
                    klass = classify(src, feats)
                    nbad += 0 if klass in ctx.known_classes else 1
                    ctx.fail(klass, {"code": src},
                             {"stripped": stripped, "literal_chars_left_at": left[:20], "chars": "".join(src[i] for i in left[:20])},
                             "no string-literal/comment body character (per tokenize) in the stripped text")
            # 4. the Gallina reference tokenizer: == model classification (theorem), == tokenize on valid plain sources
            if rv.startswith("R "):
                rmask = "" if rv == "R -" else rv[2:]
                if isinstance(mv, tuple) and mv[2] != rmask:
                    ctx.corr_break("theorem C47_complete_non_fstring: model classification == reference", {"code": src}, mv[2], rmask)
                    nbad += 1
                if tb is not None and not feats["fstring"]:
                    want = "".join("1" if i in tb[0] else "0" for i in range(len(src)))
                    if want != rmask:
                        ctx.corr_break("reference tokenizer == tokenize", {"code": src}, want, rmask)
                        nbad += 1
    if exhaustive_domain:
        sigs = set()
        for st, n in strata.items():
            ctx.count("exhaustive/" + st, n)
        ctx.sigs.update((tag, i) for i in range(len(inputs)))


def repo_files(ctx, limit):
    base = os.path.join(ctx.repo, "Cython")
    fs = []
    for root, _, names in os.walk(base):
        for n in names:
            if n.endswith(".py"):
                fs.append(os.path.join(root, n))
    fs.sort()
    ctx.rng.shuffle(fs)
    out = []
    for f in fs:
        try:
            s = open(f, encoding="utf8").read()
        except Exception:
            continue
        if len(s) > 150000 or PREFIX in s or "\r" in s or "\f" in s:
            continue
        out.append(s)
        if len(out) >= limit:
            break
    return out


def run(ctx):
    quick = ctx.tier == "quick"
    rng = ctx.rng
    alpha = "'\"\\#f{}a\n"
    maxlen = 5 if quick else 6
    ex = list(exhaustive(alpha, maxlen))
    check_batch(ctx, ex, "exh", exhaustive_domain=True)
    ctx.extra.setdefault("exhaustive_domains", []).append(
        "all %d strings over %r of length <= %d" % (len(ex), alpha, maxlen))
    ex2 = list(exhaustive("'f{}:#a", 7 if quick else 8))
    ex2 = [s for s in ex2 if s.startswith("f'") and s.endswith("'")]
    check_batch(ctx, ex2, "exh2", exhaustive_domain=True)
    ctx.extra["exhaustive_domains"].append("all %d strings f'...' over \"'f{}:#a\" of length <= %d" % (len(ex2), 7 if quick else 8))
    check_batch(ctx, FIXED_CASES, "fixed")
    n = 2500 if quick else 40000
    progs = []
    for i in range(n):
        k = i % 4
        if k == 0:
            progs.append(gen_program(rng, fstrings=False))
        elif k == 1:
            progs.append(gen_program(rng, other_prefix_p=0.0, risky_p=0.0))
        else:
            progs.append(gen_program(rng))
    check_batch(ctx, sorted(set(progs)), "gen")
    files = repo_files(ctx, 6 if quick else 80)
    check_batch(ctx, files, "files")
    ctx.note("model variant: FIXP=%s FIXE=%s" % (FIXP, FIXE))


def replay(ctx, obj):
    src = obj["input"]["code"]
    impl = run_impl(ctx, [src], "replay")
    print("input   :", json.dumps(src))
    print("impl    :", json.dumps(impl[0]))
    print("expected:", json.dumps(obj.get("expected")))
    check_batch(ctx, [src], "replay2")
