"""C50 - The lexer engine (Cython/Plex) recognises exactly its regular-expression rules (DESIGN 7/C50)."""
import itertools, json, os, re as pyre
import cybuild

TITLE = "The lexer engine recognises exactly its regular-expression rules"
EXTRACTS = ["Plex"]
RULE = ("generated lexicons (1-4 rules; Str/Any/AnyBut/Range/Seq/Alt/Opt/Rep/Rep1/Bol/Eol/Eof/NoCase/Case/Empty/"
        "AnyChar, depth <= 3) x all strings up to length 4 (thorough: 5) over {a,b,c,newline}; each (lexicon, text) "
        "tokenised by the real Lexicon+Scanner (pure-Python sources), by the extracted model pipeline "
        "(build_machine -> nfa_to_dfa -> run_machine), by the extracted derivative matcher and by the harness "
        "oracles (event-level derivative matcher; Python's re.fullmatch for lexicons without Bol/Eol/Eof); "
        "distinct by (lexicon, text); TransitionMap: operation histories (exhaustive <= 2 ops over 9 split "
        "points, random 3-8 ops) vs model map vs a brute-force code->set function")
EXPLANATION = ("theorems (Prop/C50.v, all closed under the global context): (1) TransitionMap: split's binary search "
               "terminates within hi-lo steps, add/add_set never fail, keep the sorted/sentinel invariant and refine "
               "the function code -> state set for every operation history, items() lists exactly the segments "
               "with a non-empty set (or all when S_0 is non-empty); (2) nfa_to_dfa: for every NFA with well-formed "
               "maps and every event word the DFA state reached is the set of NFA states reachable on the word "
               "(epsilon moves included), its action the highest-priority action of that set, blocked iff nothing "
               "is reachable; (3) run_machine_inlined/scan_a_token: for every DFA and text the token is the longest "
               "accepted event prefix with the scanner state saved there, ('',None)/UnrecognizedInput iff no prefix "
               "is accepted, the loop ends within 3*len+8 steps; (2)+(3) composed (lexer_pipeline); (4) the "
               "derivative matcher decides the denotational language and ref_longest returns the longest prefix / "
               "earliest rule; chars_to_ranges: refuted as it is, correct when de-duplicated. "
               "partial: Regexps.build_machine (RE -> NFA = the language ere_of) is NOT proved - it is tied by the "
               "correspondence run (real NFA dump == model NFA, tokens == extracted derivative matcher == harness "
               "oracles); that build_machine keeps the maps well formed is checked per lexicon (nfa_ok) instead of "
               "proved. Out-of-fuel of the nfa_to_dfa worklist / epsilon-closure recursion is the explicit result "
               "None; C50_nfa_to_dfa_terminates proves it cannot occur with fuel above 2^(NFA states) when all "
               "transition targets are states of the machine (never observed in the runs).")
LEVEL_TEXT = ("proof for the transition maps, the subset construction, the scanner loop and the reference matcher "
              "(universally quantified, Coq); the regex -> NFA construction and the derived constructors "
              "(Str/Any/AnyBut/Range/Opt/Rep) are covered by the three-way correspondence run only")
TRUSTED = ["Python set/dict/list semantics (sets of Nodes modelled as finite sets of state numbers; iteration "
           "order only affects DFA state numbering, compared up to renumbering)",
           "the per-Node epsilon_closure memo and the 4096-character buffer refill of the scanner are abstracted "
           "(the refill is exercised by a 1-character-per-read stream in the run)",
           "Python's re module as the character-level reference matcher; the harness event-level derivative matcher"]
ASSUMPTIONS = ["default scanner state only (no State(...) groups, no Begin actions); actions are Return(k)",
               "character codes of the public constructors (0..0x10FFFF); split points other than +-maxint come "
               "from ord() values"]

ALPHA = "abc\n"
# model variant of Regexps.chars_to_ranges: False = the code as it is (a repeated character widens the
# range, finding any_duplicate_chars); flip to True once proposed_fixes/C50-any_duplicate_chars.diff is applied
C2R_DEDUP = (os.environ.get("C50_C2R_DEDUP") or "1") == "1"      # default "0" -> "1" after the patch

# --------------------------------------------------------------------------------------------
# surface regular expressions (JSON-able nested lists)
# --------------------------------------------------------------------------------------------

def gen_re(rng, depth, special_ok=True, nocase_ok=True):
    def chars(lo, hi, alpha=ALPHA):
        return "".join(rng.choice(alpha) for _ in range(rng.randint(lo, hi)))
    leaf = depth <= 0 or rng.random() < 0.35
    if leaf:
        k = rng.random()
        if k < 0.34:
            return ["Str", chars(1, 2)]
        if k < 0.42:
            return ["Str", chars(1, 2), chars(1, 2)]
        if k < 0.55:
            return ["Any", chars(1, 3)]
        if k < 0.68:
            return ["AnyBut", chars(0, 2)]
        if k < 0.76:
            a, b = sorted(rng.sample("abc", 2))
            return ["Range", a, b] if rng.random() < 0.6 else ["Range", a + b + rng.choice("ab") + "c"]
        if k < 0.79:
            return ["Range", "\n", rng.choice("ab")]          # a range that contains the newline
        if k < 0.82:
            return ["AnyChar"]
        if k < 0.85:
            return ["Empty"]
        if special_ok:
            return [rng.choice(["Bol", "Eol", "Eol", "Eof"])]
        return ["Str", chars(1, 1)]
    k = rng.random()
    sub = lambda: gen_re(rng, depth - 1, special_ok, nocase_ok)
    if k < 0.30:
        return ["Seq"] + [sub() for _ in range(rng.randint(2, 3))]
    if k < 0.52:
        return ["Alt"] + [sub() for _ in range(rng.randint(2, 3))]
    if k < 0.66:
        return ["Opt", sub()]
    if k < 0.80:
        return ["Rep", sub()]
    if k < 0.93:
        return ["Rep1", sub()]
    if nocase_ok:
        inner = gen_re(rng, depth - 1, special_ok, False)
        inner = upper_some(rng, inner)
        return ["NoCase", inner] if rng.random() < 0.75 else ["NoCase", ["Seq", ["Case", inner], sub()]]
    return ["Seq", sub(), sub()]


def upper_some(rng, r):
    """make NoCase matter: upper-case some pattern letters"""
    if r[0] in ("Str", "Any", "AnyBut"):
        return [r[0]] + ["".join(c.upper() if rng.random() < 0.5 else c for c in s) for s in r[1:]]
    if r[0] in ("Seq", "Alt", "Opt", "Rep", "Rep1", "NoCase", "Case"):
        return [r[0]] + [upper_some(rng, x) for x in r[1:]]
    return r


def has(r, names):
    return r[0] in names or any(isinstance(x, list) and has(x, names) for x in r[1:])


def nocase_over_anybut(r, under=False):
    if r[0] == "NoCase":
        return any(nocase_over_anybut(x, True) for x in r[1:])
    if r[0] == "Case":
        return any(nocase_over_anybut(x, False) for x in r[1:])
    if r[0] in ("AnyBut", "AnyChar"):
        return under
    return any(isinstance(x, list) and nocase_over_anybut(x, under) for x in r[1:])


def show(r):
    if r[0] in ("Bol", "Eol", "Eof", "Empty", "AnyChar"):
        return r[0]
    return "%s(%s)" % (r[0], ",".join(repr(x) if isinstance(x, str) else show(x) for x in r[1:]))


# --------------------------------------------------------------------------------------------
# oracle 1: event-level derivative matcher (BOL/EOL events transparent to character atoms)
# --------------------------------------------------------------------------------------------
O_EMPTY, O_EPS = ("0",), ("1",)


def o_seq(a, b):
    if a == O_EMPTY or b == O_EMPTY: return O_EMPTY
    if a == O_EPS: return b
    if b == O_EPS: return a
    return ("seq", a, b)


def o_alt(a, b):
    if a == O_EMPTY: return b
    if b == O_EMPTY: return a
    if a == b: return a
    return ("alt", a, b)


def o_opt(a):
    return o_alt(O_EPS, a)


def o_class(pred_chars, neg, nocase):
    """one character of the class, with the pseudo-events BOL (and EOL before a newline) skipped"""
    def inclass(c):
        cand = {c}
        if nocase and c.isascii() and c.isalpha():
            cand.add(c.swapcase())
        return any((x in pred_chars) != neg for x in cand)
    plain = ("cls", frozenset(pred_chars), neg, nocase, False)     # the class minus newline
    out = plain
    if inclass("\n"):
        out = o_alt(plain, o_seq(o_opt(("sym", "E")), ("nl",)))
    return o_seq(o_opt(("sym", "B")), out)


def o_of(r, nocase=False):
    t = r[0]
    if t == "Str":
        alts = O_EMPTY
        for s in r[1:]:
            q = O_EPS
            for c in s:
                q = o_seq(q, o_class(c, False, nocase))
            alts = o_alt(alts, q)
        return alts
    if t == "Any": return o_class(r[1], False, nocase)
    if t == "AnyBut": return o_class(r[1], True, nocase)
    if t == "AnyChar": return o_class("", True, nocase)
    if t == "Range":
        if len(r) == 3:
            cs = "".join(chr(i) for i in range(ord(r[1]), ord(r[2]) + 1))
        else:
            cs = "".join(chr(i) for k in range(0, len(r[1]), 2) for i in range(ord(r[1][k]), ord(r[1][k + 1]) + 1))
        return o_class(cs, False, nocase)
    if t == "Empty": return O_EPS
    if t == "Bol": return ("sym", "B")
    if t == "Eol": return o_seq(o_opt(("sym", "B")), ("sym", "E"))
    if t == "Eof": return ("sym", "F")
    if t == "Seq":
        q = O_EPS
        for x in r[1:]:
            q = o_seq(q, o_of(x, nocase))
        return q
    if t == "Alt":
        q = O_EMPTY
        for x in r[1:]:
            q = o_alt(q, o_of(x, nocase))
        return q
    if t == "Opt": return o_opt(o_of(r[1], nocase))
    if t == "Rep": return o_opt(("plus", o_of(r[1], nocase)))
    if t == "Rep1": return ("plus", o_of(r[1], nocase))
    if t == "NoCase": return o_of(r[1], True)
    if t == "Case": return o_of(r[1], False)
    raise ValueError(t)


def o_nullable(q):
    t = q[0]
    if t == "1": return True
    if t in ("0", "cls", "nl", "sym"): return False
    if t == "seq": return o_nullable(q[1]) and o_nullable(q[2])
    if t == "alt": return o_nullable(q[1]) or o_nullable(q[2])
    return o_nullable(q[1])      # plus


def o_deriv(q, e, memo):
    key = (q, e)
    v = memo.get(key)
    if v is not None:
        return v
    t = q[0]
    if t in ("0", "1"):
        v = O_EMPTY
    elif t == "cls":
        ok = False
        if len(e) == 2 and e[1] != "\n":          # ("c", ch)
            c = e[1]
            cand = {c}
            if q[3] and c.isascii() and c.isalpha():
                cand.add(c.swapcase())
            ok = any((x in q[1]) != q[2] for x in cand)
        v = O_EPS if ok else O_EMPTY
    elif t == "nl":
        v = O_EPS if e == ("c", "\n") else O_EMPTY
    elif t == "sym":
        v = O_EPS if e == (q[1],) else O_EMPTY
    elif t == "seq":
        v = o_seq(o_deriv(q[1], e, memo), q[2])
        if o_nullable(q[1]):
            v = o_alt(v, o_deriv(q[2], e, memo))
    elif t == "alt":
        v = o_alt(o_deriv(q[1], e, memo), o_deriv(q[2], e, memo))
    else:
        v = o_seq(o_deriv(q[1], e, memo), o_opt(q))
    memo[key] = v
    return v


def events_of(text):
    """the event word of a whole text, with the text offset reached *after* each event"""
    ev, off = [("B",)], [0]
    for i, c in enumerate(text):
        if c == "\n":
            ev += [("E",), ("c", "\n"), ("B",)]
            off += [i, i + 1, i + 1]
        else:
            ev.append(("c", c)); off.append(i + 1)
    ev += [("E",), ("F",)]
    off += [len(text), len(text)]
    return ev, off


def oracle_events(rules_o, text, ntok, memo):
    """tokens (start, stop, line, col, rule) by longest event prefix / earliest rule; then the end marker"""
    ev, off = events_of(text)
    pos = 0                      # index into ev of the next unread event
    out = []
    for _ in range(ntok):
        start = off[pos - 1] if pos else 0
        # text offset of the scanner = offset after the last consumed event; before a char event at
        # index pos the offset is that of the previous event
        cur = list(rules_o)
        best = None
        for k in range(pos, len(ev) + 1):
            for ri, q in enumerate(cur):
                if o_nullable(q):
                    best = (k, ri + 1)
                    break
            if k == len(ev):
                break
            cur = [o_deriv(q, ev[k], memo) for q in cur]
            if all(q == O_EMPTY for q in cur):
                break
        if best is None:
            # no rule matches.  Characters left: the property demands an error.  Only pseudo-events
            # (EOL/EOF) left: the scanner answers ('', None) or UnrecognizedInput depending on how far the
            # failed attempt advanced (it does not restore its state on failure); the property does not
            # say which, the model/implementation tie pins it exactly.
            out.append("END" if start == len(text) else "ERR")
            return out
        k, rule = best
        stop = off[k - 1] if k else 0
        line = 1 + text.count("\n", 0, start)
        col = start - (text.rfind("\n", 0, start) + 1)
        out.append((start, stop, line, col, rule))
        pos = k
    return out


# --------------------------------------------------------------------------------------------
# oracle 2: Python's re module on the characters (lexicons without Bol/Eol/Eof)
# --------------------------------------------------------------------------------------------
def cls_pat(chars, neg):
    if not chars:
        return "(?s:.)" if neg else "(?!)"
    body = "".join("\\n" if c == "\n" else pyre.escape(c) for c in sorted(set(chars)))
    return "[%s%s]" % ("^" if neg else "", body)


def pat_of(r):
    t = r[0]
    if t == "Str":
        return "(?:%s)" % "|".join("(?:%s)" % pyre.escape(s) for s in r[1:])
    if t == "Any": return cls_pat(r[1], False)
    if t == "AnyBut": return cls_pat(r[1], True)
    if t == "AnyChar": return "(?s:.)"
    if t == "Range":
        if len(r) == 3:
            prs = [(r[1], r[2])]
        else:
            prs = [(r[1][k], r[1][k + 1]) for k in range(0, len(r[1]), 2)]
        cs = "".join(chr(i) for a, b in prs for i in range(ord(a), ord(b) + 1))
        return cls_pat(cs, False)
    if t == "Empty": return "(?:)"
    if t == "Seq": return "(?:%s)" % "".join(pat_of(x) for x in r[1:])
    if t == "Alt": return "(?:%s)" % "|".join(pat_of(x) for x in r[1:])
    if t == "Opt": return "(?:%s)?" % pat_of(r[1])
    if t == "Rep": return "(?:%s)*" % pat_of(r[1])
    if t == "Rep1": return "(?:%s)+" % pat_of(r[1])
    if t == "NoCase": return "(?i:%s)" % pat_of(r[1])
    if t == "Case": return "(?-i:%s)" % pat_of(r[1])
    raise ValueError(t)


def oracle_re(pats, text, ntok):
    out, pos = [], 0
    for _ in range(ntok):
        best = None
        for ln in range(len(text) - pos, -1, -1):
            for ri, p in enumerate(pats):
                if p.fullmatch(text, pos, pos + ln):
                    best = (ln, ri + 1); break
            if best:
                break
        if best is None:
            out.append("END" if pos == len(text) else "ERR")
            return out
        out.append((pos, pos + best[0], best[1]))
        pos += best[0]
    return out


# --------------------------------------------------------------------------------------------
# the worker run against the repository sources
# --------------------------------------------------------------------------------------------
WORKER = r'''
import sys, json, signal, io, re
import pyload; pyload.install()
from Cython.Plex import Regexps, Lexicons, Scanners, Machines, DFA, Transitions, Errors
pyload.assert_sources()
from Cython.Plex.Regexps import *
maxint = Transitions.maxint

def mk(r):
    t = r[0]
    if t == "Str": return Str(*r[1:])
    if t == "Any": return Any(r[1])
    if t == "AnyBut": return AnyBut(r[1])
    if t == "AnyChar": return AnyChar
    if t == "Range": return Range(*r[1:])
    if t == "Empty": return Empty
    if t == "Bol": return Bol
    if t == "Eol": return Eol
    if t == "Eof": return Eof
    if t == "Seq": return Seq(*[mk(x) for x in r[1:]])
    if t == "Alt": return Alt(*[mk(x) for x in r[1:]])
    if t == "Opt": return Opt(mk(r[1]))
    if t == "Rep": return Rep(mk(r[1]))
    if t == "Rep1": return Rep1(mk(r[1]))
    if t == "NoCase": return NoCase(mk(r[1]))
    if t == "Case": return Case(mk(r[1]))
    raise ValueError(t)

def prim(x):
    if isinstance(x, Regexps.RawCodeRange): return "r%d:%d" % x.range
    if isinstance(x, Regexps._RawNewline): return "n"
    if isinstance(x, Regexps.SpecialSymbol): return {"bol": "B", "eol": "E", "eof": "F"}[x.sym]
    if isinstance(x, Regexps.Seq): return ",".join(["q%d" % len(x.re_list)] + [prim(y) for y in x.re_list])
    if isinstance(x, Regexps.Alt): return ",".join(["a%d" % len(x.re_list)] + [prim(y) for y in x.re_list])
    if isinstance(x, Regexps.Rep1): return "p," + prim(x.re)
    if isinstance(x, Regexps.SwitchCase): return "c%d,%s" % (1 if x.nocase else 0, prim(x.re))
    raise ValueError(type(x))

def mask(states):
    m = 0
    for s in (states or ()):
        m |= 1 << (s.number - 1)
    return m

def dump_nfa(nfa):
    out = []
    for st in nfa.states:
        mp = st.transitions.map
        codes = ",".join(str(c) for c in mp[0::2])
        sets = ",".join(str(mask(s)) for s in mp[1::2])
        sp = st.transitions.special
        act = st.action.value if st.action is not None else "-"
        out.append("%s/%s|%d|%d|%d|%d|%s|%d" % (codes, sets, mask(sp.get('')), mask(sp.get('bol')),
                   mask(sp.get('eol')), mask(sp.get('eof')), act, st.action_priority))
    return ";".join(out)

def canon_dfa(dfa, mapping):
    init = dfa.initial_states['']
    order, seen, todo = [], {id(init): 0}, [init]
    while todo:
        st = todo.pop(0)
        order.append(st)
        keys = []
        for k, v in st.items():
            if k in ('number', 'action') or v is None: continue
            keys.append(((0, ord(k)) if len(k) == 1 else (1, k), v))
        keys.sort(key=lambda kv: kv[0])
        for k, v in keys:
            if id(v) not in seen:
                seen[id(v)] = len(seen); todo.append(v)
    res = []
    for st in order:
        tr = []
        for k, v in st.items():
            if k in ('number', 'action') or v is None: continue
            tr.append([ord(k) if len(k) == 1 else k, seen[id(v)]])
        tr.sort(key=lambda kv: (0, kv[0]) if isinstance(kv[0], int) else (1, kv[0]))
        act = st['action'].value if st['action'] is not None else None
        res.append([mapping.get(st['number']), act, tr])
    return res, len(dfa.states)

class Slow:
    """a stream that returns one character per read() call (exercises the buffer refill)"""
    def __init__(self, s): self.s, self.i = s, 0
    def read(self, n):
        c = self.s[self.i:self.i + 1]; self.i += 1
        return c

def ev_name(c):
    if c in ('bol', 'eol', 'eof'): return c[0].upper() if c != 'eof' else 'F'
    if c == '': return 'N'
    return "c%d" % ord(c)

def tokens(lex, text, ntok, slow):
    sc = Scanners.Scanner(lex, Slow(text) if slow else io.StringIO(text), "t")
    out = []
    for _ in range(ntok):
        try:
            v, t = sc.read()
        except Errors.UnrecognizedInput:
            out.append("ERR"); break
        if v is None:
            out.append("EOF"); break
        line, col = sc.position()[1:]
        start, stop = sc.start_pos, sc.cur_pos
        if text[start:stop] != t:
            out.append(["TEXT-MISMATCH", start, stop, t]); break
        cname = ev_name(sc.cur_char)
        out.append([start, stop, line, col, v, "%s/%d/%d" % (cname, sc.input_state, sc.cur_pos)])
    return out

class TO(Exception): pass
def on_alarm(*a): raise TO()
signal.signal(signal.SIGALRM, on_alarm)

spec = json.load(sys.stdin)
texts = spec["texts"]
res = {"lex": [], "tm": []}
captured = {}
orig = DFA.nfa_to_dfa
def wrap(old_machine, debug=None):
    captured["nfa"] = dump_nfa(old_machine)
    return orig(old_machine, debug=debug)
Lexicons.DFA.nfa_to_dfa = wrap
for li, rules in enumerate(spec["lexicons"]):
    ent = {}
    try:
        signal.alarm(60)
        res_objs = [mk(r) for r in rules]
        ent["prim"] = [prim(x) for x in res_objs]
        dbg = io.StringIO()
        lex = Lexicons.Lexicon([(x, k + 1) for k, x in enumerate(res_objs)], debug=dbg, debug_flags=3)
        ent["nfa"] = captured["nfa"]
        mapping = {}
        for m in re.finditer(r"State (\d+) <-- \[(.*?)\]", dbg.getvalue()):
            mm = 0
            for s in m.group(2).split(","):
                if s: mm |= 1 << (int(s[1:]) - 1)
            mapping[int(m.group(1))] = mm
        ent["dfa"], ent["ndfa"] = canon_dfa(lex.machine, mapping)
        toks = []
        for ti, t in enumerate(texts):
            n = len(t) + 3
            a = tokens(lex, t, n, False)
            if (ti + li) % 7 == 0:
                b = tokens(lex, t, n, True)
                if a != b:
                    a = ["SLOW-STREAM-DIFFERS", a, b]
            toks.append(a)
        ent["toks"] = toks
        signal.alarm(0)
    except TO:
        ent["error"] = "TIMEOUT"
    except Exception as e:
        signal.alarm(0)
        ent["error"] = "%s: %s" % (type(e).__name__, str(e)[:200])
    res["lex"].append(ent)

res["c2r"] = [Regexps.chars_to_ranges(x) for x in spec.get("c2r", [])]
# TransitionMap histories: op = [c0, c1, [states]] ; single state -> add, several -> add_set
for hist in spec["tm"]:
    tm = Transitions.TransitionMap()
    try:
        for c0, c1, sts in hist:
            if len(sts) == 1: tm.add((c0, c1), sts[0])
            else: tm.add_set((c0, c1), set(sts))
        mp = tm.map
        def mk_mask(s):
            m = 0
            for x in s: m |= 1 << x
            return m
        flat = ",".join(str(c) for c in mp[0::2]) + "/" + ",".join(str(mk_mask(s)) for s in mp[1::2])
        items = ",".join("%d:%d:%d" % (ev[0], ev[1], mk_mask(s)) for ev, s in tm.items() if type(ev) is tuple)
        res["tm"].append([flat, items])
    except Exception as e:
        res["tm"].append(["EXC %s %s" % (type(e).__name__, e), ""])
print(json.dumps(res))
'''

MAXINT = 2 ** 31 - 1


def all_texts(maxlen):
    out = []
    for n in range(maxlen + 1):
        out += ["".join(p) for p in itertools.product(ALPHA, repeat=n)]
    return out


def gen_lexicons(rng, n):
    out, seen = [], set()
    fixed = [
        [["Str", "a"], ["Str", "\n"], ["Str", "b"]],
        [["Str", "a"], ["Eol"], ["Str", "\n"], ["Eof"]],
        [["Rep1", ["Any", "ab"]], ["Str", "ab"], ["Str", "a"], ["AnyChar"]],
        [["Str", "ab"], ["Rep1", ["Any", "ab"]], ["Seq", ["Eol"], ["Opt", ["Str", "\n"]]], ["Any", "c"]],
        [["Seq", ["Str", "a"], ["Rep", ["Str", "b"]], ["Str", "c"]], ["Str", "a"], ["AnyBut", "a"]],
        [["Seq", ["Bol"], ["Str", "a"]], ["Str", "a"], ["AnyBut", ""]],
        [["NoCase", ["Str", "Ab"]], ["Any", "abc"], ["Str", "\n"]],
        [["Opt", ["Str", "a"]], ["Str", "b"]],
        [["Seq", ["Str", "\n"], ["Opt", ["Str", "b"]], ["Str", "a"]], ["AnyChar"]],
        [["Rep1", ["Seq", ["Str", "a"], ["Opt", ["Str", "\n"]]]], ["AnyBut", "a"]],
    ]
    for lx in fixed:
        out.append(lx); seen.add(json.dumps(lx))
    while len(out) < n:
        k = rng.choice([1, 2, 2, 3, 3, 4, 4])
        sp = rng.random() < 0.45
        lx = [gen_re(rng, rng.choice([1, 2, 2, 3]), special_ok=sp, nocase_ok=rng.random() < 0.3) for _ in range(k)]
        key = json.dumps(lx)
        if key in seen:
            continue
        seen.add(key); out.append(lx)
    return out


def gen_tm_histories(rng, nrand):
    pts = [-MAXINT, -2, 0, 1, 2, 3, 5, 6, MAXINT]
    pairs = [(a, b) for a in pts for b in pts]
    hs = [[[a, b, [0]]] for a, b in pairs]
    hs += [[[a, b, [0]], [c, d, [1]]] for a, b in pairs for c, d in pairs]
    for _ in range(nrand):
        h = []
        for k in range(rng.randint(3, 8)):
            a, b = rng.choice(pts + [4, 7, 97, 98]), rng.choice(pts + [4, 7, 98, 123])
            if rng.random() < 0.75 and a > b:
                a, b = b, a
            sts = [k] if rng.random() < 0.6 else sorted(rng.sample(range(10), rng.randint(2, 3)))
            h.append([a, b, sts])
        hs.append(h)
    return hs


def tm_expected(hist):
    """brute force: the set mapped to each probe code"""
    probes = sorted({-MAXINT, MAXINT - 1} | {c + d for op in hist for c in op[:2] for d in (-1, 0, 1)
                                            if -MAXINT <= c + d < MAXINT})
    exp = {}
    for p in probes:
        m = 0
        for c0, c1, sts in hist:
            if c0 <= p < c1:
                for s in sts:
                    m |= 1 << s
        exp[p] = m
    return exp


def tm_lookup(flat, p):
    codes, sets = flat.split("/")
    codes = [int(x) for x in codes.split(",")]
    sets = [int(x) for x in sets.split(",")]
    if len(codes) != len(sets) + 1:
        return "shape"
    for i in range(len(sets)):
        if codes[i] <= p < codes[i + 1]:
            return sets[i]
    return "nosegment"


def canon_model_dfa(line):
    sts = []
    for s in line.split(";"):
        old, act, chars, els, bol, eol, eof = s.split("|")
        tr = {}
        if chars != "-":
            for it in chars.split(","):
                a, b, j = it.split(":")
                for c in range(int(a), int(b)):
                    tr.setdefault(c, int(j))
        for name, v in (("else", els), ("bol", bol), ("eol", eol), ("eof", eof)):
            if v != "-":
                tr[name] = int(v)
        sts.append((int(old), None if act == "-" else int(act), tr))
    skey = lambda k: (0, k) if isinstance(k, int) else (1, k)
    seen, todo, order = {0: 0}, [0], []
    while todo:
        i = todo.pop(0); order.append(i)
        for k in sorted(sts[i][2], key=skey):
            j = sts[i][2][k]
            if j not in seen:
                seen[j] = len(seen); todo.append(j)
    res = []
    for i in order:
        old, act, tr = sts[i]
        res.append([old, act, [[k, seen[tr[k]]] for k in sorted(tr, key=skey)]])
    return res, len(sts)


def dup_class(r):
    """Any(s) / AnyBut(s) whose argument repeats a character (Regexps.chars_to_ranges)"""
    if r[0] in ("Any", "AnyBut") and len(set(r[1])) != len(r[1]):
        return True
    return any(isinstance(x, list) and dup_class(x) for x in r[1:])


def widened_chars(x):
    """the characters Any(x) really matches on the unchanged tree (one extra code per repeated character)"""
    cl = sorted(x)
    out, i = set(), 0
    while i < len(cl):
        c1 = ord(cl[i]); c2 = c1 + 1; i += 1
        while i < len(cl) and c2 >= ord(cl[i]):
            c2 += 1; i += 1
        out |= set(range(c1, c2))
    return "".join(map(chr, sorted(out)))


def widen(r):
    if r[0] in ("Any", "AnyBut"):
        return [r[0], widened_chars(r[1])]
    return [r[0]] + [widen(x) if isinstance(x, list) else x for x in r[1:]]


def events_agree(got, exp):
    if len(exp) != len(got):
        return False
    for g, e in zip(got, exp):
        if isinstance(e, tuple):
            if not (isinstance(g, list) and tuple(g[:5]) == e):
                return False
        elif e == "ERR":
            if g != "ERR":
                return False
        elif g not in ("EOF", "ERR"):
            return False
    return True


def classify(lexicon, text):
    if any(dup_class(r) for r in lexicon):
        return "any_duplicate_chars"
    if any(nocase_over_anybut(r) for r in lexicon):
        return "nocase_negated_class"
    return "wrong_token"


def hexs(t):
    return t.encode("latin-1").hex() or "-"


def parse_model_tokens(line):
    out = []
    for w in line.split():
        if ":" in w:
            a, b, l, c, k, cfg = w.split(":")
            out.append([int(a), int(b), int(l), int(c), int(k), cfg])
        else:
            out.append(w)
    return out


def run(ctx):
    quick = ctx.tier == "quick"
    nlex = 150 if quick else 1500
    texts = all_texts(4 if quick else 5)
    lexicons = gen_lexicons(ctx.rng, nlex)
    hists = gen_tm_histories(ctx.rng, 1500 if quick else 20000)
    c2r = ["".join(p) for n in range(0, 5) for p in itertools.product("abd\n", repeat=n)]
    c2r += ["".join(ctx.rng.choice("abcdxyzAB\n 09") for _ in range(ctx.rng.randint(1, 12))) for _ in range(300)]
    check(ctx, lexicons, texts, hists, c2r)


def check(ctx, lexicons, texts, hists, c2r_strings=()):
    model = ctx.model("plex")
    c2r_strings = list(c2r_strings)
    impl_c2r = []
    # ---- implementation ----
    chunks = [lexicons[i:i + 100] for i in range(0, len(lexicons), 100)] or [[]]
    impl_lex, impl_tm = [], []
    import concurrent.futures as cf
    def one(args):
        k, chunk = args
        r = cybuild.run_script(WORKER, ctx.workdir, {"lexicons": chunk, "texts": texts,
                                                     "tm": hists if k == 0 else [],
                                                     "c2r": c2r_strings if k == 0 else []},
                               timeout=3000, name="worker%d.py" % k)
        return r
    with cf.ThreadPoolExecutor(max_workers=6) as ex:
        rs = list(ex.map(one, enumerate(chunks)))
    for k, r in enumerate(rs):
        if r["json"] is None:
            ctx.corr_break("plex:worker", {"chunk": k}, (r["err"] or r["out"])[-1500:], "worker output")
            return
        impl_lex += r["json"]["lex"]
        if k == 0:
            impl_tm = r["json"]["tm"]
            impl_c2r = r["json"]["c2r"]
    # ---- Regexps.chars_to_ranges ----
    mres = model.batch(["c2r %d %s" % (1 if C2R_DEDUP else 0, hexs(x)) for x in c2r_strings])
    for x, got, m in zip(c2r_strings, impl_c2r, mres):
        ctx.case("chars_to_ranges/%s" % ("dup" if len(set(x)) != len(x) else "nodup"), x, sig=("c2r", x))
        mv = [] if m == "-" else [int(v) for v in m.split(",")]
        if mv != got:
            ctx.corr_break("plex:chars_to_ranges", x, got, mv)
        covered = set()
        for a, b in zip(got[0::2], got[1::2]):
            covered |= set(range(a, b))
        if covered != set(map(ord, x)):
            ctx.fail("any_duplicate_chars" if len(set(x)) != len(x) else "chars_to_ranges_wrong",
                     {"chars_to_ranges": x}, got, sorted(set(map(ord, x))), note="codes covered by the ranges")
    # ---- TransitionMap histories ----
    q = []
    for h in hists:
        q.append("tm " + " ".join("%d:%d:%s" % (c0, c1, str(s[0]) if len(s) == 1 else
                                                 "s%d" % sum(1 << x for x in s)) for c0, c1, s in h))
    mres = model.batch(q)
    nbad = 0
    for h, (flat, items), m in zip(hists, impl_tm, mres):
        ctx.case("tmap/%d-ops" % min(len(h), 3), h, sig=("tm", json.dumps(h)))
        mflat, _, mitems = m.partition(" ")
        if (flat, items) != (mflat, mitems) and nbad < 5:
            ctx.corr_break("plex:TransitionMap", h, [flat, items], m); nbad += 1
        if flat.startswith("EXC"):
            ctx.fail("tmap_exception", h, flat, "a map"); continue
        exp = tm_expected(h)
        for p, want in exp.items():
            got = tm_lookup(flat, p)
            if got != want and nbad < 5:
                ctx.fail("tmap_wrong_set", {"history": h, "code": p}, got, want); nbad += 1
        codes = [int(x) for x in flat.split("/")[0].split(",")]
        if (codes[0] != -MAXINT or codes[-1] != MAXINT or any(a >= b for a, b in zip(codes, codes[1:]))) and nbad < 5:
            ctx.fail("tmap_invariant", h, flat, "sorted codes with sentinels"); nbad += 1
    ctx.extra.setdefault("exhaustive_domains", []).append(
        "TransitionMap: all histories of <= 2 add() over split points {-maxint,-2,0,1,2,3,5,6,maxint}^2")
    # ---- lexicons ----
    q, idx = [], []
    for li, (lx, ent) in enumerate(zip(lexicons, impl_lex)):
        if "error" in ent:
            continue
        q.append("lex " + " ".join(ent["prim"])); q.append("nfa"); q.append("dfa")
        for t in texts:
            q.append("scan %s %d" % (hexs(t), len(t) + 3))
            q.append("ref %s %d" % (hexs(t), len(t) + 3))
        idx.append(li)
    mres = model.batch(q)
    pos = 0
    nfail = {}
    for li in range(len(lexicons)):
        lx, ent = lexicons[li], impl_lex[li]
        name = [show(r) for r in lx]
        special = any(has(r, ("Bol", "Eol", "Eof")) for r in lx)
        if "error" in ent:
            ctx.fail("lexicon_construction_error", {"lexicon": lx}, ent["error"], "a Lexicon")
            continue
        mlex, mnfa, mdfa = mres[pos], mres[pos + 1], mres[pos + 2]
        pos += 3
        inp0 = {"lexicon": lx, "show": name}
        ok = mlex.startswith("ok ")
        if not ok:
            ctx.corr_break("plex:lexicon", inp0, "built", mlex)
        else:
            if mlex.split()[3] != "1":
                ctx.note("model NFA fails nfa_ok / nfa_bounded (hypotheses of the theorems): %s" % name)
                ctx.corr_break("plex:nfa_ok", inp0, "?", mlex)
            if ent["nfa"] != mnfa:
                ctx.corr_break("plex:build_machine(NFA)", inp0, ent["nfa"][:600], mnfa[:600])
            cm, nm = canon_model_dfa(mdfa)
            if [cm, nm] != [ent["dfa"], ent["ndfa"]]:
                ctx.corr_break("plex:nfa_to_dfa", inp0, json.dumps(ent["dfa"])[:800], json.dumps(cm)[:800])
        # oracles
        rules_o = [o_of(r) for r in lx]
        memo = {}
        rules_w = memo_w = None
        pats = None
        if not special:
            pats = [pyre.compile(pat_of(r)) for r in lx]
        for ti, t in enumerate(texts):
            mscan, mref = mres[pos], mres[pos + 1]
            pos += 2
            got = ent["toks"][ti]
            inp = {"lexicon": lx, "show": name, "text": t}
            ntok = len(t) + 3
            stratum = "%s/%s" % ("special" if special else "chars",
                                 "err" if "ERR" in got else ("eof" if "EOF" in got else "bounded"))
            ctx.case(stratum, inp, sig=(li, t))
            if got and got[0] in ("SLOW-STREAM-DIFFERS",) or any(isinstance(g, list) and g and g[0] == "TEXT-MISMATCH" for g in got):
                ctx.fail("scanner_buffer", inp, got, "same tokens from a slow stream / text == buffer slice")
                continue
            # 1. implementation vs extracted model (exact, including EOF vs error and the configuration)
            if ok:
                mt = parse_model_tokens(mscan)
                if mt != got:
                    ctx.corr_break("plex:scanner", inp, got, mt)
                # extracted derivative matcher (Coq reference) vs implementation: tokens until no-match
                rt = parse_model_tokens(mref)
                g2 = [x if isinstance(x, list) else "NOMATCH" for x in got]
                r2 = [x if isinstance(x, list) else "NOMATCH" for x in rt]
                if g2 != r2:
                    ctx.corr_break("plex:reference-matcher(Coq)", inp, got, rt)
            # 2. implementation vs event-level oracle
            exp = oracle_events(rules_o, t, ntok, memo)
            if not events_agree(got, exp):
                kl = classify(lx, t)
                if kl == "any_duplicate_chars" and not C2R_DEDUP:
                    # the known finding explains the difference only if the implementation equals the
                    # reference reading of the lexicon with the widened character classes
                    if rules_w is None:
                        rules_w, memo_w = [o_of(widen(r)) for r in lx], {}
                    if not events_agree(got, oracle_events(rules_w, t, ntok, memo_w)):
                        kl = "wrong_token"
                nfail[kl] = nfail.get(kl, 0) + 1
                if nfail[kl] <= 10 or kl == "any_duplicate_chars":
                    ctx.fail(kl, inp, got, [list(e) if isinstance(e, tuple) else e for e in exp],
                             note="event-level oracle")
            # 3. implementation vs Python re (character level)
            if pats is not None and not any(nocase_over_anybut(r) for r in lx):
                exp2 = oracle_re(pats, t, ntok)
                g3 = [tuple([g[0], g[1], g[4]]) if isinstance(g, list) else g for g in got]
                bad = len(exp2) != len(g3)
                if not bad:
                    for g, e in zip(g3, exp2):
                        if isinstance(e, tuple):
                            bad = bad or g != e
                        elif e == "ERR":
                            bad = bad or g != "ERR"
                        else:
                            bad = bad or g not in ("EOF", "ERR")
                if bad:
                    kl = classify(lx, t)
                    if kl == "any_duplicate_chars" and not C2R_DEDUP:
                        if rules_w is None:
                            rules_w, memo_w = [o_of(widen(r)) for r in lx], {}
                        if not events_agree(got, oracle_events(rules_w, t, ntok, memo_w)):
                            kl = "wrong_token"
                    nfail[kl] = nfail.get(kl, 0) + 1
                    if nfail[kl] <= 10 or kl == "any_duplicate_chars":
                        ctx.fail(kl, inp, got, [list(e) if isinstance(e, tuple) else e for e in exp2],
                                 note="Python re oracle (pattern %s)" % [p.pattern for p in pats])
    ctx.extra.setdefault("exhaustive_domains", []).append(
        "per lexicon: all %d strings of length <= %d over {a,b,c,\\n}" % (len(texts), max(map(len, texts))))


def replay(ctx, obj):
    inp = obj["input"]
    if "chars_to_ranges" in inp:
        check(ctx, [], [""], [], [inp["chars_to_ranges"]])
    elif "lexicon" in inp:
        check(ctx, [inp["lexicon"]], [inp.get("text", "")], [])
    elif "history" in inp:
        check(ctx, [], [""], [inp["history"]])
    else:
        check(ctx, [], [""], [inp])
    print("replayed:", json.dumps(inp)[:400])
