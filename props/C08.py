"""C08 — C complex arithmetic matches Python complex (DESIGN 7/C08)."""
import json, math, os, struct
import cybuild

TITLE = "C complex arithmetic matches Python complex"
EXTRACTS = ["Complex"]

# Which variant of the model corresponds to the tree under test.  After a proposed fix has been
# applied to /repo flip the matching flag to True (see proposed_fixes/C08-*.md):
#   quot       : struct __Pyx_c_quot follows _Py_c_quot statement by statement  (C08-struct_quot_reciprocal_rounding.diff)
#   from_parts : C99 from_parts assigns __real__/__imag__ instead of x + y*I     (C08-c99_from_parts_imag_times_I.diff)
#   abs        : struct __Pyx_c_abs calls hypot() with CPython >= 3.11 headers     (C08-struct_abs_naive_sqrt.diff)
#   powtype    : complex ** complex is typed double complex, not soft complex       (C08-pow_runtime_exponent_zero_imag_returns_float.diff)
FIX = {"quot": False, "from_parts": True, "abs": True, "powtype": True}
for _k in list(FIX):
    if os.environ.get("C08_FIX_" + _k.upper()):
        FIX[_k] = os.environ["C08_FIX_" + _k.upper()] == "1"

INF = float("inf")
NAN = float("nan")
SPECIALS = [0.0, -0.0, INF, -INF, NAN, 1.0, -2.5, 1e308, -5e-324]


# ----------------------------------------------------------------------------- doubles <-> tokens
def tok(x):
    if x != x:
        return "n"
    bits = struct.unpack("<Q", struct.pack("<d", x))[0]
    s, E, Fr = bits >> 63, (bits >> 52) & 0x7ff, bits & ((1 << 52) - 1)
    if E == 0x7ff:
        return "i%d" % s
    if E == 0 and Fr == 0:
        return "z%d" % s
    if E == 0:
        # canonical spec_float mantissa of a subnormal: as is, exponent -1074
        return "f%d:%d:%d" % (s, Fr, -1074)
    return "f%d:%d:%d" % (s, Fr | (1 << 52), E - 1075)


def untok(t):
    if t == "n":
        return "nan"
    if t[0] == "z":
        return (-0.0 if t[1] == "1" else 0.0).hex()
    if t[0] == "i":
        return (-INF if t[1] == "1" else INF).hex()
    if t[0] == "f":
        s, m, e = t[1:].split(":")
        v = math.ldexp(int(m), int(e))
        return (-v if s == "1" else v).hex()
    return t


def untokc(line):
    p = line.split()
    if len(p) == 2:
        return [untok(p[0]), untok(p[1])]
    return line


def fhex(x):
    return "nan" if x != x else x.hex()


def unhex(h):
    return NAN if h == "nan" else float.fromhex(h)


def chex(z):
    return [fhex(z.real), fhex(z.imag)]


# ----------------------------------------------------------------------------- module under test
BIN = [("add", "a + b"), ("sub", "a - b"), ("mul", "a * b"), ("div", "a / b"), ("pow", "a ** b")]
UN = [("neg", "-a"), ("conj", "a.conjugate()"), ("pos", "+a")]
POWK = [-5, -4, -3, -2, -1, 0, 1, 2, 3, 4, 5]


def kname(k):
    return ("m%d" % -k) if k < 0 else str(k)


def gen_source():
    L = ["# cython: language_level=3", "cimport cython", ""]
    hdr = ["    cdef double complex a, b, c", "    cdef Py_ssize_t i", "    out = []",
           "    for i in range(len(AR)):", "        a.real = AR[i]; a.imag = AI[i]"]
    hdr2 = hdr + ["        b.real = BR[i]; b.imag = BI[i]"]
    tail = ["        try:", "            c = %s", "            out.append((c.real, c.imag))",
            "        except Exception as e:", "            out.append(type(e).__name__)", "    return out", ""]
    for nm, ex in BIN:
        L += ["def bin_%s(list AR, list AI, list BR, list BI):" % nm] + hdr2 + [t % ex if "%s" in t else t for t in tail]
    L += ["@cython.cdivision(True)", "def bin_divcd(list AR, list AI, list BR, list BI):"] + hdr2 + \
         [t % "a / b" if "%s" in t else t for t in tail]
    for nm, ex in UN:
        L += ["def un_%s(list AR, list AI):" % nm] + hdr + [t % ex if "%s" in t else t for t in tail]
    for k in POWK:
        L += ["def un_pow%s(list AR, list AI):" % kname(k)] + hdr + [t % ("a ** %d" % k) if "%s" in t else t for t in tail]
    L += ["def bin_eq(list AR, list AI, list BR, list BI):"] + hdr2 + ["        out.append(a == b)", "    return out", ""]
    L += ["def bin_ne(list AR, list AI, list BR, list BI):"] + hdr2 + ["        out.append(a != b)", "    return out", ""]
    L += ["def un_abs(list AR, list AI):"] + hdr + ["        try:", "            out.append(abs(a))",
                                                    "        except Exception as e:", "            out.append(type(e).__name__)",
                                                    "    return out", ""]
    # conversions: Python object -> C (parts read back with .real/.imag), C -> Python object
    L += ["def conv_in(list Z):", "    cdef double complex a", "    out = []", "    for z in Z:",
          "        try:", "            a = z", "            out.append((a.real, a.imag))",
          "        except Exception as e:", "            out.append(type(e).__name__)", "    return out", ""]
    L += ["def conv_out(list AR, list AI):"] + hdr + ["        out.append(<object>a)", "    return out", ""]
    # whole-object operators (typed arguments converted by the argument parser, object result)
    L += ["def obj_pow(double complex a, double complex b):", "    return a ** b", "",
          "def obj_div(double complex a, double complex b):", "    return a / b", "",
          "def obj_mul(double complex a, double complex b):", "    return a * b", ""]
    return "\n".join(L)


WORKER = r'''
import sys, json
NAN = float("nan")
def unhex(h): return NAN if h == "nan" else float.fromhex(h)
def fhex(x): return "nan" if x != x else x.hex()
def enc(r):
    if isinstance(r, bool): return r
    if isinstance(r, float): return fhex(r)
    if isinstance(r, complex): return {"c": [fhex(r.real), fhex(r.imag)]}
    if isinstance(r, tuple): return [fhex(x) for x in r]
    return r
class CSub(complex): pass
class HasComplex:
    def __init__(self, z): self.z = z
    def __complex__(self): return self.z
class HasFloat:
    def __init__(self, x): self.x = x
    def __float__(self): return self.x
def mkobj(d):
    k = d[0]
    if k == "complex": return complex(unhex(d[1]), unhex(d[2]))
    if k == "csub": return CSub(unhex(d[1]), unhex(d[2]))
    if k == "hascomplex": return HasComplex(complex(unhex(d[1]), unhex(d[2])))
    if k == "float": return unhex(d[1])
    if k == "hasfloat": return HasFloat(unhex(d[1]))
    if k == "int": return int(d[1])
    if k == "str": return d[1]
    if k == "none": return None
spec = json.load(sys.stdin)
mods = {}
out = []
for job in spec["jobs"]:
    mn, fn, kind, args = job
    if mn not in mods:
        mods[mn] = __import__(mn)
    f = getattr(mods[mn], fn)
    try:
        if kind == "lists":
            r = f(*[[unhex(h) for h in col] for col in args])
            out.append([enc(x) for x in r])
        elif kind == "objs":
            r = f([mkobj(d) for d in args])
            out.append([enc(x) for x in r])
        else:   # "each": one call per argument tuple (complex arguments)
            rs = []
            for t in args:
                try:
                    rs.append(enc(f(*[complex(unhex(p[0]), unhex(p[1])) for p in t])))
                except Exception as e:
                    rs.append(type(e).__name__)
            out.append(rs)
    except BaseException as e:
        out.append({"error": type(e).__name__ + ": " + str(e)[:300]})
print(json.dumps(out))
'''


# ----------------------------------------------------------------------------- metadata
RULE = ("operand pairs: all 9^4 component combinations of the special values (0, -0.0, inf, -inf, nan, 1, -2.5, 1e308, "
        "-5e-324) for each binary operator, all 81 values for the unary ones and for ** with the constant exponents "
        "-5..5, plus PRNG operands (random bit patterns, small rationals, moderate magnitudes, subnormal/huge "
        "divisors, integral and non-integral runtime exponents); each case on two builds of the same module "
        "(C99 _Complex and -DCYTHON_CCOMPLEX=0); conversions from complex/complex subclass/__complex__/float/int "
        "objects and back; distinct by (build, function, operands)")
EXPLANATION = ("theorems: the struct helpers sum/diff/prod/neg/conj/eq are the same operation tree as CPython's "
               "_Py_c_sum/_Py_c_diff/_Py_c_prod/_Py_c_neg/conjugate/== for every pair of doubles; the DivNode zero test "
               "raises exactly when CPython's complex_div raises; the repaired __Pyx_c_quot equals _Py_c_quot for every "
               "operand, the current one is refuted (1/denom rounding, reciprocal overflow, b.imag==0 shortcut) and "
               "proved equal on the real-divisor class with finite non-zero components; ** with exponents 0..4: "
               "CPython's c_powi is c_1 * (Cython's product chain) (exact statement per exponent), equal for "
               "finite non-zero components, refuted otherwise ((-0.0-1j)**1); C99 from_parts (x + y*I) refuted and "
               "proved exact on its complement class, repaired from_parts and both conversions are identities. "
               "partial: the C99 build's * / ** abs (compiler/libgcc/libm: Annex G) are only compared; hypot, the "
               "general branch of pow and negative exponents are compared, not proved; naive abs is modelled with "
               "SpecFloat sqrt and compared bit for bit.")
LEVEL_TEXT = ("partial: machine-checked equalities for + - * unary - conjugate == and the zero-division decision over all "
              "doubles, for the repaired quotient, and the exact relation between c_pow's fast path and c_powi for "
              "exponents 0..4; the current quotient, from_parts (C99), abs (no HAVE_HYPOT) and ** are refuted with "
              "witnesses replayed on the compiled code; the native C99 operators and libm are outside the model "
              "and only compared with CPython, every difference falling into a registered class.")
TRUSTED = ["Coq.Floats.SpecFloat operations (prec 53, emax 1024; SFsqrt for the naive abs) as the meaning of C double "
           "+ - * / sqrt and comparisons",
           "the transcription of CPython 3.12 complexobject.c (_Py_c_quot, c_powu/c_powi, complex_pow dispatch, "
           "_Py_ADJUST_ERANGE2) in M_Complex.v; it is run against the interpreter on every case",
           "oracle: CPython 3.12 complex arithmetic in the check process",
           "gcc/libgcc (__muldc3, __divdc3) and glibc (cpow, cabs, hypot, exp, log, sin, cos, atan2, pow) are not modelled",
           "Lib/FloatMulOne.v: 1.0 * x = x from Flocq (uses the standard real-number axioms of Coq)"]
ASSUMPTIONS = ["IEEE-754 binary64 doubles, SSE2 arithmetic, no FMA contraction (x86-64 baseline), gcc without -ffast-math",
               "(int)x of an out-of-range double gives INT_MIN (x86-64 cvttsd2si; undefined in ISO C)",
               "sign and payload of a NaN are not compared (NaN-ness is)"]

BUILDS = [("c08n", True, None), ("c08s", False, ["CYTHON_CCOMPLEX=0"])]
DBL_MIN = 2.2250738585072014e-308


def is_fin(x):
    return x == x and abs(x) != INF


def is_fnz(x):
    return is_fin(x) and x != 0


def all_fin(*zs):
    return all(is_fin(z.real) and is_fin(z.imag) for z in zs)


def integral_exp(b):
    return b.imag == 0 and is_fin(b.real) and b.real == math.floor(b.real) and abs(b.real) <= 100.0


def py_eval(nm, a, b=None):
    """property oracle: CPython's own complex arithmetic"""
    try:
        if nm == "add": v = a + b
        elif nm == "sub": v = a - b
        elif nm == "mul": v = a * b
        elif nm in ("div", "divcd"): v = a / b
        elif nm == "pow": v = a ** b
        elif nm == "eq": v = (a == b)
        elif nm == "ne": v = (a != b)
        elif nm == "neg": v = -a
        elif nm == "pos": v = +a
        elif nm == "conj": v = a.conjugate()
        elif nm == "abs": v = abs(a)
        else: raise KeyError(nm)
    except (ZeroDivisionError, OverflowError) as e:
        return type(e).__name__
    if isinstance(v, bool):
        return v
    if isinstance(v, complex):
        return chex(v)
    return fhex(v)


def close(g, e, rel=1e-9):
    """both are [hex, hex] with finite parts and |g - e| <= rel * |e|"""
    if not (isinstance(g, list) and isinstance(e, list)):
        return False
    gz = complex(unhex(g[0]), unhex(g[1])); ez = complex(unhex(e[0]), unhex(e[1]))
    if not all_fin(gz, ez):
        return False
    try:
        return abs(gz - ez) <= rel * abs(ez) + 5e-324
    except OverflowError:
        return abs(gz / 4 - ez / 4) <= rel * abs(ez / 4)


def smith_extreme(a, b):
    """some operand component or intermediate of Smith's method (CPython's order of operations) is outside
    [2^-969, 2^969] or a product of non-zero factors underflows to zero: the range in which libgcc's __divdc3
    rescales the operands or reorders the computation"""
    vals = [a.real, a.imag, b.real, b.imag]
    bad = [False]

    def mul(x, y):
        r = x * y
        if r == 0 and x != 0 and y != 0:
            bad[0] = True
        vals.append(r)
        return r

    def div(x, y):
        r = x / y if y != 0 else INF
        if r == 0 and x != 0:
            bad[0] = True
        vals.append(r)
        return r
    if abs(b.real) >= abs(b.imag):
        big, small, n1, n2 = b.real, b.imag, (a.real, a.imag), (a.imag, a.real)
    else:
        big, small, n1, n2 = b.imag, b.real, (a.imag, a.real), (a.real, a.imag)
    if big == 0:
        return False
    ratio = div(small, big)
    denom = big + mul(small, ratio)
    vals.append(denom)
    for x, y in ((a.real, a.imag), (a.imag, a.real)):
        t = mul(y, ratio)
        for n in (x + t, x - t, t - x):
            vals.append(n)
            div(n, denom)
    return bad[0] or any(v != 0 and (abs(v) < 2.0 ** -969 or abs(v) > 2.0 ** 969) for v in vals if v == v)


def classify(native, nm, a, b, exp, got):
    """finding class of a case where the compiled code differs from CPython; from the build, the operator and
    the operands (and CPython's outcome, a function of the operands); `got` is used only as a tolerance guard
    for the libm classes"""
    if nm in ("mul", "div", "divcd"):
        nonfin = not all_fin(a, b)
        if native:
            if nonfin or (isinstance(exp, list) and ("nan" in exp or "inf" in exp or "-inf" in exp)):
                return "c99_native_mul_div_special_values"
            if nm != "mul" and smith_extreme(a, b):
                return "c99_native_div_extreme_range_scaling"
        elif nm != "mul" and not FIX["quot"]:
            if b.imag == 0:
                if not (is_fnz(a.real) and is_fnz(a.imag) and is_fnz(b.real)):
                    return "struct_quot_real_divisor_shortcut"
            else:
                if abs(b.real) >= abs(b.imag):
                    denom = b.real + b.imag * (b.imag / b.real)
                elif abs(b.imag) > abs(b.real):
                    denom = b.imag + b.real * (b.real / b.imag)
                else:
                    denom = NAN
                if denom == denom and denom != 0 and abs(denom) < 2.0 ** -1024:
                    return "struct_quot_reciprocal_overflow"
                return "struct_quot_reciprocal_rounding"
    if nm == "abs":
        if exp == "OverflowError":
            return "abs_overflow_returns_inf"
        if not native and not FIX["abs"]:
            return "struct_abs_naive_sqrt"
    if nm == "pow":
        if exp in ("ZeroDivisionError", "OverflowError"):
            return "pow_python_raises_c_returns_value"
        if not all_fin(a, b):
            return "pow_nonfinite_operand"
        if a == 0:
            return "pow_zero_base"
        ez = complex(unhex(exp[0]), unhex(exp[1]))
        if not all_fin(ez):
            return "pow_cpython_result_not_finite"
        comps = [abs(x) for z in (a, b, ez) for x in (z.real, z.imag) if x != 0]
        if isinstance(got, list):
            comps += [abs(unhex(h)) for h in got if h != "nan" and unhex(h) != 0]
        # tolerance guard for the libm classes: waived for extreme magnitudes and for exponents beyond 64
        # (phase reduction of huge arguments, overflow of CPython's intermediate pow()/exp())
        ok = close(got, exp, 1e-9) or any(x < 1e-290 or x > 1e290 for x in comps) or abs(b.real) > 64 or abs(b.imag) > 64
        if integral_exp(b):
            n = int(b.real)
            if native:
                return "native_cpow_integral_exponent" if ok else "pow_wrong_result"
            if 1 <= n <= 4:
                return "struct_pow_small_int_unit_factor_and_order"
            if -4 <= n <= -1:
                return "struct_pow_negative_int_naive_reciprocal"
            if n == 0:
                return "pow_wrong_result"
        amax = max(abs(a.real), abs(a.imag))
        if not native and (amax >= 2.0 ** 511 or amax <= 2.0 ** -511):
            return "struct_pow_naive_abs_overflow"          # r = sqrt(x*x + y*y) overflows / underflows
        if not native and a.imag == 0 and math.copysign(1, a.imag) < 0 and a.real < 0:
            return "struct_pow_negative_real_base_ignores_sign_of_imag_zero"
        if ok:
            return "pow_libm_formula"
    if nm == "conv_in" and native and not FIX["from_parts"]:
        if not is_fin(a.imag) or (a.real == 0 and math.copysign(1, a.real) < 0):
            return "c99_from_parts_imag_times_I"
    return nm + "_wrong_result"


def rand_double(rng):
    k = rng.random()
    if k < 0.25:
        return struct.unpack("<d", struct.pack("<Q", rng.getrandbits(64)))[0]
    if k < 0.5:
        return rng.choice([-1, 1]) * rng.randrange(0, 1000) / rng.choice([1, 2, 4, 3, 10])
    if k < 0.8:
        return rng.choice([-1, 1]) * math.ldexp(rng.random(), rng.randrange(-30, 30))
    if k < 0.9:
        return rng.choice([-1, 1]) * math.ldexp(rng.randrange(1, 1 << 53), rng.randrange(-1126, 971))
    return rng.choice(SPECIALS)


def rand_complex(rng):
    k = rng.random()
    if k < 0.1:
        return complex(rand_double(rng), rng.choice([0.0, -0.0]))
    if k < 0.15:
        return complex(rng.choice([0.0, -0.0]), rand_double(rng))
    if k < 0.25:
        return complex(float(rng.randrange(-9, 10)), float(rng.randrange(-9, 10)))
    return complex(rand_double(rng), rand_double(rng))


def rand_exponent(rng):
    k = rng.random()
    if k < 0.5:
        return complex(float(rng.choice([-5, -4, -3, -2, -1, 0, 1, 2, 3, 4, 5, 7, 10, 100, 101, -100, -7])), rng.choice([0.0, -0.0]))
    if k < 0.7:
        return complex(rng.choice([0.5, -0.5, 1.5, 2.5, 0.1, -3.25, 1e-3]), 0.0)
    if k < 0.85:
        return complex(rng.randrange(-12, 13) / 4.0, rng.randrange(-12, 13) / 4.0)
    return rand_complex(rng)


def cols_of(zs):
    return [[fhex(z.real) for z in zs], [fhex(z.imag) for z in zs]]


def ctok(z):
    return tok(z.real) + " " + tok(z.imag)


def run(ctx):
    quick = ctx.tier == "quick"
    rng = ctx.rng
    src = gen_source()
    specs = [dict(name=nm, source=src, workdir=ctx.workdir, macros=mac) for nm, _, mac in BUILDS]
    built = cybuild.build_many(specs, jobs=2)
    for (so, err), sp in zip(built, specs):
        if err is not None:
            ctx.corr_break("build " + sp["name"], sp["name"], str(err)[:1500], "module builds")
            return
    model = ctx.model("complex")

    cs = [complex(r, i) for r in SPECIALS for i in SPECIALS]
    nsp2 = len(cs) ** 2
    bpairs = [(a, b) for a in cs for b in cs]
    nr = 900 if quick else 40000
    for _ in range(nr):
        a = rand_complex(rng)
        k = rng.random()
        if k < 0.1:
            b = complex(math.ldexp(rng.random(), -1074 + rng.randrange(0, 60)) * rng.choice([-1, 1]), rand_double(rng) * 0 + rng.choice([0.0, 5e-324, -1e-310, 1e-320]))
        elif k < 0.15:
            b = a
        elif k < 0.2:
            b = complex(rng.choice([-1, 1]) * math.ldexp(rng.random(), rng.randrange(960, 1024)), rng.choice([-1, 1]) * math.ldexp(rng.random(), rng.randrange(960, 1024)))
        else:
            b = rand_complex(rng)
        bpairs.append((a, b))
    # ** : special bases x (integral and special exponents), then PRNG
    pexps = [complex(float(k), z) for k in range(-6, 7) for z in (0.0, -0.0)] + \
            [complex(x, 0.0) for x in (100.0, -100.0, 101.0, 0.5, -0.5, 2.5, INF, -INF, NAN, 2147483648.0, -2147483648.0, 1e308, 4294967298.0)] + \
            [complex(0.0, 1.0), complex(2.0, 1.0), complex(-1.0, -0.5), complex(2.0, NAN), complex(0.0, INF), complex(1.0, 5e-324)]
    ppairs = [(a, b) for a in cs for b in pexps]
    nspp = len(ppairs)
    for _ in range(nr // 2):
        a = rand_complex(rng)
        if rng.random() < 0.6:
            a = complex(rng.choice([-1, 1]) * math.ldexp(rng.random() + 0.5, rng.randrange(-8, 8)), rng.choice([-1, 1, 0]) * math.ldexp(rng.random() + 0.5, rng.randrange(-8, 8)))
        ppairs.append((a, rand_exponent(rng)))
    uvals = list(cs) + [complex(1.5e308, 1.5e308), complex(-1.7e308, 1e308), complex(3.0, 4.0), complex(1e-320, 1e-322)]
    uvals += [rand_complex(rng) for _ in range(nr // 3)]
    nspu = len(cs)
    objs = [["complex", fhex(z.real), fhex(z.imag)] for z in cs]
    objs += [[k, fhex(z.real), fhex(z.imag)] for k in ("csub", "hascomplex") for z in (complex(1.5, -0.0), complex(-0.0, 2.0), complex(INF, NAN))]
    objs += [["float", fhex(x)] for x in (1.5, -0.0, INF, NAN)] + [["hasfloat", fhex(2.5)], ["int", "7"], ["int", "-3"],
            ["int", str(10 ** 400)], ["str", "1+2j"], ["none"]]
    for _ in range(nr // 10):
        z = rand_complex(rng)
        objs.append(["complex", fhex(z.real), fhex(z.imag)])

    def four(ps):
        return cols_of([p[0] for p in ps]) + cols_of([p[1] for p in ps])

    jobs = []
    for mn, native, _ in BUILDS:
        for nm in ("add", "sub", "mul", "div", "divcd", "eq", "ne"):
            jobs.append((mn, native, "bin", nm, [mn, "bin_" + nm, "lists", four(bpairs)]))
        jobs.append((mn, native, "bin", "pow", [mn, "bin_pow", "lists", four(ppairs)]))
        for nm in ("neg", "conj", "pos", "abs"):
            jobs.append((mn, native, "un", nm, [mn, "un_" + nm, "lists", cols_of(uvals)]))
        for k in POWK:
            jobs.append((mn, native, "powk", k, [mn, "un_pow" + kname(k), "lists", cols_of(uvals)]))
        jobs.append((mn, native, "conv_in", None, [mn, "conv_in", "objs", objs]))
        jobs.append((mn, native, "conv_out", None, [mn, "conv_out", "lists", cols_of(uvals)]))
        opairs = [[chex(a), chex(b)] for a, b in (ppairs[:nspp:7] + ppairs[nspp:nspp + 200])]
        jobs.append((mn, native, "obj", "pow", [mn, "obj_pow", "each", opairs]))
    res = cybuild.run_script(WORKER, ctx.workdir, {"jobs": [j[4] for j in jobs]}, timeout=1500)
    if res["json"] is None or len(res["json"]) != len(jobs):
        ctx.corr_break("worker", "jobs", (res["rc"], res["err"][-1500:]), "one result list per job")
        return

    nbreak = {}

    def tie(name, inp, impl, mod):
        if impl != mod:
            nbreak[name] = nbreak.get(name, 0) + 1
            if nbreak[name] <= 5:
                ctx.corr_break(name, inp, impl, mod)

    pycache = {}

    def pymodel(cmd, ps):
        """model of CPython's algorithm against the interpreter (validates the specification side)"""
        if cmd in pycache:
            return
        pycache[cmd] = 1
        out = model.batch(["%s %s" % (cmd, " ".join(ctok(z) for z in p)) for p in ps])
        nm = {"pysum": "add", "pydiff": "sub", "pyprod": "mul", "pydiv": "div", "pypow": "pow", "pyeq": "eq",
              "pyneg": "neg", "pyconj": "conj"}[cmd]
        for p, o in zip(ps, out):
            if o == "LIBM":
                continue
            o = (o == "1") if cmd == "pyeq" else untokc(o)
            tie("model of CPython %s vs CPython" % cmd, {"op": nm, "args": [chex(z) for z in p]}, py_eval(nm, *p), o)

    for (mn, native, kind, nm, job), r in zip(jobs, res["json"]):
        if isinstance(r, dict):
            ctx.corr_break("worker:%s.%s" % (mn, job[1]), job[1], r, "list of results")
            continue
        bld = "c99" if native else "struct"
        if kind == "bin":
            ps = ppairs if nm == "pow" else bpairs
            nspec = nspp if nm == "pow" else nsp2
            mres = None
            if not native:
                cmd = {"add": "sum", "sub": "diff", "mul": "prod", "div": "div %d 0" % FIX["quot"],
                       "divcd": "div %d 1" % FIX["quot"], "eq": "eq", "ne": "eq", "pow": "pow"}[nm]
                mres = model.batch(["%s %s %s" % (cmd, ctok(a), ctok(b)) for a, b in ps])
                pc = {"add": "pysum", "sub": "pydiff", "mul": "pyprod", "div": "pydiv", "eq": "pyeq", "pow": "pypow"}.get(nm)
                if pc:
                    pymodel(pc, ps)
            for i, ((a, b), g) in enumerate(zip(ps, r)):
                inp = {"build": bld, "op": nm, "a": chex(a), "b": chex(b)}
                ctx.case("%s/%s/%s" % (bld, nm, "special" if i < nspec else "prng"), inp,
                         sig=(bld, nm, fhex(a.real), fhex(a.imag), fhex(b.real), fhex(b.imag)))
                if mres is not None and mres[i] != "LIBM":
                    m = mres[i]
                    m = ((m == "1") != (nm == "ne")) if nm in ("eq", "ne") else untokc(m)
                    tie("struct build vs model: " + nm, inp, g, m)
                if nm == "divcd" and b == 0:
                    continue          # cdivision=True and a zero divisor: outside the property
                exp = py_eval(nm, a, b)
                if g != exp:
                    ctx.fail(classify(native, nm, a, b, exp, g), inp, g, exp)
        elif kind == "un":
            mres = None
            if not native:
                cmd = {"neg": "neg", "conj": "conj", "pos": "topy", "abs": "absn"}[nm]
                mres = model.batch(["%s %s" % (cmd, ctok(a)) for a in uvals])
                if nm in ("neg", "conj"):
                    pymodel("py" + nm, [(a,) for a in uvals])
            for i, (a, g) in enumerate(zip(uvals, r)):
                inp = {"build": bld, "op": nm, "a": chex(a)}
                ctx.case("%s/%s/%s" % (bld, nm, "special" if i < nspu else "prng"), inp, sig=(bld, nm, fhex(a.real), fhex(a.imag)))
                if mres is not None and not (nm == "abs" and FIX["abs"]):     # hypot itself is libm (not modelled)
                    tie("struct build vs model: " + nm, inp, g, untok(mres[i]) if nm == "abs" else untokc(mres[i]))
                exp = py_eval(nm, a)
                if g != exp:
                    ctx.fail(classify(native, nm, a, None, exp, g), inp, g, exp)
        elif kind == "powk":
            b = complex(float(nm), 0.0)
            mres = None
            if not native:
                mres = model.batch(["pow %s %s" % (ctok(a), ctok(b)) for a in uvals])
                pymodel("pypow", [(a, complex(float(k), 0.0)) for a in uvals for k in POWK])
            for i, (a, g) in enumerate(zip(uvals, r)):
                inp = {"build": bld, "op": "pow", "const_exponent": nm, "a": chex(a), "b": chex(b)}
                ctx.case("%s/pow_const/%s" % (bld, "special" if i < nspu else "prng"), inp, sig=(bld, "powk", nm, fhex(a.real), fhex(a.imag)))
                if mres is not None and mres[i] != "LIBM":
                    tie("struct build vs model: pow const", inp, g, untokc(mres[i]))
                exp = py_eval("pow", a, b)
                if g != exp:
                    ctx.fail(classify(native, "pow", a, b, exp, g), inp, g, exp)
        elif kind == "conv_in":
            zs = []
            for d in objs:
                try:
                    if d[0] in ("complex", "csub", "hascomplex"):
                        z = complex(unhex(d[1]), unhex(d[2]))
                    elif d[0] in ("float", "hasfloat"):
                        z = complex(unhex(d[1]))
                    elif d[0] == "int":
                        z = complex(int(d[1]))
                    else:
                        z = "TypeError"
                except OverflowError:
                    z = "OverflowError"
                zs.append(z)
            mres = iter(model.batch(["frompy %d %d %s" % (native, FIX["from_parts"], ctok(z)) for z in zs if isinstance(z, complex)]))
            for d, z, g in zip(objs, zs, r):
                inp = {"build": bld, "op": "conv_in", "obj": d}
                ctx.case("%s/from_python/%s" % (bld, d[0]), inp, sig=(bld, "conv_in") + tuple(d))
                exp = z
                if isinstance(z, complex):
                    exp = chex(z)
                    tie("%s build vs model: from_py" % bld, inp, g, untokc(next(mres)))
                if g != exp:
                    ctx.fail(classify(native, "conv_in", z, None, exp, g) if isinstance(z, complex) else "conv_in_wrong_result", inp, g, exp)
        elif kind == "conv_out":
            mres = model.batch(["topy %s" % ctok(a) for a in uvals])
            for a, g, m in zip(uvals, r, mres):
                inp = {"build": bld, "op": "conv_out", "a": chex(a)}
                ctx.case("%s/to_python" % bld, inp, sig=(bld, "conv_out", fhex(a.real), fhex(a.imag)))
                tie("%s build vs model: to_py" % bld, inp, g, {"c": untokc(m)})
                if g != {"c": chex(a)}:
                    ctx.fail("conv_out_wrong_result", inp, g, {"c": chex(a)})
        elif kind == "obj":
            for (pa, pb), g in zip(job[3], r):
                a = complex(unhex(pa[0]), unhex(pa[1])); b = complex(unhex(pb[0]), unhex(pb[1]))
                inp = {"build": bld, "op": "obj_pow", "a": pa, "b": pb}
                ctx.case("%s/object_pow_result_type" % bld, inp, sig=(bld, "obj_pow", tuple(pa), tuple(pb)))
                # the value is covered by the strata above; here: the result must be a complex object
                if not isinstance(g, dict) and not (isinstance(g, str) and g.endswith("Error")):
                    ctx.fail("pow_result_not_complex_object" if FIX["powtype"] else "pow_runtime_exponent_zero_imag_returns_float",
                             inp, g, "a complex object")
    ctx.extra.setdefault("exhaustive_domains", []).append(
        "9^4 special component combinations for + - * / == != (both builds); 81 special values for unary -, "
        "conjugate, abs, conversions and ** with constant exponents -5..5")
    for k, v in sorted(nbreak.items()):
        if v > 5:
            ctx.note("%s: %d mismatches in total" % (k, v))


def replay(ctx, obj):
    """re-run the single failing input of a replay file on freshly built modules"""
    inp = obj.get("input") or {}
    if not isinstance(inp, dict) or "op" not in inp or "a" not in inp:
        print("replay: no single operand pair recorded; run ./check C08")
        return
    src = gen_source()
    specs = [dict(name=nm, source=src, workdir=ctx.workdir, macros=mac) for nm, _, mac in BUILDS]
    cybuild.build_many(specs, jobs=2)
    native = inp.get("build") == "c99"
    mn = "c08n" if native else "c08s"
    nm = inp["op"]
    a = complex(unhex(inp["a"][0]), unhex(inp["a"][1]))
    b = complex(unhex(inp["b"][0]), unhex(inp["b"][1])) if "b" in inp else None
    if "const_exponent" in inp:
        fn, cols = "un_pow" + kname(inp["const_exponent"]), cols_of([a])
    elif b is not None:
        fn, cols = "bin_" + nm, cols_of([a]) + cols_of([b])
    else:
        fn, cols = "un_" + nm, cols_of([a])
    res = cybuild.run_script(WORKER, ctx.workdir, {"jobs": [[mn, fn, "lists", cols]]})
    g = res["json"][0][0] if res["json"] else res["err"][-500:]
    exp = py_eval(nm, a, b) if b is not None else py_eval(nm, a)
    print("replay: %s.%s a=%r b=%r -> %r ; CPython: %r" % (mn, fn, a, b, g, exp))
    ctx.case("replay", inp)
    if g != exp:
        ctx.fail(classify(native, nm, a, b, exp, g), inp, g, exp)
