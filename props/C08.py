"""C08 — C complex arithmetic matches Python complex (DESIGN 7/C08)."""
import json, math, os, struct
import cybuild

TITLE = "C complex arithmetic matches Python complex"
EXTRACTS = ["Complex"]

# Which variant of the model corresponds to the tree under test.  After a proposed fix has been
# applied to /repo flip the matching flag to True (see proposed_fixes/C08-*.md):
#   quot       : struct __Pyx_c_quot follows _Py_c_quot statement by statement  (C08-struct_quot.diff)
#   from_parts : C99 from_parts assigns __real__/__imag__ instead of x + y*I     (C08-native_from_parts.diff)
FIX = {"quot": False, "from_parts": False}
for _k in list(FIX):
    if os.environ.get("C08_FIX_" + _k.upper()):
        FIX[_k] = os.environ["C08_FIX_" + _k.upper()] == "1"

INF = float("inf")
NAN = float("nan")
SPECIALS = [0.0, -0.0, INF, -INF, NAN, 1.0, -2.5, 1e308, -5e-324]


# ----------------------------------------------------------------------------- doubles <-> tokens
def tok(x):
    if x != x:
        return "n"
    bits = struct.unpack("<Q", struct.pack("<d", x))[0]
    s, E, Fr = bits >> 63, (bits >> 52) & 0x7ff, bits & ((1 << 52) - 1)
    if E == 0x7ff:
        return "i%d" % s
    if E == 0 and Fr == 0:
        return "z%d" % s
    if E == 0:
        # canonical spec_float mantissa of a subnormal: as is, exponent -1074
        return "f%d:%d:%d" % (s, Fr, -1074)
    return "f%d:%d:%d" % (s, Fr | (1 << 52), E - 1075)


def untok(t):
    if t == "n":
        return "nan"
    if t[0] == "z":
        return (-0.0 if t[1] == "1" else 0.0).hex()
    if t[0] == "i":
        return (-INF if t[1] == "1" else INF).hex()
    if t[0] == "f":
        s, m, e = t[1:].split(":")
        v = math.ldexp(int(m), int(e))
        return (-v if s == "1" else v).hex()
    return t


def untokc(line):
    p = line.split()
    if len(p) == 2:
        return [untok(p[0]), untok(p[1])]
    return line


def fhex(x):
    return "nan" if x != x else x.hex()


def unhex(h):
    return NAN if h == "nan" else float.fromhex(h)


def chex(z):
    return [fhex(z.real), fhex(z.imag)]


# ----------------------------------------------------------------------------- module under test
BIN = [("add", "a + b"), ("sub", "a - b"), ("mul", "a * b"), ("div", "a / b"), ("pow", "a ** b")]
UN = [("neg", "-a"), ("conj", "a.conjugate()"), ("pos", "+a")]
POWK = [-5, -4, -3, -2, -1, 0, 1, 2, 3, 4, 5]


def kname(k):
    return ("m%d" % -k) if k < 0 else str(k)


def gen_source():
    L = ["# cython: language_level=3", "cimport cython", ""]
    hdr = ["    cdef double complex a, b, c", "    cdef Py_ssize_t i", "    out = []",
           "    for i in range(len(AR)):", "        a.real = AR[i]; a.imag = AI[i]"]
    hdr2 = hdr + ["        b.real = BR[i]; b.imag = BI[i]"]
    tail = ["        try:", "            c = %s", "            out.append((c.real, c.imag))",
            "        except Exception as e:", "            out.append(type(e).__name__)", "    return out", ""]
    for nm, ex in BIN:
        L += ["def bin_%s(list AR, list AI, list BR, list BI):" % nm] + hdr2 + [t % ex if "%s" in t else t for t in tail]
    L += ["@cython.cdivision(True)", "def bin_divcd(list AR, list AI, list BR, list BI):"] + hdr2 + \
         [t % "a / b" if "%s" in t else t for t in tail]
    for nm, ex in UN:
        L += ["def un_%s(list AR, list AI):" % nm] + hdr + [t % ex if "%s" in t else t for t in tail]
    for k in POWK:
        L += ["def un_pow%s(list AR, list AI):" % kname(k)] + hdr + [t % ("a ** %d" % k) if "%s" in t else t for t in tail]
    L += ["def bin_eq(list AR, list AI, list BR, list BI):"] + hdr2 + ["        out.append(a == b)", "    return out", ""]
    L += ["def bin_ne(list AR, list AI, list BR, list BI):"] + hdr2 + ["        out.append(a != b)", "    return out", ""]
    L += ["def un_abs(list AR, list AI):"] + hdr + ["        try:", "            out.append(abs(a))",
                                                    "        except Exception as e:", "            out.append(type(e).__name__)",
                                                    "    return out", ""]
    # conversions: Python object -> C (parts read back with .real/.imag), C -> Python object
    L += ["def conv_in(list Z):", "    cdef double complex a", "    out = []", "    for z in Z:",
          "        try:", "            a = z", "            out.append((a.real, a.imag))",
          "        except Exception as e:", "            out.append(type(e).__name__)", "    return out", ""]
    L += ["def conv_out(list AR, list AI):"] + hdr + ["        out.append(<object>a)", "    return out", ""]
    # whole-object operators (typed arguments converted by the argument parser, object result)
    L += ["def obj_pow(double complex a, double complex b):", "    return a ** b", "",
          "def obj_div(double complex a, double complex b):", "    return a / b", "",
          "def obj_mul(double complex a, double complex b):", "    return a * b", ""]
    return "\n".join(L)


WORKER = r'''
import sys, json
NAN = float("nan")
def unhex(h): return NAN if h == "nan" else float.fromhex(h)
def fhex(x): return "nan" if x != x else x.hex()
def enc(r):
    if isinstance(r, bool): return r
    if isinstance(r, float): return fhex(r)
    if isinstance(r, complex): return {"c": [fhex(r.real), fhex(r.imag)]}
    if isinstance(r, tuple): return [fhex(x) for x in r]
    return r
class CSub(complex): pass
class HasComplex:
    def __init__(self, z): self.z = z
    def __complex__(self): return self.z
class HasFloat:
    def __init__(self, x): self.x = x
    def __float__(self): return self.x
def mkobj(d):
    k = d[0]
    if k == "complex": return complex(unhex(d[1]), unhex(d[2]))
    if k == "csub": return CSub(unhex(d[1]), unhex(d[2]))
    if k == "hascomplex": return HasComplex(complex(unhex(d[1]), unhex(d[2])))
    if k == "float": return unhex(d[1])
    if k == "hasfloat": return HasFloat(unhex(d[1]))
    if k == "int": return int(d[1])
    if k == "str": return d[1]
    if k == "none": return None
spec = json.load(sys.stdin)
mods = {}
out = []
for job in spec["jobs"]:
    mn, fn, kind, args = job
    if mn not in mods:
        mods[mn] = __import__(mn)
    f = getattr(mods[mn], fn)
    try:
        if kind == "lists":
            r = f(*[[unhex(h) for h in col] for col in args])
            out.append([enc(x) for x in r])
        elif kind == "objs":
            r = f([mkobj(d) for d in args])
            out.append([enc(x) for x in r])
        else:   # "each": one call per argument tuple (complex arguments)
            rs = []
            for t in args:
                try:
                    rs.append(enc(f(*[complex(unhex(p[0]), unhex(p[1])) for p in t])))
                except Exception as e:
                    rs.append(type(e).__name__)
            out.append(rs)
    except BaseException as e:
        out.append({"error": type(e).__name__ + ": " + str(e)[:300]})
print(json.dumps(out))
'''
