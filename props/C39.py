"""C39 — behaviour is identical across build configurations (DESIGN 7/C39)."""
import os, json, itertools, time, hashlib
import concurrent.futures as cf
import cybuild
from . import C39_corpus as K
from . import C39_ext as E

TITLE = "Behaviour is identical across build configurations"
EXTRACTS = ["CmpFloat", "Freelist"]
RULE = ("seven modules compiled in every cell of a configuration matrix: {C, C++} x {-O0, -O1, -O2, -O3} x feature macros "
        "(PYLONG/UNICODE/PYLIST internals, vectorcall/fastcall, borrowed refs, safe macros/size, type slots/specs, thread "
        "state, Limited API) x string compression x semantics-neutral directives.  c39m: one differential program (closures, "
        "generators, classes, exceptions, literals beyond the string-split limit).  c39cv, c39cmp, c39ar: the sources AND operand pools of "
        "the properties that own the macro-selected helpers - C19 PyObjectCompare (int-int by sign x digit count x differing "
        "digit position; float-int / int-float by float sign x magnitude class (below 2^30, 2^53, 2^63, beyond, inf, nan) x "
        "int sign x digit count 0,1,2,3,4+, equal and adjacent values), C02 constant binops/compares over ints of every "
        "digit class and floats, C05 conversions to every C integer type around every type bound.  c39x, c39y: table-driven "
        "functions for unicode kinds 1/2/4, bytes/bytearray, list/tuple/dict/set, calls, type slots, exceptions, generators/"
        "coroutines/async generators, pattern matching, argument binding, formatting.  Every cell runs the same tables on "
        "fresh operands; a case is one (cell, function, operand row) compared with the baseline cell; the comparison "
        "helpers are also compared with the extracted model of the cell's variant (internals on / off).  c39z: the extension-"
        "type life cycle - cdef classes with C attributes of every kind (all integer widths, bint, Py_UCS4, float, double, "
        "complex, pointers, function pointer, struct, union, array, enum, object / list / dict / str / tuple / extension-typed), "
        "with and without __cinit__ / __init__ / __dealloc__ / __del__, @freelist(1..8), @final, no_gc, no_gc_clear, vtable, "
        "__weakref__ / __dict__, cdef subclasses (same size, bigger, with the directive) and Python subclasses (plain, "
        "__slots__, abstract); programs of create (4 construction paths) / modify / observe / release steps with instance "
        "counts N-1, N, N+1, N+2 around every freelist size, three release orders, related classes interleaved, gc cycles, "
        "pickling, copying, weak references; every observation is compared with the base cell, with the state the language "
        "specifies (zero / None defaults) and, for the freelist classes, with the extracted allocation model.  Feature "
        "macros: every switch the generated C honours is enumerated from the generated file; each one that builds on this "
        "CPython has a cell (thorough: one cell per switch; quick: two covering cells), the rest is listed with the reason")
EXPLANATION = ("theorems (corollaries): where both variants of a helper are modelled they agree — Overflow.c builtin vs portable, "
               "CIntFromPy internals vs non-internals vs Limited-API loop, dict-version cached vs plain global lookup, DivInt "
               "constant vs variable divisor variant, LZSS compression on/off, PyObjectCompare int-int / float-int / int-float "
               "with CYTHON_USE_PYLONG_INTERNALS on vs off (all operators, all doubles, all ints); extension-type allocation with a "
               "freelist (CYTHON_USE_FREELISTS on / off, CYTHON_USE_TYPE_SPECS on / off, any freelist size and contents, any "
               "program) observes exactly what fresh zeroed allocation observes, the variant without the memset is refuted, "
               "object attributes are default in either variant, freecount stays within the array. partial: every other "
               "configuration difference is covered only by the matrix run (testing); the thorough tier measures with gcov which "
               "lines inside macro-guarded regions of the generated C the corpus executes.")
TRUSTED = ["gcc/g++ 12 as conforming compilers", "CPython 3.12 Limited API headers",
           "the generators and operand pools of props/C02.py, C05.py, C19.py (imported, not copied)",
           "gcov line/branch counts of the --coverage builds (thorough tier)",
           "tp_alloc (PyType_GenericAlloc) returns zeroed memory; PyObject_INIT / the tp_new initialisation function touch only "
           "the object header, the vtable pointer and the object attributes (modelled in M_Freelist.init, not verified)",
           "props/C39_ext.py expected_state(): the class table that says what state() must return"]
ASSUMPTIONS = ["cells/modules that do not compile on this platform (reported in the evidence notes) are skipped, not counted as agreement",
               "quick tier: the table modules are built at -O0 and only in the cells base / no_pylong_internals / limited_api "
               "(+ the call module in no_vectorcall; + the extension-type module c39z in the two covering cells no_freelists_etc / "
               "type_specs_module_state, which flip 24 object-model switches at once and do not build c39m); language, optimisation "
               "level, directives and the other macros are varied for them in the thorough tier, which also has one cell per switch",
               "extension-type programs: the expected state comes from the class table in props/C39_ext.py; only programs made of "
               "create / modify / observe / release steps are predicted, programs with gc / pickle / weakref / hook steps are compared "
               "across cells only; the allocation model is tied on programs over one freelist that start by emptying it (the "
               "freelist cannot be reset from Python)",
               "typed memoryview / buffer attributes of extension types are not in the corpus (the memoryview utility code makes "
               "the module ten times bigger); __Pyx_ClearFreelist (module cleanup) is not exercised",
               "results are compared as type + repr (floats as hex) or exception TYPE; exception messages and object addresses are not compared",
               "CYTHON_USE_EXC_INFO_STACK=0 is not exercised: it is not one of the property's switches, does not compile on "
               "CPython 3.12 without CYTHON_FAST_THREAD_STATE=0 and with it closing a suspended generator segfaults"]

SRC = r'''# cython: language_level=3
import cython

LONG_TEXT = "%s"
LONG_BYTES = b"%s"
UNI = "café € \U0001F600 \x00 end"

def arith(x):
    out = []
    for f in (lambda v: v + 1, lambda v: v - 1073741824, lambda v: v * 3, lambda v: v // 7, lambda v: v %% 7,
              lambda v: v & 255, lambda v: v | 1, lambda v: v ^ 1023, lambda v: v << 3, lambda v: v >> 2,
              lambda v: v == 5, lambda v: v != 5, lambda v: v / 4, lambda v: 10 - v, lambda v: -v):
        try:
            out.append(repr(f(x)))
        except Exception as e:
            out.append(type(e).__name__)
    return out

def conv_int(int v): return v
def conv_long(long v): return v
def conv_ulong(unsigned long v): return v
def conv_short(short v): return v
def conv_ssize(Py_ssize_t v): return v
def conv_double(double v): return v

def strings(str s, bytes b):
    return [s.upper(), s[1:3], s[-2:], s[::-1], s.startswith("ca"), s.endswith("nd", 0, 100), s.find("€"),
            s.encode("utf-8"), b.decode("latin-1"), b[1:4], b[-1], len(s), len(b), s.split(), " ".join([s, s]),
            s == UNI, s + "x" != UNI, f"{s!r:>30}", "%%s|%%5d|%%x" %% (s, 42, 255), s.replace("a", "A", 1),
            b.startswith(b"ab"), b + b"!", s * 2, sorted(s)[:5], s.isalpha(), "é" in s]

def index_ops(list l, tuple t, Py_ssize_t i):
    out = []
    for f in (lambda: l[i], lambda: t[i], lambda: l[i:], lambda: t[:i], lambda: l[::2]):
        try:
            out.append(repr(f()))
        except Exception as e:
            out.append(type(e).__name__)
    return out

def fmt(int a, long b, double d):
    return [f"{a}", f"{a:5d}", f"{b:x}", f"{b:020d}", f"{d:.3f}", f"{a!r}", "%%d %%s %%r" %% (a, b, d), str(a) + str(b), f"{a:c}" if 32 < a < 1000 else "-"]

def binding(a, b=2, *args, c, d=4, **kw):
    return (a, b, args, c, d, sorted(kw.items()))

def call_binding():
    out = []
    for call in (lambda: binding(1, c=3), lambda: binding(1, 2, 3, 4, c=5, e=6), lambda: binding(b=1, a=2, c=3),
                 lambda: binding(1), lambda: binding(1, c=2, a=3), lambda: binding(*[1, 2], **{"c": 3, "z": 4})):
        try:
            out.append(repr(call()))
        except Exception as e:
            out.append(type(e).__name__)
    return out

def closures(n):
    acc = []
    def add(x):
        acc.append(x * n)
        return len(acc)
    def gen():
        for i in range(n):
            got = yield i
            if got:
                add(got)
    g = gen()
    res = [next(g), g.send(5), next(g)]
    g.close()
    return res, acc, [add(k) for k in range(3)], (lambda q: q + n)(1)

class Base:
    kind = "base"
    def __init__(self, v): self.v = v
    def __add__(self, o): return type(self)(self.v + getattr(o, "v", o))
    def __eq__(self, o): return isinstance(o, Base) and self.v == o.v
    def __hash__(self): return hash(self.v)
    def __repr__(self): return "%%s(%%r)" %% (type(self).__name__, self.v)

cdef class Ext:
    cdef public long v
    def __init__(self, v): self.v = v
    def __add__(self, o): return Ext(self.v + (o.v if isinstance(o, Ext) else o))
    def __lt__(self, o): return self.v < o.v
    def __repr__(self): return "Ext(%%d)" %% self.v
    cpdef long twice(self): return self.v * 2

class Derived(Base):
    kind = "derived"

def objects():
    a, b = Base(1), Derived(2)
    e = Ext(5)
    out = [repr(a + b), repr(b + 1), a == Base(1), a != b, len({a, Base(1), b}), b.kind, repr(e + 3), repr(e + Ext(1)), e.twice(), e < Ext(9)]
    try:
        e > 3
    except TypeError as ex:
        out.append("TypeError")
    return out

def exceptions(k):
    log = []
    try:
        try:
            if k == 0: raise ValueError("v")
            if k == 1: raise KeyError("k")
            if k == 2: return "early"
            log.append("body")
        except ValueError as e:
            log.append("VE")
            raise RuntimeError("r") from e
        finally:
            log.append("fin")
    except RuntimeError as e:
        log.append(("RE", type(e.__cause__).__name__))
    except KeyError:
        log.append("KE")
    return log

def consts():
    return [1 << 70, -(1 << 64), 0xFFFFFFFFFFFFFFFF, 1.5e300, -0.0, (1, 2.0, "s", b"b", None, True), frozenset((1, 2)), len(LONG_TEXT), LONG_TEXT[1995:2005], len(LONG_BYTES), LONG_BYTES[3990:4010], UNI]
''' % ("".join(chr(33 + (i * 7) % 90) for i in range(5000)).replace("\\", "/").replace('"', "'").replace("%", "p"),
       "".join(chr(33 + (i * 11) % 90) for i in range(9000)).replace("\\", "/").replace('"', "'").replace("%", "p"))

CALLS = ([["arith", [x]] for x in [0, 1, -1, 5, 2 ** 30, -2 ** 30, 2 ** 31, 2 ** 62, 2 ** 63, -2 ** 63, 2 ** 64, 2 ** 100, True, 2.5, "s"]] +
         [["conv_int", [v]] for v in [0, -1, 2 ** 31 - 1, -2 ** 31, 2 ** 31, 2 ** 70, True, 1.5, "x", None]] +
         [["conv_long", [v]] for v in [2 ** 63 - 1, -2 ** 63, 2 ** 63, -2 ** 63 - 1, 2 ** 30, 2 ** 60]] +
         [["conv_ulong", [v]] for v in [0, 2 ** 64 - 1, 2 ** 64, -1, 2 ** 63]] +
         [["conv_short", [v]] for v in [32767, -32768, 32768, -32769]] +
         [["conv_ssize", [v]] for v in [2 ** 63 - 1, -2 ** 63, 2 ** 63, 7]] +
         [["conv_double", [v]] for v in [1, 2 ** 70, 1.5, True, "x"]] +
         [["strings", [{"py": "m.UNI"}, {"py": "b'abcd\\x00\\xff'"}]]] +
         [["index_ops", [[1, 2, 3], {"py": "(1, 2, 3)"}, i]] for i in [0, 2, 3, -1, -3, -4, 2 ** 62]] +
         [["fmt", [a, b, d]] for a, b, d in [(0, 0, 0.0), (65, 2 ** 62, 1.0005), (-5, -2 ** 63, -1e10), (999, 255, 3.14159)]] +
         [["call_binding", []], ["closures", [3]], ["objects", []]] +
         [["exceptions", [k]] for k in range(4)] + [["consts", []]])


def have_refnanny():
    import glob
    return bool(glob.glob(os.path.join(cybuild.REPO, "Cython", "Runtime", "refnanny*.so")))


def cells(quick):
    base = dict(cplus=False, cflags=["-O1"], macros=[], directives={}, name="base")
    out = [base]
    def cell(name, **kw):
        c = dict(base); c.update(kw); c["name"] = name; out.append(c)
    cell("cpp", cplus=True)
    cell("O0", cflags=["-O0"])
    cell("no_pylong_internals", macros=["CYTHON_USE_PYLONG_INTERNALS=0"])
    cell("no_vectorcall", macros=["CYTHON_VECTORCALL=0", "CYTHON_METH_FASTCALL=0"])
    cell("limited_api", macros=["Py_LIMITED_API=0x030C0000", "CYTHON_LIMITED_API=1"])
    cell("no_compress", macros=["CYTHON_COMPRESS_STRINGS=0"])
    cell("binding_false_noopt", directives={"binding": False, "always_allow_keywords": False, "optimize.use_switch": False,
                                             "optimize.unpack_method_calls": False, "auto_pickle": False})
    # ---- the object-model switches (type creation, allocation, finalisation, module init): two covering cells
    # in the quick tier, one cell per switch in the thorough tier (SINGLE_TOGGLES)
    cell("no_freelists_etc", macros=list(COVER_A), ext_only=True)
    cell("type_specs_module_state", macros=list(COVER_B), ext_only=True)
    if quick:
        # budget: the table modules are compiled at -O0 in the quick tier and only in the cells of the feature
        # macros that select helper bodies (language, optimisation level and directives are varied for them in
        # the thorough tier)
        for c in out:
            c["skip_m"] = bool(c.get("ext_only"))          # (budget; the thorough tier builds c39m in these cells too)
            c["table_cflags"] = ["-O0"]
            c["tables"] = {"base": True, "limited_api": True,
                           "no_pylong_internals": K.OPS_MODULES + ("c39x",),      # (c39y has no int fast paths)
                           "no_vectorcall": ("c39y",),                            # (calls are made by c39y only)
                           "no_freelists_etc": ("c39z",), "type_specs_module_state": ("c39y", "c39z"),     # (budget: c39y once)
                           }.get(c["name"], False)
    if not quick:
        cell("O3", cflags=["-O3"])
        cell("no_unicode_internals", macros=["CYTHON_USE_UNICODE_INTERNALS=0"])
        cell("avoid_borrowed_unsafe_macros", macros=["CYTHON_AVOID_BORROWED_REFS=1", "CYTHON_ASSUME_SAFE_MACROS=0", "CYTHON_ASSUME_SAFE_SIZE=0"])
        cell("no_type_slots", macros=["CYTHON_USE_TYPE_SLOTS=0", "CYTHON_USE_TYPE_SPECS=1"])
        cell("O2", cflags=["-O2"])
        cell("cpp_O3", cplus=True, cflags=["-O3"])
        cell("cpp_no_pylong_internals", cplus=True, macros=["CYTHON_USE_PYLONG_INTERNALS=0"])
        cell("compress_1", macros=["CYTHON_COMPRESS_STRINGS=1"])
        cell("compress_2", macros=["CYTHON_COMPRESS_STRINGS=2"])
        cell("compress_3", macros=["CYTHON_COMPRESS_STRINGS=3"])
        # (CYTHON_USE_EXC_INFO_STACK=0 is not a switch of the property and not a CPython configuration: it needs
        #  CYTHON_FAST_THREAD_STATE=0 to compile at all and then closing a suspended generator segfaults on 3.12)
        cell("no_internals_at_all", macros=["CYTHON_USE_PYLONG_INTERNALS=0", "CYTHON_USE_UNICODE_INTERNALS=0", "CYTHON_USE_PYLIST_INTERNALS=0",
                                            "CYTHON_USE_TYPE_SLOTS=0", "CYTHON_FAST_THREAD_STATE=0", "CYTHON_FAST_PYCALL=0"])
        cell("clang", compiler="clang")
        cell("limited_api_cpp", cplus=True, macros=["Py_LIMITED_API=0x030C0000", "CYTHON_LIMITED_API=1"])
        cell("binding_true_kw", directives={"binding": True, "always_allow_keywords": True, "optimize.inline_defnode_calls": False})
        for name, macros in SINGLE_TOGGLES:
            if name == "refnanny" and not have_refnanny():
                continue        # (the module imports Cython.Runtime.refnanny at init; recorded by macro_evidence)
            cell("only_" + name, macros=list(macros), ext_only=True, cflags=["-O0"])
        # switches the older cells only have in combination
        cell("only_avoid_borrowed", macros=["CYTHON_AVOID_BORROWED_REFS=1"], ext_only=True, cflags=["-O0"], ext_tables=("c39z",))
        cell("only_no_type_slots", macros=["CYTHON_USE_TYPE_SLOTS=0"], ext_only=True, cflags=["-O0"])
        for c in out:
            # the table modules do not depend on the string-table compression; -O2 / C++ -O3 are covered by -O3 / C++ -O1
            c["tables"] = c["name"] not in ("no_compress", "compress_1", "compress_2", "compress_3", "O2", "cpp_O3")     # (bool)
            if c.get("ext_only"):
                # the modules with types, calls, generators, module state (only_avoid_borrowed: c39y dies in its first
                # function because of the known finding below, which would hide the rest of the cell)
                c["tables"] = c.get("ext_tables", ("c39y", "c39z"))
    return out


# the covering cells of the quick tier (every switch below also has its own cell in the thorough tier)
COVER_A = ("CYTHON_USE_FREELISTS=0", "CYTHON_USE_TP_FINALIZE=0", "CYTHON_UPDATE_DESCRIPTOR_DOC=0", "CYTHON_UNPACK_METHODS=0",
           "CYTHON_PEP489_MULTI_PHASE_INIT=0", "CYTHON_USE_DICT_VERSIONS=1", "CYTHON_PEP487_INIT_SUBCLASS=0",
           "CYTHON_AVOID_THREAD_UNSAFE_BORROWED_REFS=1", "CYTHON_USE_PYTYPE_LOOKUP=0", "CYTHON_USE_AM_SEND=0", "CYTHON_VECTORCALL_TPNEW=0",
           "CYTHON_USE_OWN_PREP_RERAISE_STAR=1", "CYTHON_FAST_GIL=1", "CYTHON_ATOMICS=0", "CYTHON_CCOMPLEX=0", "CYTHON_CLINE_IN_TRACEBACK=0",
           "CYTHON_WITHOUT_ASSERTIONS=1", "CYTHON_FAST_PYCCALL=0")
COVER_B = ("CYTHON_USE_TYPE_SPECS=1", "CYTHON_USE_MODULE_STATE=1", "CYTHON_OPAQUE_OBJECTS=1", "CYTHON_USE_SYS_MONITORING=1",
           "CYTHON_CLINE_IN_TRACEBACK=1", "CYTHON_FAST_PYCALL=0")
SINGLE_TOGGLES = [("no_freelists", ("CYTHON_USE_FREELISTS=0",)), ("type_specs", ("CYTHON_USE_TYPE_SPECS=1",)),
                  ("module_state", ("CYTHON_USE_MODULE_STATE=1",)), ("no_tp_finalize", ("CYTHON_USE_TP_FINALIZE=0",)),
                  ("dict_versions", ("CYTHON_USE_DICT_VERSIONS=1",)), ("no_descr_doc", ("CYTHON_UPDATE_DESCRIPTOR_DOC=0",)),
                  ("no_unpack_methods", ("CYTHON_UNPACK_METHODS=0",)), ("no_multiphase", ("CYTHON_PEP489_MULTI_PHASE_INIT=0",)),
                  ("fast_gil", ("CYTHON_FAST_GIL=1",)), ("no_pep487", ("CYTHON_PEP487_INIT_SUBCLASS=0",)),
                  ("avoid_unsafe_borrowed", ("CYTHON_AVOID_THREAD_UNSAFE_BORROWED_REFS=1",)), ("refnanny", ("CYTHON_REFNANNY=1",)),
                  ("no_pytype_lookup", ("CYTHON_USE_PYTYPE_LOOKUP=0",)), ("no_am_send", ("CYTHON_USE_AM_SEND=0",)),
                  ("no_vectorcall_tpnew", ("CYTHON_VECTORCALL_TPNEW=0",)), ("own_reraise_star", ("CYTHON_USE_OWN_PREP_RERAISE_STAR=1",)),
                  ("opaque_objects", ("CYTHON_OPAQUE_OBJECTS=1",)), ("no_atomics", ("CYTHON_ATOMICS=0",)), ("no_ccomplex", ("CYTHON_CCOMPLEX=0",)),
                  ("cline_in_tb", ("CYTHON_CLINE_IN_TRACEBACK=1",)), ("no_cline_in_tb", ("CYTHON_CLINE_IN_TRACEBACK=0",)),
                  ("without_assertions", ("CYTHON_WITHOUT_ASSERTIONS=1",)), ("sys_monitoring", ("CYTHON_USE_SYS_MONITORING=1",)),
                  ("no_fast_pycall", ("CYTHON_FAST_PYCALL=0",)), ("no_fast_pyccall", ("CYTHON_FAST_PYCCALL=0",))]
# switches with a cell in the thorough tier only (the others are in COVER_A / COVER_B or in the older quick cells)
THOROUGH_ONLY = {"CYTHON_REFNANNY", "CYTHON_USE_UNICODE_INTERNALS", "CYTHON_USE_PYLIST_INTERNALS", "CYTHON_AVOID_BORROWED_REFS",
                 "CYTHON_ASSUME_SAFE_MACROS", "CYTHON_ASSUME_SAFE_SIZE", "CYTHON_USE_TYPE_SLOTS", "CYTHON_FAST_THREAD_STATE"}


TABLE_MODS = K.OPS_MODULES + ("c39x", "c39y", "c39z")


def _translate(args):
    name, source, wd, directives, cplus = args
    os.makedirs(wd, exist_ok=True)
    src = os.path.join(wd, name + ".pyx")
    with open(src, "w") as f:
        f.write(source)
    c_file = os.path.join(wd, name + (".cpp" if cplus else ".c"))
    res = cybuild.translate(src, c_file, directives, cplus)
    if res.get("crash") or not res.get("ok"):
        return name, None, str(res.get("crash") or res.get("errors", ""))[-1500:]
    return name, c_file, None


def cell_modules(c, sources):
    """the modules a cell builds: c39m everywhere, the table modules where the cell says so"""
    tm = c.get("tables", True)
    if tm is True:
        return list(sources)
    if not tm:
        return ["c39m"]
    return ([] if c.get("skip_m") else ["c39m"]) + [m for m in sources if m in tm]


def build_matrix(ctx, cs, sources, jobs=12):
    """translate each module once per (language, directives) group that needs it, compile it once per cell that
    needs it; a compile job starts as soon as its translation is there.  -> {cell: {module: error text or None}}"""
    groups = {}
    for c in cs:
        key = (c["cplus"], json.dumps(c["directives"], sort_keys=True))
        groups.setdefault(key, []).append(c)
    status = {c["name"]: {} for c in cs}
    for c in cs:
        for m in sources:
            if m not in cell_modules(c, sources):
                status[c["name"]][m] = "not built in this cell"

    def cc_one(c, name, c_file):
        wd = os.path.join(ctx.workdir, c["name"])
        os.makedirs(wd, exist_ok=True)
        so = os.path.join(wd, name + cybuild.EXT)
        flags = c["cflags"] if name == "c39m" else c.get("table_cflags", c["cflags"])
        rc, err = cybuild.cc(c_file, so, flags + c.get("extra_cflags", []), c["macros"], c["cplus"], c.get("compiler"), c.get("ldflags"))
        return c["name"], name, (None if rc == 0 else err[-1500:])

    with cf.ThreadPoolExecutor(max_workers=jobs) as ex:
        trs = {}
        # the big modules first: their translation is the critical path
        order = sorted(sources, key=lambda m: -len(sources[m]))
        for gi, (key, members) in enumerate(groups.items()):
            wd = os.path.join(ctx.workdir, "tr%d" % gi)
            for name in order:
                users = [c for c in members if name in cell_modules(c, sources)]
                if users:
                    fut = ex.submit(_translate, (name, sources[name], wd, members[0]["directives"], key[0]))
                    trs[fut] = users
        ccs = []
        for fut in cf.as_completed(list(trs)):
            name, c_file, err = fut.result()
            for c in trs[fut]:
                if err is not None:
                    status[c["name"]][name] = "cython: " + err
                else:
                    ccs.append(ex.submit(cc_one, c, name, c_file))
        for fut in ccs:
            cell, name, err = fut.result()
            status[cell][name] = err
    return status


def corpus_spec(ctx, quick):
    ops_src, ops_py = K.ops_sources()
    ops_tab, ops_calls = K.ops_tables(ctx.rng, quick)
    x_tab = K.x_tables(ctx.rng, quick)
    tables = dict(ops_tab)
    tables.update(x_tab)
    calls = [[m, f, mode, t] for m, f, mode, t in ops_calls] + [[m, f, mode, t] for m, f, mode, t in K.x_functions()]
    # c39z: one row per life-cycle program
    zprogs = E.programs(ctx.rng, quick)
    tables["ZP"] = [[p] for _st, p in zprogs]
    calls.append(["c39z", "z_run", "rows", ["ZP"]])
    spec = {"support": K.SUPPORT, "tables": tables, "calls": calls, "zp_strata": [st for st, _p in zprogs]}
    return dict(ops_src, c39x=K.XSRC, c39y=K.YSRC, c39z=E.ZSRC), ops_py, spec


def run_worker(ctx, wd, spec, tag):
    os.makedirs(wd, exist_ok=True)
    sp = os.path.join(wd, "c39_spec_%s.json" % tag)
    with open(sp, "w") as f:
        json.dump(spec, f)
    outp = os.path.join(wd, "c39_out_%s.jsonl" % tag)
    r = cybuild.run_script(K.WORKER, wd, None, 1500, None, None, "c39_worker_%s.py" % tag, [sp, outp])
    rows = []
    if os.path.exists(outp):
        for line in open(outp):
            try:
                rows.append(json.loads(line))
            except Exception:
                break
    last = [l[1:] for l in (r["err"] or "").splitlines() if l.startswith("@")]
    return rows, (r["rc"] == 0 and len(rows) == len(spec["calls"])), (last[-1] if last else "?"), (r["err"] or "")[-600:]


def n_rows(spec, call):
    _m, _f, mode, tnames = call
    ts = [spec["tables"][t] for t in tnames]
    if mode in ("same", "rows"):
        return len(ts[0])
    if mode == "zip":
        return min(len(t) for t in ts)
    n = 1
    for t in ts:
        n *= len(t)
    return n


def row_input(spec, call, k):
    _m, _f, mode, tnames = call
    ts = [spec["tables"][t] for t in tnames]
    if mode == "same":
        return {"a": ts[0][k][0], "b": ts[0][k][1], "same_object": ts[0][k][2]}
    if mode == "rows":
        if tnames == ["ZP"]:
            return {"args": ts[0][k], "stratum": spec["zp_strata"][k]}
        return {"args": ts[0][k]}
    if mode == "zip":
        return {"args": [t[k] for t in ts]}
    idx = []
    for t in reversed(ts):
        idx.append(k % len(t)); k //= len(t)
    return {"args": [t[i] for t, i in zip(ts, reversed(idx))]}


def model_tok(v):
    """operand of the comparison tables -> token of the cmpfloat model driver"""
    (k, x), = v.items()
    if k == "i":
        return "i" + x
    if x in ("nan", "inf", "-inf"):
        return "f" + x
    n, d = float.fromhex(x).as_integer_ratio()
    return "f%d/%d" % (n, d.bit_length() - 1)


CMP_MODEL_CFG = {"base": "312", "no_pylong_internals": "noint", "O0": "312", "cpp": "312", "no_internals_at_all": "noint",
                 "cpp_no_pylong_internals": "noint", "O2": "312", "O3": "312", "clang": "312"}


def check_cmp_model(ctx, spec, results):
    """the comparison helpers of a cell against the extracted model of the cell's variant (C19_num_eq /
    C39_pyobject_compare_*_variants_agree are about exactly these two model configurations)"""
    model = ctx.model("cmpfloat")
    ops6 = ["lt", "le", "eq", "ne", "gt", "ge"]
    for cell, rows in results.items():
        cfg = CMP_MODEL_CFG.get(cell)
        if cfg is None:
            continue
        q, where = [], []
        for ci, call in enumerate(spec["calls"]):
            m, f, mode, tnames = call
            if m != "c39cmp" or mode != "same" or not f.startswith("o_") or not f.endswith("_oo") or rows[ci] is None:
                continue
            oi = ops6.index(f.split("_")[1])
            for k, (a, b, same) in enumerate(spec["tables"][tnames[0]]):
                if isinstance(a, dict) and isinstance(b, dict):
                    q.append("nrow %s %d %s %s" % (cfg, 1 if same else 0, model_tok(a), model_tok(b)))
                    where.append((ci, k, oi))
        uq = sorted(set(q))
        ans = dict(zip(uq, model.batch(uq)))
        bad = 0
        for line, (ci, k, oi) in zip(q, where):
            mrow = ans[line].split()[0]
            got = results[cell][ci][k]
            want = {"1": "T", "0": "F"}.get(mrow[oi], "U")
            ctx.count("model-tie/%s/pyobject-compare" % cell, 1)
            if got != want and bad < 5:
                bad += 1
                ctx.corr_break("pyobject_compare:%s" % cell, dict(row_input(spec, spec["calls"][ci], k), cell=cell, func=spec["calls"][ci][1]),
                               got, "model(%s)=%s" % (cfg, want))


NO_SLOTS_CELLS = ("limited_api", "limited_api_cpp", "no_type_slots", "no_internals_at_all")
NO_KW_CELLS = ("binding_false_noopt",)
NO_PICKLE_CELLS = ("binding_false_noopt",)
NO_SLOTS_STATIC_CELLS = ("only_no_type_slots", "no_internals_at_all")       # CYTHON_USE_TYPE_SLOTS=0 with static type objects
WEAKLIST_FIXED = True         # set True after proposed_fixes/C39-weakref_slot_ignored_without_type_slots_and_type_specs.diff
AB_NEXTREF_FIXED = True       # set True after proposed_fixes/C39-avoid_borrowed_refs_dict_next_inverted_null_check.diff
NO_FINALIZE_CELLS = ("limited_api", "limited_api_cpp", "no_freelists_etc", "only_no_tp_finalize")     # CYTHON_USE_TP_FINALIZE == 0


def classify(cell, module, func, inp, base_res, cell_res):
    """class of a difference between a cell and the base cell"""
    args = inp.get("args") or []
    if module == "c39cv" and func.startswith(("arg_", "asg_")) and cell in NO_SLOTS_CELLS and len(args) == 1 \
            and isinstance(args[0], dict) and "py" in args[0] and base_res == "!TypeError":
        # __Pyx_PyNumber_Long: tp_as_number->nb_int with type slots, PyNumber_Long() without
        return "object_without_nb_int_to_c_integer_depends_on_type_slots"
    if cell in NO_KW_CELLS and module == "c39y" and func in ("c_call", "fa_call", "fa_call_direct"):
        # always_allow_keywords=False: METH_O / METH_NOARGS functions reject keyword arguments
        if func == "c_call" or (args and args[0] in ({"s": [ord(c) for c in "fa1"]}, {"s": [ord(c) for c in "m.m1"]})):
            return "always_allow_keywords_false_one_argument_function_rejects_keyword"
    if module == "c39x" and func == "n_binop_obj" and cell in ("limited_api", "limited_api_cpp") and len(args) == 2 \
            and sorted(json.dumps(a) for a in args) == ['{"f": "-0x0.0p+0"}', '{"i": "0"}']:
        # PyNumberBinop: `int 0 + float` returns the float operand; the Limited API build calls PyNumber_Add
        return "int_zero_plus_negative_zero_float"
    if module == "c39z" and cell in NO_FINALIZE_CELLS and args and any(st[0] == "new" and st[2] == "ZDel" for st in args[0]) \
            and any(st[0] == "dlog" for st in args[0]):
        # __del__ of a cdef class is the tp_finalize slot, which exists only #if CYTHON_USE_TP_FINALIZE
        return "cdef_class_del_not_called_without_tp_finalize"
    if module == "c39z" and cell in NO_SLOTS_STATIC_CELLS and not WEAKLIST_FIXED and args and any(st[0] == "weakref" for st in args[0]):
        # tp_weaklistoffset is only assigned #if CYTHON_USE_TYPE_SLOTS, the __weaklistoffset__ member only read with type specs
        return "weakref_slot_ignored_without_type_slots_and_type_specs"
    if module == "c39z" and cell in NO_PICKLE_CELLS and str(inp.get("stratum", "")).startswith("pickle/"):
        # auto_pickle=False: no __reduce_cython__ is generated, pickle.dumps raises TypeError
        return "auto_pickle_false_extension_type_not_picklable"
    return "differs_from_base:" + cell


def cell_alloc_cfg(c):
    """(CYTHON_USE_FREELISTS, CYTHON_USE_TYPE_SPECS) of a cell, as ModuleSetupCode.c resolves them on CPython 3.12"""
    mac = dict(m.split("=", 1) if "=" in m else (m, "1") for m in c["macros"])
    limited = "CYTHON_LIMITED_API" in mac or "Py_LIMITED_API" in mac
    use_fl = int(mac.get("CYTHON_USE_FREELISTS", "1"))
    specs = 1 if limited else int(mac.get("CYTHON_USE_TYPE_SPECS", "0"))
    return use_fl, specs


def check_ext(ctx, spec, tabres, cs, status):
    """c39z: (a) the generated tp_new / tp_dealloc of every freelist class has the modelled shape (tie of the model to
    the code: freelist size and the memset flag are READ from the text), (b) every cell against the class table
    (property oracle), (c) every cell against the extracted model run with the cell's configuration (tie)"""
    import glob
    ci = next(i for i, c in enumerate(spec["calls"]) if c[0] == "c39z")
    progs = [row[0] for row in spec["tables"]["ZP"]]
    strata = spec["zp_strata"]
    # (a)
    gen = None
    for path in sorted(glob.glob(os.path.join(ctx.workdir, "tr*", "c39z.c*"))):
        info = E.parse_generated(open(path, errors="replace").read())
        for cls, d in sorted(info.items()):
            ctx.case("tie/tp_new-text/" + cls, {"file": os.path.basename(os.path.dirname(path)) + "/" + os.path.basename(path), "class": cls},
                     sig=(path, cls))
            if not d["shape_ok"]:
                ctx.corr_break("generated tp_new / tp_dealloc of a freelist class", {"file": path, "class": cls}, d["why"] or "unrecognised",
                               "freecount > 0 & CHECK_TYPE -> pop -> [memset] -> PyObject_INIT ... else __Pyx_AllocateExtensionType; "
                               "dealloc: freecount < N & CHECK_TYPE -> push")
            elif d["cap"] != E.FREELISTS[cls]:
                ctx.corr_break("freelist size in generated tp_dealloc", {"file": path, "class": cls}, d["cap"], E.FREELISTS[cls])
        key = {cls: (d["cap"], d["memset"]) for cls, d in info.items()}
        if gen is not None and key != gen:
            ctx.corr_break("tp_new text differs between translations", {"file": path}, key, gen)
        gen = gen or key
    if gen is None:
        ctx.corr_break("generated c39z source", {}, "not found", "tr*/c39z.c")
        return
    caps = {cls: (v[0] if v[0] is not None else E.FREELISTS[cls]) for cls, v in gen.items()}
    memsets = {cls: v[1] for cls, v in gen.items()}
    ctx.extra["freelist_classes"] = {cls: {"size": caps[cls], "memset_in_tp_new": memsets[cls]} for cls in sorted(gen)}
    expected = [E.expected_trace(p) for p in progs]
    exp_enc = [None if e is None else E.enc(e) for e in expected]
    model = ctx.model("freelist")
    cfgs = {c["name"]: cell_alloc_cfg(c) for c in cs}
    # the model once per distinct configuration
    lines, where = [], {}
    for cfg in sorted(set(cfgs[n] for n in tabres if n in cfgs)):
        for k, p in enumerate(progs):
            ml = E.model_line(p, cfg, caps, memsets)
            if ml is not None:
                where[(cfg, k)] = (len(lines), ml[2])
                lines.append(ml[1])
    answers = model.batch(lines) if lines else []
    nfail, nbreak = {}, 0
    for name, rows in tabres.items():
        got = rows[ci] if ci < len(rows) else None
        if got is None or name not in cfgs:
            continue
        for k, p in enumerate(progs):
            st = strata[k]
            if exp_enc[k] is not None:
                ctx.count("oracle/%s/%s" % (name, st.split("/")[0]), 1, distinct_sigs=[(name, k)])
                if got[k] != exp_enc[k]:
                    klass = "ext_type_state_not_as_specified:" + st.split("/")[0]
                    nfail[klass] = nfail.get(klass, 0) + 1
                    if nfail[klass] <= 3:
                        ctx.fail(klass, {"cell": name, "module": "c39z", "func": "z_run", "stratum": st, "args": [p]}, got[k][:400], exp_enc[k][:400],
                                 note="first difference " + E.first_difference(got[k], exp_enc[k]) +
                                      " ; C attributes of a new instance must be 0 / NULL, object attributes None")
            w = where.get((cfgs[name], k))
            if w is not None:
                ans = answers[w[0]]
                ctx.count("model-tie/%s/freelist-alloc" % name, 1)
                pred = None if ans.startswith("!") else E.enc(E.model_trace(ans, w[1]))
                if pred != got[k] and nbreak < 5:
                    nbreak += 1
                    ctx.corr_break("freelist_alloc:%s" % name, {"cell": name, "stratum": st, "args": [p], "model": lines[w[0]][:300]},
                                   got[k][:300], "model: " + (ans[:100] if pred is None else pred[:300]))


def run(ctx):
    quick = ctx.tier == "quick"
    t0 = time.time()
    cs = cells(quick)
    sources, ops_py, spec = corpus_spec(ctx, quick)
    sources = dict(sources, c39m=SRC)
    status = build_matrix(ctx, cs, sources, jobs=12)
    ctx.extra["t_build_s"] = round(time.time() - t0, 1)
    if any(status["base"].get(m) for m in sources):
        ctx.corr_break("build base cell", {m: e for m, e in status["base"].items() if e}, "does not build", "module builds")
        return
    skipped = []
    for c in cs:
        for m in sources:
            if status[c["name"]].get(m) and status[c["name"]][m] != "not built in this cell":
                skipped.append("%s/%s: %s" % (c["name"], m, status[c["name"]][m].replace("\n", " ")[:160]))

    # ---- c39m: the differential program, one call per case
    results = {}

    def run_m(c):
        wd = os.path.join(ctx.workdir, c["name"])
        res = cybuild.call_cases(wd, [["m." + f, a] for f, a in CALLS], setup="import c39m as m", alarm=30)
        return [("exc:" + r["e"]) if "e" in r else json.dumps(r.get("r"), sort_keys=True) for r in res]

    # ---- c39cv, c39cmp, c39ar, c39x, c39y: table-driven
    def run_t(c):
        wd = os.path.join(ctx.workdir, c["name"])
        mods = [m for m in TABLE_MODS if not status[c["name"]].get(m)]
        sp = dict(spec, modules=mods)
        return run_worker(ctx, wd, sp, "t")

    def run_py():
        wd = os.path.join(ctx.workdir, "cpython")
        return run_worker(ctx, wd, dict(spec, modules=[], python_source=ops_py), "py")

    with cf.ThreadPoolExecutor(max_workers=8) as ex:
        fm = {c["name"]: ex.submit(run_m, c) for c in cs if not status[c["name"]].get("c39m")}
        ft = {c["name"]: ex.submit(run_t, c) for c in cs if c.get("tables", True)}     # (True or a tuple of modules)
        fpy = ex.submit(run_py)
        results = {k: f.result() for k, f in fm.items()}
        tres = {k: f.result() for k, f in ft.items()}
        pyrows = fpy.result()[0]
    if skipped:
        ctx.note("cells/modules that did not build here (skipped): " + " | ".join(skipped))
    base = results["base"]
    for name, res in results.items():
        if name == "base":
            continue
        for (f, a), x, y in zip(CALLS, base, res):
            inp = {"cell": name, "call": f, "args": a}
            ctx.case("cell/" + name, inp, sig=(name, f, json.dumps(a, default=str)))
            if x != y:
                klass = "differs_from_base:" + name
                if name == "only_avoid_borrowed" and f == "call_binding" and not AB_NEXTREF_FIXED:
                    # __Pyx_PyDict_NextRef, CYTHON_AVOID_BORROWED_REFS variant: inverted NULL checks (f(*a, **kw) from compiled code)
                    klass = "avoid_borrowed_refs_dict_next_inverted_null_check"
                ctx.fail(klass, inp, y[:300], x[:300])

    brows, bok, blast, berr = tres["base"]
    if not bok:
        ctx.corr_break("table worker, base cell", {"last_function": blast}, berr, "runs to the end")
        return
    tabres = {"base": brows}
    for name, (rows, ok, last, err) in tres.items():
        if name == "base":
            continue
        if not ok:
            ctx.fail("cell_worker_dies:" + name, {"cell": name, "last_function_started": last}, err[-300:], "the corpus runs to the end as in the base cell")
            rows = rows + [None] * (len(spec["calls"]) - len(rows))
        tabres[name] = rows
        nfail = {}
        for ci, call in enumerate(spec["calls"]):
            m, f, mode, tnames = call
            a, b = brows[ci], rows[ci]
            if b is None or a is None:
                continue            # module not built in this cell (reported in the notes)
            n = len(a)
            ctx.count("cell/%s/%s/%s" % (name, m, f.split("_")[0]), n, distinct_sigs=[(name, m, f, n)])
            if a == b:
                continue
            seen = set()
            for k in range(min(len(a), len(b))):
                if a[k] != b[k]:
                    inp = dict(row_input(spec, call, k), cell=name, module=m, func=f, row=k)
                    klass = classify(name, m, f, inp, a[k], b[k])
                    if klass in seen:
                        continue            # one report per function and class
                    seen.add(klass)
                    nfail[klass] = nfail.get(klass, 0) + 1
                    if nfail[klass] <= 4:
                        note = ""
                        if pyrows and ci < len(pyrows) and pyrows[ci] is not None:
                            note = "CPython running the same source: %s" % pyrows[ci][k][:200]
                        if m == "c39z":
                            note = "first difference (cell <> base) " + E.first_difference(b[k], a[k])
                        ctx.fail(klass, inp, b[k][:300], a[k][:300], note=note)
    check_cmp_model(ctx, spec, {k: v for k, v in tabres.items()})
    check_ext(ctx, spec, tabres, cs, status)
    macro_evidence(ctx, cs, status, sources)
    ctx.extra["cells_compared"] = sorted(results)
    ctx.extra["cells_skipped"] = skipped
    ctx.extra["table_functions"] = len(spec["calls"])
    ctx.extra["table_rows_per_cell"] = sum(n_rows(spec, c) for c in spec["calls"])
    ctx.extra["t_total_s"] = round(time.time() - t0, 1)
    if not quick:
        coverage_report(ctx, sources, spec)


# ---- feature macros -------------------------------------------------------------------------------------
# switches that cannot be given a cell on this platform (CPython 3.12, gcc), with the reason
NOT_VARIED = {
    "CYTHON_USE_UNICODE_WRITER": "forced to 0 by ModuleSetupCode.c on CPython >= 3.11 (#undef before the default)",
    "CYTHON_USE_SYS_MONITORING": "needs the CPython 3.13 sys.monitoring C API (property C45 models it)",
    "CYTHON_USE_EXC_INFO_STACK": "=0 does not compile on 3.12 without CYTHON_FAST_THREAD_STATE=0 and then closing a suspended generator "
                                 "segfaults; not a CPython configuration",
    "CYTHON_NO_PYINIT_EXPORT": "hides PyInit_<module>: the module cannot be imported",
    "CYTHON_LIMITED_API": "varied together with Py_LIMITED_API (cells limited_api, limited_api_cpp)",
    "CYTHON_COMPRESS_STRINGS": "varied (cells no_compress, compress_1..3)",
    "CYTHON_FREETHREADING_COMPATIBLE": "only read by free-threaded CPython (Py_GIL_DISABLED); this is a GIL build",
    "CYTHON_MODULE_STATE_LOOKUP_THREAD_SAFE": "only read with CYTHON_USE_MODULE_STATE on a free-threaded build",
    "CYTHON_UNSAFE_IGNORE_PYMUTEX_ABI_COMPATIBILITY": "free-threaded builds only",
    "CYTHON_USE_CPP_STD_MOVE": "C++11 detail of temporaries of C++ class type; the corpus has no C++ classes",
    "CYTHON_DEBUG_VISIT_CONST": "debug aid of the traverse functions (prints), no behaviour",
    "CYTHON_CLINE_IN_TRACEBACK_RUNTIME": "default of CYTHON_CLINE_IN_TRACEBACK, which is varied",
    "CYTHON_TRACE": "tracing / profiling hooks belong to property C45", "CYTHON_TRACE_NOGIL": "property C45",
    "CYTHON_PROFILE": "property C45", "CYTHON_PROFILE_REUSE_FRAME": "property C45", "CYTHON_PROFILE_REUSE_CODEOBJ": "property C45",
    "CYTHON_IMMORTAL_CONSTANTS": "=1 does not compile on CPython 3.12.1 (_Py_IMMORTAL_INITIAL_REFCNT undeclared; 3.12 has _Py_IMMORTAL_REFCNT)",
    "CYTHON_REFNANNY": "the module imports Cython.Runtime.refnanny at init; that extension module is not built in this checkout",
}
# compiler-attribute / spelling macros: no behaviour to compare
ATTRIBUTE_MACROS = ("CYTHON_EXTERN_C", "CYTHON_INLINE", "CYTHON_RESTRICT", "CYTHON_UNUSED", "CYTHON_UNUSED_VAR", "CYTHON_MAYBE_UNUSED_VAR",
                    "CYTHON_NCP_UNUSED", "CYTHON_FALLTHROUGH", "CYTHON_SMALL_CODE", "CYTHON_THREAD_LOCAL", "CYTHON_UNLIKELY", "CYTHON_LIKELY")


def overridable_macros(c_text):
    """every CYTHON_* macro the generated file lets the user define (#ifndef X / !defined(X) / #ifdef X / defined(X))"""
    import re
    return sorted(set(re.findall(r"(?:#\s*ifn?def\s+|defined\s*\(\s*)(CYTHON_[A-Za-z0-9_]+)", c_text)))


def macro_evidence(ctx, cs, status, sources):
    """which feature switches of the generated C have a cell (and built), which cannot, which are unaccounted for"""
    import glob
    seen = set()
    for path in glob.glob(os.path.join(ctx.workdir, "tr*", "c39*.c")):
        seen.update(overridable_macros(open(path, errors="replace").read()))
    varied, failed = {}, {}
    for c in cs:
        built = [m for m in cell_modules(c, sources) if not status[c["name"]].get(m)]
        for mac in c["macros"]:
            name = mac.split("=")[0]
            (varied if built else failed).setdefault(name, []).append(c["name"])
    out = {"varied": {k: sorted(v) for k, v in sorted(varied.items())}, "not_varied": {}, "attribute_macros": [], "unaccounted": []}
    for name in sorted(seen):
        if name in varied:
            continue
        if name in failed:
            out["not_varied"][name] = "cell(s) %s did not build on this platform" % ", ".join(failed[name])
        elif name in THOROUGH_ONLY and ctx.tier == "quick":
            out["not_varied"][name] = "varied in the thorough tier only"
        elif name in NOT_VARIED:
            out["not_varied"][name] = NOT_VARIED[name]
        elif name in ATTRIBUTE_MACROS:
            out["attribute_macros"].append(name)
        else:
            out["unaccounted"].append(name)
    ctx.extra["feature_macros"] = out
    if out["unaccounted"]:
        ctx.note("feature macros of the generated C without a cell and without a recorded reason: " + ", ".join(out["unaccounted"]))


VARIED_MACROS = ["CYTHON_USE_PYLONG_INTERNALS", "CYTHON_USE_UNICODE_INTERNALS", "CYTHON_USE_PYLIST_INTERNALS", "CYTHON_VECTORCALL",
                 "CYTHON_METH_FASTCALL", "CYTHON_FAST_PYCALL", "CYTHON_AVOID_BORROWED_REFS", "CYTHON_ASSUME_SAFE_MACROS",
                 "CYTHON_ASSUME_SAFE_SIZE", "CYTHON_USE_TYPE_SLOTS", "CYTHON_USE_TYPE_SPECS", "CYTHON_FAST_THREAD_STATE",
                 "CYTHON_USE_EXC_INFO_STACK", "CYTHON_COMPILING_IN_LIMITED_API", "CYTHON_LIMITED_API", "Py_LIMITED_API",
                 "CYTHON_COMPRESS_STRINGS", "CYTHON_COMPILING_IN_CPYTHON", "CYTHON_UNPACK_METHODS", "CYTHON_USE_UNICODE_WRITER"]
COV_CELLS = ["base", "no_internals_at_all", "limited_api", "avoid_borrowed_unsafe_macros", "no_vectorcall"]
# helper families whose macro-guarded lines the corpus must keep executing (fraction of executable guarded lines, per
# coverage cell in which the family is compiled); error exits (`return NULL`) are what is left
COV_FLOORS = {"__Pyx_PyObject_CompareFloatInt": 0.85, "__Pyx_PyObject_CompareIntFloat": 0.85, "__Pyx_PyObject_CompareIntInt": 0.85}


def parse_gcov(path):
    """-> {function: [guarded executable lines, executed among them, guarded two-way branches, of which both ways taken]},
    a line being guarded when an enclosing #if / #elif / #else group names a macro the matrix varies"""
    import re
    stack = []          # one entry per open #if: True if its condition (or an earlier branch of it) names a varied macro
    per = {}
    cur = "<file scope>"
    last_guarded = False
    br = []
    names = re.compile("|".join(VARIED_MACROS))

    def flush_branches():
        if br and last_guarded and len(br) == 2:
            e = per.setdefault(cur, [0, 0, 0, 0])
            e[2] += 1
            if all(b for b in br):
                e[3] += 1
        del br[:]
    for line in open(path, errors="replace"):
        if line.startswith("function "):
            flush_branches()
            cur = line.split()[1]
            continue
        if line.startswith("branch"):
            br.append("never" not in line and "taken 0%" not in line)
            continue
        if line.startswith("call"):
            continue
        parts = line.split(":", 2)
        if len(parts) < 3:
            continue
        flush_branches()
        cnt, src = parts[0].strip(), parts[2]
        st = src.strip()
        if st.startswith("#"):
            d = st[1:].strip()
            if d.startswith("if"):
                # (the whole file sits in the #else of `#ifndef Py_PYTHON_H ... #elif <version / limited api> #error`)
                stack.append(None if "Py_PYTHON_H" in d else bool(names.search(d)))
            elif d.startswith("elif"):
                if stack and stack[-1] is not None:
                    stack[-1] = stack[-1] or bool(names.search(d))
            elif d.startswith("endif"):
                if stack:
                    stack.pop()
            last_guarded = False
            continue
        last_guarded = any(stack)
        if cnt == "-" or not last_guarded:
            continue
        e = per.setdefault(cur, [0, 0, 0, 0])
        e[0] += 1
        if not (cnt.startswith("#") or cnt.startswith("=")):
            e[1] += 1
    flush_branches()
    return per


def coverage_report(ctx, sources, spec):
    """thorough tier: which executable lines inside macro-guarded regions of the generated C does the corpus execute?
    The three modules are rebuilt with gcc --coverage -O0 in a few cells, the whole corpus is run, gcov output is
    attributed to functions.  Evidence (extra.guarded_coverage) + floors for the helper families in COV_FLOORS."""
    import subprocess, re
    t0 = time.time()
    allc = {c["name"]: c for c in cells(False)}
    cs = []
    for n in COV_CELLS:
        c = dict(allc[n]); c["name"] = "cov_" + n; c["cflags"] = ["-O0", "--coverage"]; c.pop("compiler", None)
        cs.append(c)
    status = build_matrix(ctx, cs, sources, jobs=12)
    report, worst = {}, {}

    def run_cell(c):
        wd = os.path.join(ctx.workdir, c["name"])
        mods = [m for m in TABLE_MODS if not status[c["name"]].get(m)]
        if not status[c["name"]].get("c39m"):
            cybuild.call_cases(wd, [["m." + f, a] for f, a in CALLS], setup="import c39m as m", alarm=60)
        run_worker(ctx, wd, dict(spec, modules=mods), "cov")
        out = {}
        for m in list(mods) + ([] if status[c["name"]].get("c39m") else ["c39m"]):
            gcno = [f for f in os.listdir(wd) if f.endswith("-%s.gcno" % m)]
            if not gcno:
                continue
            subprocess.run(["gcov", "-b", "-o", ".", gcno[0]], cwd=wd, capture_output=True, text=True, timeout=900)
            g = os.path.join(wd, m + (".cpp" if c["cplus"] else ".c") + ".gcov")
            if os.path.exists(g):
                out[m] = parse_gcov(g)
        return c["name"], out
    with cf.ThreadPoolExecutor(max_workers=len(cs)) as ex:
        for name, out in ex.map(run_cell, cs):
            tot = {}
            for m, per in out.items():
                gl = sum(v[0] for v in per.values()); ge = sum(v[1] for v in per.values())
                gb = sum(v[2] for v in per.values()); gbb = sum(v[3] for v in per.values())
                tot[m] = {"guarded_lines": gl, "executed": ge, "guarded_branches": gb, "both_ways": gbb,
                          "functions_with_guarded_lines": sum(1 for v in per.values() if v[0]),
                          "functions_fully_unexecuted": sum(1 for v in per.values() if v[0] and not v[1])}
                for fn, v in per.items():
                    if v[0] >= 4 and v[1] < v[0]:
                        worst.setdefault(name, []).append((v[0] - v[1], fn, m, v[0]))
                    for fam, floor in COV_FLOORS.items():
                        if m == "c39cmp" and fn.startswith(fam) and v[0]:        # (the module that runs the C19 pools)
                            ctx.count("guarded-coverage/%s/%s" % (name, fam), 1)
                            if v[1] < floor * v[0]:
                                ctx.corr_break("guarded-coverage:" + fam, {"cell": name, "function": fn, "module": m},
                                               "%d of %d guarded lines executed" % (v[1], v[0]), ">= %d%%" % int(floor * 100))
            report[name] = tot
    ctx.extra["guarded_coverage"] = report
    ctx.extra["guarded_coverage_least_covered"] = {k: ["%s (%s): %d of %d guarded lines not executed" % (fn, m, miss, n)
                                                        for miss, fn, m, n in sorted(v, reverse=True)[:25]] for k, v in worst.items()}
    ctx.extra["t_coverage_s"] = round(time.time() - t0, 1)
