"""C39 — behaviour is identical across build configurations (DESIGN 7/C39)."""
import os, json, itertools
import cybuild

TITLE = "Behaviour is identical across build configurations"
RULE = ("one differential program (integer fast paths with constants, int<->C conversions, string/bytes ops, indexing and "
        "slicing, formatting, argument binding, closures, generators, classes, exceptions, literals beyond the string-split "
        "limit) compiled in every cell of a configuration matrix: {C, C++} x {-O0, -O2, -O3} x feature macros (PYLONG/UNICODE "
        "internals, vectorcall, borrowed refs, safe macros, type slots, Limited API) x string compression x semantics-neutral "
        "directives; every cell runs the same call list; a case is one (cell, call) compared with the baseline cell")
EXPLANATION = ("theorems (corollaries): where both variants of a helper are modelled they agree — Overflow.c builtin vs portable, "
               "CIntFromPy internals vs non-internals vs Limited-API loop, dict-version cached vs plain global lookup, DivInt "
               "constant vs variable divisor variant, LZSS compression on/off. partial: every other configuration difference is "
               "covered only by the matrix run (testing).")
TRUSTED = ["gcc/g++ 12 as conforming compilers", "CPython 3.12 Limited API headers"]
ASSUMPTIONS = ["cells that do not compile on this platform (reported in the evidence notes) are skipped, not counted as agreement"]

SRC = r'''# cython: language_level=3
import cython

LONG_TEXT = "%s"
LONG_BYTES = b"%s"
UNI = "café € \U0001F600 \x00 end"

def arith(x):
    out = []
    for f in (lambda v: v + 1, lambda v: v - 1073741824, lambda v: v * 3, lambda v: v // 7, lambda v: v %% 7,
              lambda v: v & 255, lambda v: v | 1, lambda v: v ^ 1023, lambda v: v << 3, lambda v: v >> 2,
              lambda v: v == 5, lambda v: v != 5, lambda v: v / 4, lambda v: 10 - v, lambda v: -v):
        try:
            out.append(repr(f(x)))
        except Exception as e:
            out.append(type(e).__name__)
    return out

def conv_int(int v): return v
def conv_long(long v): return v
def conv_ulong(unsigned long v): return v
def conv_short(short v): return v
def conv_ssize(Py_ssize_t v): return v
def conv_double(double v): return v

def strings(str s, bytes b):
    return [s.upper(), s[1:3], s[-2:], s[::-1], s.startswith("ca"), s.endswith("nd", 0, 100), s.find("€"),
            s.encode("utf-8"), b.decode("latin-1"), b[1:4], b[-1], len(s), len(b), s.split(), " ".join([s, s]),
            s == UNI, s + "x" != UNI, f"{s!r:>30}", "%%s|%%5d|%%x" %% (s, 42, 255), s.replace("a", "A", 1),
            b.startswith(b"ab"), b + b"!", s * 2, sorted(s)[:5], s.isalpha(), "é" in s]

def index_ops(list l, tuple t, Py_ssize_t i):
    out = []
    for f in (lambda: l[i], lambda: t[i], lambda: l[i:], lambda: t[:i], lambda: l[::2]):
        try:
            out.append(repr(f()))
        except Exception as e:
            out.append(type(e).__name__)
    return out

def fmt(int a, long b, double d):
    return [f"{a}", f"{a:5d}", f"{b:x}", f"{b:020d}", f"{d:.3f}", f"{a!r}", "%%d %%s %%r" %% (a, b, d), str(a) + str(b), f"{a:c}" if 32 < a < 1000 else "-"]

def binding(a, b=2, *args, c, d=4, **kw):
    return (a, b, args, c, d, sorted(kw.items()))

def call_binding():
    out = []
    for call in (lambda: binding(1, c=3), lambda: binding(1, 2, 3, 4, c=5, e=6), lambda: binding(b=1, a=2, c=3),
                 lambda: binding(1), lambda: binding(1, c=2, a=3), lambda: binding(*[1, 2], **{"c": 3, "z": 4})):
        try:
            out.append(repr(call()))
        except Exception as e:
            out.append(type(e).__name__)
    return out

def closures(n):
    acc = []
    def add(x):
        acc.append(x * n)
        return len(acc)
    def gen():
        for i in range(n):
            got = yield i
            if got:
                add(got)
    g = gen()
    res = [next(g), g.send(5), next(g)]
    g.close()
    return res, acc, [add(k) for k in range(3)], (lambda q: q + n)(1)

class Base:
    kind = "base"
    def __init__(self, v): self.v = v
    def __add__(self, o): return type(self)(self.v + getattr(o, "v", o))
    def __eq__(self, o): return isinstance(o, Base) and self.v == o.v
    def __hash__(self): return hash(self.v)
    def __repr__(self): return "%%s(%%r)" %% (type(self).__name__, self.v)

cdef class Ext:
    cdef public long v
    def __init__(self, v): self.v = v
    def __add__(self, o): return Ext(self.v + (o.v if isinstance(o, Ext) else o))
    def __lt__(self, o): return self.v < o.v
    def __repr__(self): return "Ext(%%d)" %% self.v
    cpdef long twice(self): return self.v * 2

class Derived(Base):
    kind = "derived"

def objects():
    a, b = Base(1), Derived(2)
    e = Ext(5)
    out = [repr(a + b), repr(b + 1), a == Base(1), a != b, len({a, Base(1), b}), b.kind, repr(e + 3), repr(e + Ext(1)), e.twice(), e < Ext(9)]
    try:
        e > 3
    except TypeError as ex:
        out.append("TypeError")
    return out

def exceptions(k):
    log = []
    try:
        try:
            if k == 0: raise ValueError("v")
            if k == 1: raise KeyError("k")
            if k == 2: return "early"
            log.append("body")
        except ValueError as e:
            log.append("VE")
            raise RuntimeError("r") from e
        finally:
            log.append("fin")
    except RuntimeError as e:
        log.append(("RE", type(e.__cause__).__name__))
    except KeyError:
        log.append("KE")
    return log

def consts():
    return [1 << 70, -(1 << 64), 0xFFFFFFFFFFFFFFFF, 1.5e300, -0.0, (1, 2.0, "s", b"b", None, True), frozenset((1, 2)), len(LONG_TEXT), LONG_TEXT[1995:2005], len(LONG_BYTES), LONG_BYTES[3990:4010], UNI]
''' % ("".join(chr(33 + (i * 7) % 90) for i in range(5000)).replace("\\", "/").replace('"', "'").replace("%", "p"),
       "".join(chr(33 + (i * 11) % 90) for i in range(9000)).replace("\\", "/").replace('"', "'").replace("%", "p"))

CALLS = ([["arith", [x]] for x in [0, 1, -1, 5, 2 ** 30, -2 ** 30, 2 ** 31, 2 ** 62, 2 ** 63, -2 ** 63, 2 ** 64, 2 ** 100, True, 2.5, "s"]] +
         [["conv_int", [v]] for v in [0, -1, 2 ** 31 - 1, -2 ** 31, 2 ** 31, 2 ** 70, True, 1.5, "x", None]] +
         [["conv_long", [v]] for v in [2 ** 63 - 1, -2 ** 63, 2 ** 63, -2 ** 63 - 1, 2 ** 30, 2 ** 60]] +
         [["conv_ulong", [v]] for v in [0, 2 ** 64 - 1, 2 ** 64, -1, 2 ** 63]] +
         [["conv_short", [v]] for v in [32767, -32768, 32768, -32769]] +
         [["conv_ssize", [v]] for v in [2 ** 63 - 1, -2 ** 63, 2 ** 63, 7]] +
         [["conv_double", [v]] for v in [1, 2 ** 70, 1.5, True, "x"]] +
         [["strings", [{"py": "m.UNI"}, {"py": "b'abcd\\x00\\xff'"}]]] +
         [["index_ops", [[1, 2, 3], {"py": "(1, 2, 3)"}, i]] for i in [0, 2, 3, -1, -3, -4, 2 ** 62]] +
         [["fmt", [a, b, d]] for a, b, d in [(0, 0, 0.0), (65, 2 ** 62, 1.0005), (-5, -2 ** 63, -1e10), (999, 255, 3.14159)]] +
         [["call_binding", []], ["closures", [3]], ["objects", []]] +
         [["exceptions", [k]] for k in range(4)] + [["consts", []]])


def cells(quick):
    base = dict(cplus=False, cflags=["-O1"], macros=[], directives={}, name="base")
    out = [base]
    def cell(name, **kw):
        c = dict(base); c.update(kw); c["name"] = name; out.append(c)
    cell("cpp", cplus=True)
    cell("O0", cflags=["-O0"])
    cell("no_pylong_internals", macros=["CYTHON_USE_PYLONG_INTERNALS=0"])
    cell("no_vectorcall", macros=["CYTHON_VECTORCALL=0", "CYTHON_METH_FASTCALL=0"])
    cell("limited_api", macros=["Py_LIMITED_API=0x030C0000", "CYTHON_LIMITED_API=1"])
    cell("no_compress", macros=["CYTHON_COMPRESS_STRINGS=0"])
    cell("binding_false_noopt", directives={"binding": False, "always_allow_keywords": False, "optimize.use_switch": False,
                                             "optimize.unpack_method_calls": False, "auto_pickle": False})
    if not quick:
        cell("O3", cflags=["-O3"])
        cell("no_unicode_internals", macros=["CYTHON_USE_UNICODE_INTERNALS=0"])
        cell("avoid_borrowed_unsafe_macros", macros=["CYTHON_AVOID_BORROWED_REFS=1", "CYTHON_ASSUME_SAFE_MACROS=0", "CYTHON_ASSUME_SAFE_SIZE=0"])
        cell("no_type_slots", macros=["CYTHON_USE_TYPE_SLOTS=0", "CYTHON_USE_TYPE_SPECS=1"])
        cell("O2", cflags=["-O2"])
        cell("cpp_O3", cplus=True, cflags=["-O3"])
        cell("cpp_no_pylong_internals", cplus=True, macros=["CYTHON_USE_PYLONG_INTERNALS=0"])
        cell("compress_1", macros=["CYTHON_COMPRESS_STRINGS=1"])
        cell("compress_2", macros=["CYTHON_COMPRESS_STRINGS=2"])
        cell("compress_3", macros=["CYTHON_COMPRESS_STRINGS=3"])
        cell("no_internals_at_all", macros=["CYTHON_USE_PYLONG_INTERNALS=0", "CYTHON_USE_UNICODE_INTERNALS=0", "CYTHON_USE_PYLIST_INTERNALS=0",
                                            "CYTHON_USE_TYPE_SLOTS=0", "CYTHON_FAST_THREAD_STATE=0", "CYTHON_FAST_PYCALL=0", "CYTHON_USE_EXC_INFO_STACK=0"])
        cell("clang", compiler="clang")
        cell("limited_api_cpp", cplus=True, macros=["Py_LIMITED_API=0x030C0000", "CYTHON_LIMITED_API=1"])
        cell("binding_true_kw", directives={"binding": True, "always_allow_keywords": True, "optimize.inline_defnode_calls": False})
    return out


def run(ctx):
    quick = ctx.tier == "quick"
    cs = cells(quick)
    specs = []
    for c in cs:
        specs.append(dict(name="c39m", source=SRC, workdir=os.path.join(ctx.workdir, c["name"]), cplus=c["cplus"], cflags=c["cflags"],
                          macros=c["macros"], directives=c["directives"], compiler=c.get("compiler")))
    built = cybuild.build_many(specs, jobs=8)
    results = {}
    skipped = []
    for c, sp, (so, err) in zip(cs, specs, built):
        if err is not None:
            if c["name"] == "base":
                ctx.corr_break("build base cell", "c39m", str(err)[:1500], "module builds")
                return
            skipped.append("%s: %s" % (c["name"], str(err).replace("\n", " ")[:160]))
            continue
        res = cybuild.call_cases(sp["workdir"], [["m." + f, a] for f, a in CALLS], setup="import c39m as m", alarm=30)
        results[c["name"]] = [("exc:" + r["e"]) if "e" in r else json.dumps(r.get("r"), sort_keys=True) for r in res]
    if skipped:
        ctx.note("cells that did not build here (skipped): " + " | ".join(skipped))
    base = results["base"]
    for name, res in results.items():
        if name == "base":
            continue
        for (f, a), x, y in zip(CALLS, base, res):
            inp = {"cell": name, "call": f, "args": a}
            ctx.case("cell/" + name, inp, sig=(name, f, json.dumps(a, default=str)))
            if x != y:
                ctx.fail("differs_from_base:" + name, inp, y[:300], x[:300])
    ctx.extra["cells_compared"] = sorted(results)
    ctx.extra["cells_skipped"] = skipped
