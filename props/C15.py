"""C15 — Indexing and slicing of builtin sequences match CPython (DESIGN 7/C15)."""
import json, os, collections
import cybuild

TITLE = "Indexing and slicing of builtin sequences match CPython"
EXTRACTS = ["Index"]
RULE = ("containers list/tuple/str/bytes/bytearray (+ list/tuple subclasses through object-typed variables) of "
        "every length 0..8; index get/set/del with every index in [-10,10] plus the bounds of the index type "
        "(Py_ssize_t, int, unsigned int, size_t, long long; MIN, MIN+1, MIN+n, MAX-1, MAX, 2^63 ...), object "
        "indices incl. |i| >= 2^63 and non-integers, literal constant indices; slices get/set/del with every "
        "(start, stop) in ([-10,10] + Py_ssize_t extremes)^2 for C-typed, object (incl. None, beyond 2^63) and "
        "absent bounds in all 9 have_start/have_stop shapes; four wraparound/boundscheck directive "
        "combinations (boundscheck=False only on in-range indices). A case is distinct by (module, function, "
        "container, index or bounds); non-trivial: every case executes the generated helper.")
EXPLANATION = ("theorems: for every length 0 <= n <= PY_SSIZE_T_MAX, every index-type width/signedness and every "
               "C value, the get/set/del fast paths (with explicit 64-bit wrap of i + n) select the same element "
               "or raise IndexError exactly like CPython, never touch memory outside [0, n) while boundscheck is "
               "on (or the index is in range), i + n never overflows; for all start/stop (C, object, None, absent) "
               "__Pyx_PyUnicode_Substring and the repaired __Pyx_crop_slice select exactly PySlice_AdjustIndices' "
               "range; the current __Pyx_crop_slice is refuted (stop - start overflows for start near "
               "PY_SSIZE_T_MAX and stop near PY_SSIZE_T_MIN: out-of-bounds copy) and the Py_ssize_t coercion of "
               "object bounds of builtin-typed bases is refuted (OverflowError instead of clamping). "
               "Correspondence: extracted model vs compiled modules vs the same operation in CPython. "
               "partial: the CPython side (list_subscript, PySlice_AdjustIndices, sq_item slots) is a "
               "transcription; TypeError cases (non-integer index, immutable target) and bytearray byte-value "
               "errors are differential tests only.")
TRUSTED = ["CPython 3.12 as the property oracle (same operation executed in the interpreter)",
           "Gallina transcription of CPython's index protocol (py_index / cpython_subscript / sq_slot) and of "
           "PySlice_Unpack + PySlice_AdjustIndices for step 1 (compared with CPython on every slice case)",
           "model of C Py_ssize_t arithmetic: explicit two's-complement wrap per operation (Lib/CInt.v)",
           "run-time type dispatch of __Pyx_GetItemInt_Fast (type flags of str/bytes/bytearray/list/tuple) is "
           "modelled by the 'kind' parameter, checked by the correspondence only",
           "gcc as a conforming C compiler for the generated module"]
ASSUMPTIONS = ["LP64, CPython 3.12 configuration (CYTHON_ASSUME_SAFE_MACROS/SIZE, USE_TYPE_SLOTS)",
               "container length n satisfies 0 <= n <= PY_SSIZE_T_MAX"]

# Model variant describing the tree under test.  Set to 1 when the corresponding
# proposed_fixes/C15-*.diff has been applied to /repo.
# (The C15_FX_* environment variables override them for trying a patched scratch worktree.)
FX_CROP = int(os.environ.get("C15_FX_CROP", "1"))      # C15-crop_slice_length_overflow.diff
FX_CLAMP = int(os.environ.get("C15_FX_CLAMP", "0"))    # typed_slice_object_bound_overflow (no repair proposed)
FX_DWRAP = int(os.environ.get("C15_FX_DWRAP", "1"))    # C15-seq_subclass_double_wraparound.diff

MAX = 2 ** 63 - 1
MIN = -2 ** 63

# typed kinds: (name, cdef type, model kind)
TYPED = [("list", "list"), ("tuple", "tuple"), ("str", "str"), ("bytes", "bytes"), ("bytearray", "bytearray")]
# index C types: (name, decl, width, signed)
ITYPES = [("ssize", "Py_ssize_t", 64, True), ("int", "int", 32, True), ("uint", "unsigned int", 32, False),
          ("size", "size_t", 64, False), ("ll", "long long", 64, True)]
CONSTS = [-10, -3, -1, 0, 1, 3, 10]
DIRS = [("tt", True, True), ("ft", False, True), ("tf", True, False), ("ff", False, False)]
SLICE_FORMS = ["cc", "co", "oc", "oo", "ac", "ca", "ao", "oa", "aa"]
CONST_SLICES = [("1", ""), ("", "-1"), ("-3", "2"), ("2", "-2"), ("-20", "20"), ("", "")]

SETUP = r'''
import collections
class LSub(list): pass
class TSub(tuple): pass
class Idx:
    def __init__(self, v): self.v = v
    def __index__(self): return self.v
def mk(kind, n):
    if kind == "list": return [100 + k for k in range(n)]
    if kind == "tuple": return tuple(100 + k for k in range(n))
    if kind == "str": return "abcdefgh€\U0001f600"[:n] if n < 3 else ("ab€cdefgh")[:n]
    if kind == "bytes": return bytes(65 + k for k in range(n))
    if kind == "bytearray": return bytearray(65 + k for k in range(n))
    if kind == "lsub": return LSub(100 + k for k in range(n))
    if kind == "tsub": return TSub(100 + k for k in range(n))
    if kind == "deque": return collections.deque(100 + k for k in range(n))
def conts(kind, ns): return [mk(kind, n) for n in ns]
def oidx(l):
    """object indices: ints as they are, ["f", x] -> float, ["s", x] -> str, ["n"] -> None, ["i", v] -> Idx(v)"""
    out = []
    for x in l:
        if isinstance(x, list):
            out.append({"f": lambda: float(x[1]), "s": lambda: str(x[1]), "n": lambda: None,
                        "i": lambda: Idx(x[1])}[x[0]]())
        else:
            out.append(x)
    return out
def oidxs(ll): return [oidx(l) for l in ll]
def _exc(e): return 'EXC:' + type(e).__name__
def sweep_get(f, conts, idxlists):
    out = []
    for c, idxs in zip(conts, idxlists):
        for i in idxs:
            try: r = repr(f(c, i))
            except Exception as e: r = _exc(e)
            out.append(r)
    return out
def sweep_mut(f, conts, idxlists, *v):
    out = []
    for c0, idxs in zip(conts, idxlists):
        for i in idxs:
            c = type(c0)(c0)
            try: f(c, i, *v); r = 'OK'
            except Exception as e: r = _exc(e)
            out.append(r + '|' + repr(c))
    return out
def sweep_cget(f, conts):
    out = []
    for c in conts:
        try: r = repr(f(c))
        except Exception as e: r = _exc(e)
        out.append(r)
    return out
def sweep_cmut(f, conts, v):
    out = []
    for c0 in conts:
        c = type(c0)(c0)
        try: f(c, v); r = 'OK'
        except Exception as e: r = _exc(e)
        out.append(r + '|' + repr(c))
    return out
def _sargs(form, a, b):
    return ([] if form[0] == 'a' else [a]) + ([] if form[1] == 'a' else [b])
def sweep_slice(f, form, conts, pairlists):
    out = []
    for c, pairs in zip(conts, pairlists):
        for a, b in pairs:
            try: r = repr(f(c, *_sargs(form, a, b)))
            except Exception as e: r = _exc(e)
            out.append(r)
    return out
def sweep_mutslice(f, form, conts, pairlists, v):
    out = []
    for c0, pairs in zip(conts, pairlists):
        for a, b in pairs:
            c = type(c0)(c0)
            try: f(c, *(_sargs(form, a, b) + [v])); r = 'OK'
            except Exception as e: r = _exc(e)
            out.append(r + '|' + repr(c))
    return out
def opairs(ll): return [[tuple(oidx(p)) for p in l] for l in ll]
'''
exec(SETUP)      # mk / LSub / TSub / Idx / oidx are also used by the oracle in this process


def gen_source(wa, bc, part, kindsel=None, itsel=None, consts=None):
    """part = 'index' or 'slice'.  One tiny function per (operation, static base type, index type /
    bound shape); the sweeps over containers and indices run in the worker process (SETUP)."""
    L = ["# cython: language_level=3, wraparound=%s, boundscheck=%s" % (wa, bc), ""]
    A = L.append
    kinds = [k for k in TYPED + [("obj", "object")] if kindsel is None or k[0] in kindsel]
    if part == "index":
        for kn, kd in kinds:
            for tn, td, tw, ts in ITYPES + [("obj", "object", 0, True)]:
                if itsel is not None and tn not in itsel:
                    continue
                if tn == "obj" and not (wa and bc):
                    continue       # object index: identical code in every directive variant
                A("def get_%s_%s(%s c, %s i):" % (kn, tn, kd, td))
                A("    return c[i]")
                if kn == "bytes" or (kn == "str" and tn != "obj"):
                    continue       # s[i] = v / del s[i] on a typed str with a C index: rejected (or broken C) at build time
                if kn == "bytearray":
                    A("def set_%s_%s(%s c, %s i, int v):" % (kn, tn, kd, td))
                else:
                    A("def set_%s_%s(%s c, %s i, v):" % (kn, tn, kd, td))
                A("    c[i] = v")
                A("def del_%s_%s(%s c, %s i):" % (kn, tn, kd, td))
                A("    del c[i]")
            for k in (CONSTS if consts is None else consts):
                if k < 0 and not wa:
                    continue        # negative literal with wraparound=False: compile-time diagnostics
                cn = ("m%d" % -k) if k < 0 else str(k)
                A("def cget_%s_%s(%s c):" % (kn, cn, kd))
                A("    return c[%d]" % k)
                if kn in ("list", "bytearray", "obj"):
                    A("def cset_%s_%s(%s c, v):" % (kn, cn, kd))
                    A("    c[%d] = %s" % (k, "66" if kn == "bytearray" else "v"))
                    A("def cdel_%s_%s(%s c, v):" % (kn, cn, kd))
                    A("    del c[%d]" % k)
    else:
        for kn, kd in kinds:
            for form in SLICE_FORMS:
                pa = {"c": ["Py_ssize_t a"], "o": ["a"], "a": []}[form[0]]
                pb = {"c": ["Py_ssize_t b"], "o": ["b"], "a": []}[form[1]]
                expr = "c[%s:%s]" % ("a" if pa else "", "b" if pb else "")
                A("def slice_%s_%s(%s):" % (kn, form, ", ".join(["%s c" % kd] + pa + pb)))
                A("    return " + expr)
                if kn in ("list", "bytearray", "obj") and form in MUT_FORMS:
                    A("def setslice_%s_%s(%s):" % (kn, form, ", ".join(["%s c" % kd] + pa + pb + ["v"])))
                    A("    %s = v" % expr)
                    A("def delslice_%s_%s(%s):" % (kn, form, ", ".join(["%s c" % kd] + pa + pb + ["v"])))
                    A("    del " + expr)
            for j, (sa, sb) in enumerate(CONST_SLICES):
                A("def cslice_%s_%d(%s c):" % (kn, j, kd))
                A("    return c[%s:%s]" % (sa, sb))
    A("")
    return "\n".join(L)


MUT_FORMS = ("cc", "oo", "ac", "ca", "co", "aa")
KA = ("list", "tuple", "str")
KB = ("bytes", "bytearray", "obj")
IT_SMALL = ("ssize", "int", "size")
C_SMALL = [-1, 0, 3]
# (module name, directive tag, wraparound, boundscheck, part, kinds, index types, literal indices)
IT_QUICK = ("ssize", "size")
C_QUICK = [-1, 3]


def modules(quick):
    it, cs = (IT_QUICK, C_QUICK) if quick else (IT_SMALL, C_SMALL)
    return [("c15_tt_a", "tt", True, True, "index", KA, None, None), ("c15_tt_b", "tt", True, True, "index", KB, None, None),
            ("c15_sl_a", "tt", True, True, "slice", KA, None, None), ("c15_sl_b", "tt", True, True, "slice", KB, None, None),
            ("c15_ft", "ft", False, True, "index", None, it, cs),
            ("c15_tf", "tf", True, False, "index", None, it, cs),
            ("c15_ff", "ff", False, False, "index", None, it, cs)]


def mod_specs(workdir, quick, only=None):
    return [dict(name=m[0], source=gen_source(m[2], m[3], m[4], m[5], m[6], m[7]), workdir=workdir)
            for m in modules(quick) if only is None or m[0] == only]


def index_module(dn, kn):
    if dn == "tt":
        return "c15_tt_a" if kn in KA else "c15_tt_b"
    return "c15_" + dn


def slice_module(kn):
    return "c15_sl_a" if kn in KA else "c15_sl_b"


# ---------------------------------------------------------------------------------------------
# oracle: the same operation in CPython

def py_get(c, i):
    try:
        return repr(c[i])
    except Exception as e:
        return "EXC:" + type(e).__name__


def py_mut(c0, op, i, v=None):
    c = type(c0)(c0)
    try:
        if op == "set":
            c[i] = v
        else:
            del c[i]
        r = "OK"
    except Exception as e:
        r = "EXC:" + type(e).__name__
    return r + "|" + repr(c)


def mk_slice(form, a, b):
    return slice(None if form[0] == "a" else a, None if form[1] == "a" else b)


def py_getslice(c, sl):
    try:
        return repr(c[sl])
    except Exception as e:
        return "EXC:" + type(e).__name__


def py_mutslice(c0, op, sl, v=None):
    c = type(c0)(c0)
    try:
        if op == "setslice":
            c[sl] = v
        else:
            del c[sl]
        r = "OK"
    except Exception as e:
        r = "EXC:" + type(e).__name__
    return r + "|" + repr(c)


# ---------------------------------------------------------------------------------------------
# model result -> observable

def model_kind(kn, c):
    if kn != "obj":
        return kn
    if type(c) is list:
        return "olist"
    if type(c) is tuple:
        return "otuple"
    if isinstance(c, (list, tuple)):
        return "oseqpy"     # heap subclasses of list and tuple get typeobject.c's slot_sq_item as sq_item
    if isinstance(c, collections.deque):
        return "oseq"       # Py_TPFLAGS_SEQUENCE type with a C sq_item slot and no mp_subscript
    return "omap"


def model_index_obs(m, c, op, v):
    """m = 'Access ; result' line of the model"""
    res = m.split(" ; ")[1] if " ; " in m else m
    if op == "get":
        if res.startswith("E "):
            return repr(c[int(res[2:])])
        if res == "IndexError":
            return "EXC:IndexError"
        return "UB:" + res
    c2 = type(c)(c)
    if res.startswith("E "):
        k = int(res[2:])
        if op == "set":
            c2[k] = v
        else:
            del c2[k]
        return "OK|" + repr(c2)
    if res == "IndexError":
        return "EXC:IndexError|" + repr(c2)
    return "UB:" + res


def model_slice_obs(m, c, op, v):
    if m == "OverflowError":
        return "EXC:OverflowError" + ("" if op == "slice" else "|" + repr(c))
    if not m.startswith("S "):
        return "UB:" + m
    f, cnt = [int(x) for x in m.split()[1:]]
    if op == "slice":
        return repr(c[f:f + cnt])
    c2 = type(c)(c)
    if op == "setslice":
        c2[f:f + cnt] = v
    else:
        del c2[f:f + cnt]
    return "OK|" + repr(c2)


def bound_tok(form_ch, x):
    if form_ch == "a":
        return "A"
    if form_ch == "c":
        return "C%d" % x
    if x is None:
        return "N"
    return "P%d" % x


# ---------------------------------------------------------------------------------------------
# finding classes (computed from the input only)

def crop_overflows(n, a, b):
    """__Pyx_crop_slice: stop - start overflows Py_ssize_t"""
    if a is None or b is None:
        return False
    s = max(a + n, 0) if a < 0 else a
    e = b + n if b < 0 else min(b, n)
    return not (MIN <= e - s <= MAX)


def eff_bound(form_ch, x, dflt):
    if form_ch == "a" or x is None:
        return dflt
    return x


def classify_slice(kn, op, form, n, a, b):
    objs = [x for ch, x in zip(form, (a, b)) if ch == "o" and x is not None]
    if kn != "obj" and any(not (MIN <= x <= MAX) for x in objs):
        return "typed_slice_object_bound_overflow"
    if kn in ("list", "tuple") and op == "slice":
        if crop_overflows(n, eff_bound(form[0], a, 0), eff_bound(form[1], b, MAX)):
            return "crop_slice_length_overflow"
    return "wrong_slice"


def classify_index(kn, op, tn, n, i, v=None, rk=None, wa=True):
    if kn == "obj" and rk in ("lsub", "tsub") and tn != "obj" and wa and isinstance(i, int) and -2 * n <= i < -n:
        return "seq_subclass_double_wraparound"
    if kn == "bytearray" and op == "set" and v is not None and not (0 <= v <= 255) \
            and isinstance(i, int) and not (-n <= i < n):
        return "bytearray_set_bad_value_bad_index_order"
    return "wrong_index_%s" % op


# ---------------------------------------------------------------------------------------------

def idx_domain(tw, ts, n):
    lo, hi = (-(2 ** (tw - 1)), 2 ** (tw - 1) - 1) if ts else (0, 2 ** tw - 1)
    vals = set(range(-10, 11)) | {lo, lo + 1, lo + n, lo + n + 1, hi, hi - 1, hi - n, 2 ** 31 - 1, 2 ** 31,
                                   -2 ** 31, 2 ** 63 - 1, 2 ** 63, 2 ** 63 - n, -2 ** 63 + n, 2 ** 32, 2 ** 32 - 1}
    return sorted(v for v in vals if lo <= v <= hi)


OBJ_INTS = [MIN - 1, MIN, MIN + 1, MAX - 1, MAX, MAX + 1, 2 ** 64, 2 ** 70, -2 ** 70]
OBJ_ODD = [["f", 1.0], ["s", "a"], ["n"], ["i", 1], ["i", -1], ["i", 20], True]


def defined_for(wa, bc, n, i):
    """boundscheck=False: the programmer promises an in-range index"""
    if bc:
        return True
    return (-n <= i < n) if wa else (0 <= i < n)


def slice_vals(quick):
    ext = [MIN, MIN + 3, MAX - 3, MAX] if quick else [MIN, MIN + 1, MIN + 3, MIN + 9, MAX - 9, MAX - 3, MAX - 1, MAX]
    return list(range(-10, 11)) + ext


def run(ctx):
    quick = ctx.tier == "quick"
    specs = mod_specs(ctx.workdir, quick)
    it_small, c_small = (IT_QUICK, C_QUICK) if quick else (IT_SMALL, C_SMALL)
    import time
    t0 = time.time()
    built = cybuild.build_many(specs, jobs=7)
    ctx.note("build %.1fs" % (time.time() - t0))
    for (so, err), sp in zip(built, specs):
        if err is not None:
            ctx.corr_break("build " + sp["name"], sp["name"], str(err)[:1500], "module builds")
            return
    model = ctx.model("index")
    NS = list(range(9))
    setup = SETUP + "\nimport %s\n" % ", ".join(m[0] for m in modules(quick))
    jobs = []     # (call, entries)  entry = dict(input, model_query|None, expect, stratum, klass, sig)

    def conts_expr(kind):
        return {"py": "conts(%r, %r)" % (kind, NS)}

    obj_kinds = ["list", "tuple", "str", "bytes", "bytearray", "lsub", "tsub"]
    setval = {"list": 7, "tuple": 7, "str": "z", "bytes": 66, "bytearray": 66, "lsub": 7, "tsub": 7, "deque": 7}

    # ---------------- integer / object index: get, set, del
    for dn, wa, bc in DIRS:
        for kn, _ in TYPED + [("obj", "object")]:
            mod = index_module(dn, kn)
            rkinds = obj_kinds + ["deque"] if kn == "obj" else [kn]
            for rk in rkinds:
                cs = [mk(rk, n) for n in NS]
                for tn, td, tw, ts in ITYPES + [("obj", None, 0, True)]:
                    if dn != "tt" and tn not in it_small and tn != "obj":
                        continue
                    for op in ("get", "set", "del"):
                        if op != "get" and kn == "bytes":
                            continue
                        if op != "get" and kn == "str" and tn != "obj":
                            continue
                        if tn == "obj":
                            if not (wa and bc):
                                continue       # object index: identical code in every directive variant
                            idxl = [list(range(-10, 11)) + OBJ_INTS + OBJ_ODD for n in NS]
                            dom = [oidx(l) for l in idxl]
                            idx_arg = {"py": "oidxs(%s)" % repr(idxl)}
                        else:
                            idxl = [[i for i in idx_domain(tw, ts, n) if defined_for(wa and ts, bc, n, i)]
                                    for n in NS]
                            dom = idxl
                            idx_arg = idxl
                        v = setval[rk]
                        args = [{"py": "%s.%s_%s_%s" % (mod, op, kn, tn)}, conts_expr(rk), idx_arg] + (
                            [v] if op == "set" else [])
                        entries = []
                        for c, n, il, dl in zip(cs, NS, idxl, dom):
                            for iraw, i in zip(il, dl):
                                isint = isinstance(i, int) and not isinstance(i, bool)
                                mutable = rk in ("list", "bytearray", "lsub", "deque")
                                mq = None
                                if isint and (op == "get" or mutable):
                                    if tn == "obj":
                                        mq = "pyindex %d %d" % (n, i)
                                    elif op == "del":
                                        mq = "del %d %s %d %d %d %d %d" % (FX_DWRAP, model_kind(kn, c), tw, ts, n, i, wa and ts)
                                    else:
                                        mq = "%s %d %s %d %d %d %d %d %d" % (op, FX_DWRAP, model_kind(kn, c), tw, ts, n, i,
                                                                             wa and ts, bc)
                                exp = py_get(c, i) if op == "get" else py_mut(c, op, i, v)
                                use_oracle = True
                                if tn != "obj" and not wa and ts and i < 0:
                                    use_oracle = False     # wraparound=False: negative index outside the property
                                entries.append(dict(
                                    input={"module": mod, "op": op, "base": kn, "runtime": rk, "n": n,
                                           "index_type": tn, "index": iraw, "value": v if op == "set" else None},
                                    mq=mq, exp=exp if use_oracle else None, c=c, op=op, v=v,
                                    stratum="%s/%s/%s/%s/%s" % (dn, op, kn if kn != "obj" else "obj:" + rk, tn,
                                                                 "int" if isint else "nonint"),
                                    klass=classify_index(kn, op, tn, n, i, None, rk, wa and ts), sig=(mod, op, kn, rk, tn, n, repr(iraw))))
                        jobs.append((["sweep_get" if op == "get" else "sweep_mut", args], entries))
                # literal constant indices
                for k in (CONSTS if dn == "tt" else c_small):
                    if k < 0 and not wa:
                        continue
                    cn = ("m%d" % -k) if k < 0 else str(k)
                    for op in ("get", "set", "del"):
                        if op != "get" and kn not in ("list", "bytearray", "obj"):
                            continue
                        if op != "get" and rk in ("tuple", "str", "bytes", "tsub") and quick:
                            continue
                        v = 66 if kn == "bytearray" else setval[rk]
                        entries = []
                        nsel = [n for n in NS if defined_for(wa, bc, n, k)]
                        for n in nsel:
                            c = mk(rk, n)
                            mutable = rk in ("list", "bytearray", "lsub", "deque")
                            mq = None
                            if op == "get" or mutable:
                                if op == "del":
                                    mq = "del %d %s 64 1 %d %d %d" % (FX_DWRAP, model_kind(kn, c), n, k, wa and k < 0)
                                else:
                                    mq = "%s %d %s 64 1 %d %d %d %d" % (op, FX_DWRAP, model_kind(kn, c), n, k, wa and k < 0, bc)
                            exp = py_get(c, k) if op == "get" else py_mut(c, op, k, v)
                            entries.append(dict(
                                input={"module": mod, "op": "c" + op, "base": kn, "runtime": rk, "n": n,
                                       "index_type": "literal", "index": k, "value": v},
                                mq=mq, exp=exp, c=c, op=op, v=v,
                                stratum="%s/%s/%s/literal" % (dn, op, kn if kn != "obj" else "obj:" + rk),
                                klass=classify_index(kn, op, "literal", n, k, None, rk, wa), sig=(mod, "c" + op, kn, rk, n, k)))
                        args = [{"py": "%s.c%s_%s_%s" % (mod, op, kn, cn)},
                                {"py": "conts(%r, %r)" % (rk, nsel)}] + ([v] if op != "get" else [])
                        jobs.append((["sweep_cget" if op == "get" else "sweep_cmut", args], entries))

    # bytearray element assignment with a value outside range(256)
    for badv in (256, -1):
        for tn, td, tw, ts in ITYPES[:1]:
            idxl = [[-n - 1, -n, -1, 0, n - 1, n, n + 1] for n in NS]
            entries = []
            for n, il in zip(NS, idxl):
                c = mk("bytearray", n)
                for i in il:
                    entries.append(dict(
                        input={"module": "c15_tt_b", "op": "set", "base": "bytearray", "runtime": "bytearray", "n": n,
                               "index_type": tn, "index": i, "value": badv},
                        mq=None, exp=py_mut(c, "set", i, badv), c=c, op="set", v=badv,
                        stratum="tt/set/bytearray/badvalue",
                        klass=classify_index("bytearray", "set", tn, n, i, badv),
                        sig=("c15_tt_b", "setbad", n, i, badv)))
            jobs.append((["sweep_mut", [{"py": "c15_tt_b.set_bytearray_%s" % tn}, conts_expr("bytearray"), idxl, badv]],
                         entries))

    # ---------------- slices (default directives)
    svals = slice_vals(quick)
    ovals_extra = [None, MIN - 1, MAX + 1, 2 ** 70, -2 ** 70]
    single = []       # inputs the model predicts to be out-of-bounds reads: run one call per case
    for kn, _ in TYPED + [("obj", "object")]:
        rkinds = obj_kinds if kn == "obj" else [kn]
        for rk in rkinds:
            if quick and kn == "obj" and rk in ("tsub",):
                continue
            for form in SLICE_FORMS:
                ops = ["slice"]
                if kn in ("list", "bytearray", "obj") and form in MUT_FORMS:
                    ops += ["setslice", "delslice"]
                for op in ops:
                    if quick and op != "slice" and form not in ("cc", "oo"):
                        continue
                    if quick and kn == "obj" and form not in ("cc", "oo", "ac", "oa"):
                        continue
                    av = [0] if form[0] == "a" else (svals + (ovals_extra if form[0] == "o" else []))
                    bv = [0] if form[1] == "a" else (svals + (ovals_extra if form[1] == "o" else []))
                    if quick and op != "slice":
                        av = [x for x in av if x is None or abs(x) <= 10 or x in (MIN, MAX)]
                        bv = [x for x in bv if x is None or abs(x) <= 10 or x in (MIN, MAX)]
                    v = {"list": [7, 8], "bytearray": b"yz", "lsub": [7, 8], "tuple": (7, 8), "tsub": (7, 8),
                         "str": "yz", "bytes": b"yz"}[rk]
                    varg = {"py": repr(v)}
                    entries, pairl = [], []
                    for n in NS:
                        c = mk(rk, n)
                        pl = []
                        for a in av:
                            for b in bv:
                                klass = classify_slice(kn, op, form, n, a, b)
                                mq = ("slice %d %d" % (FX_CROP, FX_CLAMP) if op == "slice" else
                                      "setslice %d" % FX_CLAMP) + " %s %d %s %s" % (
                                          model_kind(kn, c), n, bound_tok(form[0], a), bound_tok(form[1], b))
                                if op != "slice" and rk not in ("list", "bytearray", "lsub"):
                                    mq = None       # immutable target: TypeError, differential only
                                sl = mk_slice(form, a, b)
                                exp = py_getslice(c, sl) if op == "slice" else py_mutslice(c, op, sl, v)
                                e = dict(input={"module": slice_module(kn), "op": op, "base": kn, "runtime": rk, "n": n,
                                                "form": form, "start": a, "stop": b},
                                         mq=mq, exp=exp, c=c, op=op, v=v,
                                         stratum="tt/%s/%s/%s" % (op, kn if kn != "obj" else "obj:" + rk, form),
                                         klass=klass, sig=("sl", op, kn, rk, form, n, a, b))
                                if klass == "crop_slice_length_overflow" and not FX_CROP:
                                    single.append((kn, form, rk, n, a, b, e))
                                    continue
                                pl.append([a, b])
                                entries.append(e)
                        pairl.append(pl)
                    args = [{"py": "%s.%s_%s_%s" % (slice_module(kn), op, kn, form)}, form, conts_expr(rk), pairl] + (
                        [varg] if op != "slice" else [])
                    jobs.append((["sweep_slice" if op == "slice" else "sweep_mutslice", args], entries))
            for j, (sa, sb) in enumerate(CONST_SLICES):
                entries = []
                for n in NS:
                    c = mk(rk, n)
                    a = int(sa) if sa else None
                    b = int(sb) if sb else None
                    form = ("c" if sa else "a") + ("c" if sb else "a")
                    mq = "slice %d %d %s %d %s %s" % (FX_CROP, FX_CLAMP, model_kind(kn, c), n,
                                                      bound_tok(form[0], a), bound_tok(form[1], b))
                    entries.append(dict(input={"module": slice_module(kn), "op": "cslice", "base": kn, "runtime": rk, "n": n,
                                               "const": j},
                                        mq=mq, exp=py_getslice(c, slice(a, b)), c=c, op="slice", v=None,
                                        stratum="tt/slice/%s/literal" % (kn if kn != "obj" else "obj:" + rk),
                                        klass="wrong_slice", sig=("sl", "cslice", kn, rk, j, n)))
                jobs.append((["sweep_cget", [{"py": "%s.cslice_%s_%d" % (slice_module(kn), kn, j)}, conts_expr(rk)]], entries))

    # ---------------- run everything
    t0 = time.time()
    res = cybuild.call_cases(ctx.workdir, [j[0] for j in jobs], setup=setup, alarm=120, timeout=3000)
    t1 = time.time()
    allq = [e["mq"] for _, es in jobs for e in es if e["mq"]]
    mres = iter(model.batch(allq))
    ctx.note("prepare+run %d calls / %d cases: %.1fs; model %d queries: %.1fs" % (
        len(jobs), sum(len(es) for _, es in jobs), t1 - t0, len(allq), time.time() - t1))
    nbad = {}
    for (call, entries), r in zip(jobs, res):
        if "e" in r:
            ctx.fail("sweep_crash", {"func": call[0], "target": call[1][0]}, r, "list of results")
            for e in entries:
                if e["mq"]:
                    next(mres)
            continue
        got_list = [x["r"] for x in r["r"]]
        if len(got_list) != len(entries):
            ctx.corr_break("sweep length", {"func": call[0]}, len(got_list), len(entries))
            for e in entries:
                if e["mq"]:
                    next(mres)
            continue
        strata = {}
        for e, g in zip(entries, got_list):
            got = eval(g)            # repr of a str
            m = next(mres) if e["mq"] else None
            strata.setdefault(e["stratum"], []).append(e["sig"])
            if m is not None:
                if m.startswith("!"):
                    ctx.corr_break("index:model-error", e["input"], got, m)
                    continue
                mobs = (model_slice_obs(m, e["c"], e["op"], e["v"]) if e["op"] in ("slice", "setslice", "delslice")
                        else model_index_obs(m, e["c"], e["op"], e["v"]))
                if mobs != got and nbad.get(("m", e["stratum"]), 0) < 3:
                    nbad[("m", e["stratum"])] = nbad.get(("m", e["stratum"]), 0) + 1
                    ctx.corr_break("index:" + e["mq"].split()[0], e["input"], got, mobs + "   [" + m + "]")
            if e["exp"] is not None and got != e["exp"]:
                key = ("f", e["klass"], e["stratum"])
                if nbad.get(key, 0) < 2:
                    nbad[key] = nbad.get(key, 0) + 1
                    ctx.fail(e["klass"], e["input"], got, e["exp"], note="model says %s" % (m,))
        for st, sigs in strata.items():
            ctx.count(st, len(sigs), distinct_sigs=sigs)

    # inputs for which the model predicts an out-of-bounds copy: one subprocess-protected call each
    if single:
        pick = []
        seen = set()
        for s in single:
            key = (s[0], s[1])
            if key in seen and not (s[3] == 5 and s[4] == MAX and s[5] == MIN):
                continue
            seen.add(key)
            pick.append(s)
        pick = pick[:8 if quick else 24]
        calls = []
        for kn, form, rk, n, a, b, e in pick:
            calls.append(["sweep_slice", [{"py": "%s.slice_%s_%s" % (slice_module(kn), kn, form)}, form,
                                          {"py": "conts(%r, [%d])" % (rk, n)}, [[[a, b]]]]])
        sres = cybuild.call_cases(ctx.workdir, calls, setup=setup, alarm=30, max_crashes=60)
        mr = model.batch([s[6]["mq"] for s in pick])
        for (kn, form, rk, n, a, b, e), r, m in zip(pick, sres, mr):
            ctx.case(e["stratum"] + "/lenoverflow", e["input"], sig=e["sig"])
            got = ("EXC:" + r["e"]) if "e" in r else eval(r["r"][0]["r"])
            if not m.startswith("OOB"):
                ctx.corr_break("index:slice-oob", e["input"], got, m)
            if got != e["exp"]:
                ctx.fail(e["klass"], e["input"], got, e["exp"], note="model says %s" % m)
        ctx.count("tt/slice/lenoverflow-not-run", len(single) - len(pick),
                  distinct_sigs=[s[6]["sig"] for s in single if s not in pick])
    ctx.extra.setdefault("exhaustive_domains", []).append(
        "lengths 0..8 x indices [-10,10] + index-type bounds, per (base type, index type, get/set/del, directives)")
    ctx.extra["exhaustive_domains"].append(
        "lengths 0..8 x (start, stop) in ([-10,10] + %d Py_ssize_t extremes)^2 for typed cc/oo slice shapes"
        % (len(svals) - 21))
    ctx.extra["model_flags"] = {"FX_CROP": FX_CROP, "FX_CLAMP": FX_CLAMP, "FX_DWRAP": FX_DWRAP}


def replay(ctx, obj):
    inp = obj["input"]
    mod = inp.get("module", "c15_tt_a")
    cybuild.build_many(mod_specs(ctx.workdir, False, only=mod), jobs=2)
    rk, n, op, kn = inp["runtime"], inp["n"], inp["op"], inp["base"]
    cexpr = {"py": "conts(%r, [%d])" % (rk, n)}
    if op in ("slice", "setslice", "delslice"):
        v = {"list": [7, 8], "bytearray": b"yz", "lsub": [7, 8], "str": "yz", "bytes": b"yz"}.get(rk, (7, 8))
        call = ["sweep_slice" if op == "slice" else "sweep_mutslice",
                [{"py": "%s.%s_%s_%s" % (mod, op, kn, inp["form"])}, inp["form"], cexpr,
                 {"py": "opairs(%s)" % repr([[[inp["start"], inp["stop"]]]])}]
                + ([{"py": repr(v)}] if op != "slice" else [])]
    elif op in ("get", "set", "del") and inp.get("index_type") != "literal":
        call = ["sweep_get" if op == "get" else "sweep_mut",
                [{"py": "%s.%s_%s_%s" % (mod, op, kn, inp["index_type"])}, cexpr,
                 {"py": "oidxs(%s)" % repr([[inp["index"]]])}] + ([inp["value"]] if op == "set" else [])]
    else:
        print("replay: rerun ./check C15 for literal-index cases"); return
    r = cybuild.call_cases(ctx.workdir, [call], setup=SETUP + "\nimport %s\n" % mod, alarm=30)
    print("replayed:", json.dumps(inp), "->", r[0], "expected", obj.get("expected"))
